//! `simnet`: in-memory ordered reliable link with seeded latency, back-pressure and fault injection.
//!
//! Direction 0 carries frames from endpoint 0 to endpoint 1, direction 1 the reverse.

use std::{
    collections::VecDeque,
    io,
    pin::Pin,
    sync::{Arc, Mutex},
    task::{Context, Poll, Waker},
    time::Duration,
};

use bytes::Bytes;
use futures::{Sink, Stream};
use tokio::time::{Instant, Sleep};

use crate::{
    kit,
    proto::{Monitor, MonitorMode},
};

#[derive(Clone, Copy, Debug, PartialEq, Eq, serde::Serialize, serde::Deserialize)]
pub enum FaultKind {
    /// The sending endpoint's sink returns an error when it hands over frame `at`.
    SinkError,
    /// The receiving endpoint's stream yields an error instead of frame `at`.
    StreamError,
    /// The receiving endpoint's stream ends instead of delivering frame `at`.
    Eof,
    /// From frame `at` on nothing is delivered in this direction (silently).
    StallOneWay,
    /// From frame `at` of this direction on nothing is delivered in both directions.
    StallBoth,
}

#[derive(Clone, Copy, Debug)]
pub struct Fault {
    pub dir: usize,
    pub at: u64,
    pub kind: FaultKind,
    /// For stalls: duration in microseconds after which delivery resumes (None = forever).
    pub heal_after_us: Option<u64>,
}

#[derive(Clone, Copy, Debug)]
pub struct LinkCfg {
    /// Minimum latency per direction in microseconds.
    pub lat_min_us: [u32; 2],
    /// Additional random latency per frame (0..=jitter) in microseconds.
    pub lat_jitter_us: [u32; 2],
    /// Maximum frames in flight per direction before the sink exerts back-pressure.
    pub capacity: [usize; 2],
    /// Probability (permille) that `poll_flush` returns Pending once.
    pub flush_pending_permille: u32,
}

impl LinkCfg {
    pub fn instant() -> Self {
        Self { lat_min_us: [0, 0], lat_jitter_us: [0, 0], capacity: [1 << 20, 1 << 20], flush_pending_permille: 0 }
    }

    /// Draws a link configuration from the run's choices.
    pub fn draw() -> Self {
        let profiles: [(u32, u32); 6] = [(0, 0), (100, 0), (1000, 1000), (200, 20_000), (5000, 50_000), (0, 3000)];
        let a = kit::pick(&profiles);
        let b = if kit::coin(1, 3) { kit::pick(&profiles) } else { a };
        let caps = [1usize << 20, 1 << 20, 64, 8, 2, 1];
        let cfg = Self {
            lat_min_us: [a.0, b.0],
            lat_jitter_us: [a.1, b.1],
            capacity: [kit::pick(&caps), kit::pick(&caps)],
            flush_pending_permille: kit::pick(&[0, 0, 100, 500]),
        };
        kit::mix_plan(kit::hash_str(&format!("{cfg:?}")));
        cfg
    }
}

struct Dir {
    queue: VecDeque<(Instant, Bytes)>,
    sent: u64,
    delivered: u64,
    last_deliver_at: Option<Instant>,
    recv_waker: Option<Waker>,
    send_waker: Option<Waker>,
    sender_gone: bool,
    receiver_gone: bool,
    /// Sink error pending for the sender of this direction.
    sink_failed: bool,
    /// Stream of this direction is poisoned (error or EOF injected).
    stream_fault: Option<FaultKind>,
    stalled_until: Option<Option<Instant>>,
}

impl Dir {
    fn new() -> Self {
        Self {
            queue: VecDeque::new(),
            sent: 0,
            delivered: 0,
            last_deliver_at: None,
            recv_waker: None,
            send_waker: None,
            sender_gone: false,
            receiver_gone: false,
            sink_failed: false,
            stream_fault: None,
            stalled_until: None,
        }
    }
}

pub struct LinkShared {
    cfg: LinkCfg,
    dirs: [Dir; 2],
    faults: Vec<Fault>,
    pub monitor: Monitor,
    pub name: &'static str,
    /// (direction, frame bytes) in send order, kept only when tracing is enabled.
    pub trace: Option<Vec<(u8, u64, Bytes)>>,
    pub frames_total: u64,
    pub max_frames: u64,
    trace_payload: [bool; 2],
}

/// Control handle of a link.
#[derive(Clone)]
pub struct LinkCtl(Arc<Mutex<LinkShared>>);

impl LinkCtl {
    pub fn with<R>(&self, f: impl FnOnce(&mut LinkShared) -> R) -> R {
        let mut g = self.0.lock().unwrap_or_else(|e| e.into_inner());
        f(&mut g)
    }

    pub fn add_fault(&self, fault: Fault) {
        self.with(|l| l.faults.push(fault));
    }

    /// Removes all faults that have not fired yet.
    pub fn clear_faults(&self) {
        self.with(|l| l.faults.clear());
    }

    pub fn sent(&self, dir: usize) -> u64 {
        self.with(|l| l.dirs[dir].sent)
    }

    pub fn delivered(&self, dir: usize) -> u64 {
        self.with(|l| l.dirs[dir].delivered)
    }

    pub fn in_flight(&self) -> usize {
        self.with(|l| l.dirs[0].queue.len() + l.dirs[1].queue.len())
    }

    pub fn enable_trace(&self) {
        self.with(|l| l.trace = Some(Vec::new()));
    }

    pub fn monitor<R>(&self, f: impl FnOnce(&mut Monitor) -> R) -> R {
        self.with(|l| f(&mut l.monitor))
    }

    /// Stalls delivery in the given direction now.
    pub fn stall_now(&self, dir: usize, heal_after: Option<Duration>) {
        let until = heal_after.map(|d| Instant::now() + d);
        self.with(|l| l.dirs[dir].stalled_until = Some(until));
        kit::fault_fired("stall");
    }

    /// Cuts the link now in both directions like a closed socket: both streams end after
    /// delivering what is in flight, both sinks fail.
    pub fn cut_now(&self) {
        self.with(|l| {
            for d in 0..2 {
                l.dirs[d].sink_failed = true;
                l.dirs[d].stream_fault = Some(FaultKind::Eof);
                l.dirs[d].queue.clear();
                if let Some(w) = l.dirs[d].recv_waker.take() {
                    w.wake();
                }
                if let Some(w) = l.dirs[d].send_waker.take() {
                    w.wake();
                }
            }
        });
        kit::fault_fired("cut");
    }
}

pub struct SimSink {
    link: LinkCtl,
    dir: usize,
    flush_pending_done: bool,
}

pub struct SimStream {
    link: LinkCtl,
    dir: usize,
    sleep: Option<Pin<Box<Sleep>>>,
}

pub type Transport = (SimSink, SimStream);

/// Creates a link. Returns the transports of endpoint 0 and endpoint 1 and the control handle.
pub fn link(name: &'static str, cfg: LinkCfg, mode: MonitorMode) -> (Transport, Transport, LinkCtl) {
    let shared = LinkShared {
        cfg,
        dirs: [Dir::new(), Dir::new()],
        faults: Vec::new(),
        monitor: Monitor::new(name, mode),
        name,
        trace: None,
        frames_total: 0,
        max_frames: 200_000,
        trace_payload: [false, false],
    };
    let ctl = LinkCtl(Arc::new(Mutex::new(shared)));
    let t0 = (
        SimSink { link: ctl.clone(), dir: 0, flush_pending_done: false },
        SimStream { link: ctl.clone(), dir: 1, sleep: None },
    );
    let t1 = (
        SimSink { link: ctl.clone(), dir: 1, flush_pending_done: false },
        SimStream { link: ctl.clone(), dir: 0, sleep: None },
    );
    (t0, t1, ctl)
}

fn is_ping(data: &[u8]) -> bool {
    data.len() == 1 && data[0] == 3
}

impl Sink<Bytes> for SimSink {
    type Error = io::Error;

    fn poll_ready(self: Pin<&mut Self>, cx: &mut Context<'_>) -> Poll<Result<(), io::Error>> {
        let dir = self.dir;
        self.link.with(|l| {
            let d = &mut l.dirs[dir];
            if d.sink_failed {
                return Poll::Ready(Err(io::Error::new(io::ErrorKind::BrokenPipe, "simnet: sink failed")));
            }
            if d.receiver_gone {
                return Poll::Ready(Err(io::Error::new(io::ErrorKind::BrokenPipe, "simnet: peer closed")));
            }
            if d.queue.len() >= l.cfg.capacity[dir] {
                d.send_waker = Some(cx.waker().clone());
                kit::fault_fired("backpressure");
                return Poll::Pending;
            }
            Poll::Ready(Ok(()))
        })
    }

    fn start_send(self: Pin<&mut Self>, item: Bytes) -> Result<(), io::Error> {
        let dir = self.dir;
        let now = Instant::now();
        // Latency draw happens outside the lock (draw locks the run context only).
        let (min, jitter) = self.link.with(|l| (l.cfg.lat_min_us[dir], l.cfg.lat_jitter_us[dir]));
        let delay_us = min as u64 + if jitter > 0 { kit::draw(jitter + 1) as u64 } else { 0 };
        self.link.with(|l| {
            let idx = l.dirs[dir].sent;
            if l.dirs[dir].sink_failed || l.dirs[dir].receiver_gone {
                return Err(io::Error::new(io::ErrorKind::BrokenPipe, "simnet: sink failed"));
            }
            // Fault placement by frame index.
            let mut i = 0;
            while i < l.faults.len() {
                let f = l.faults[i];
                if f.dir == dir && f.at == idx {
                    l.faults.remove(i);
                    match f.kind {
                        FaultKind::SinkError => {
                            l.dirs[dir].sink_failed = true;
                            kit::fault_fired("sink_error");
                            return Err(io::Error::new(io::ErrorKind::BrokenPipe, "simnet: injected sink error"));
                        }
                        FaultKind::StreamError | FaultKind::Eof => {
                            // Applied when this frame would be delivered: mark by poisoning after
                            // the frames already queued.
                            l.dirs[dir].stream_fault = Some(f.kind);
                            kit::fault_fired(if f.kind == FaultKind::Eof { "eof" } else { "stream_error" });
                            if let Some(w) = l.dirs[dir].recv_waker.take() {
                                w.wake();
                            }
                        }
                        FaultKind::StallOneWay => {
                            let until = f.heal_after_us.map(|us| now + Duration::from_micros(us));
                            l.dirs[dir].stalled_until = Some(until);
                            kit::fault_fired("stall_one_way");
                        }
                        FaultKind::StallBoth => {
                            let until = f.heal_after_us.map(|us| now + Duration::from_micros(us));
                            l.dirs[0].stalled_until = Some(until);
                            l.dirs[1].stalled_until = Some(until);
                            kit::fault_fired("stall_both");
                        }
                    }
                } else {
                    i += 1;
                }
            }

            l.frames_total += 1;
            if l.frames_total > l.max_frames {
                kit::abort_run(format!("frame budget of link {} exhausted", l.name));
            }
            if std::env::var_os("SIM_TRACE_WIRE").is_some() {
                let t = kit::now_us();
                match crate::proto::decode(&item) {
                    Ok(f) if !l.trace_payload[dir] => {
                        l.trace_payload[dir] = matches!(f, crate::proto::Frame::Data { .. });
                        println!("wire t={t}us {} dir{} #{idx}: {f:?}", l.name, dir);
                    }
                    _ => {
                        l.trace_payload[dir] = false;
                        println!("wire t={t}us {} dir{} #{idx}: payload {} bytes", l.name, dir, item.len());
                    }
                }
            }
            l.monitor.on_send(dir, &item);
            if let Some(t) = &mut l.trace {
                t.push((dir as u8, idx, item.clone()));
            }
            if !is_ping(&item) {
                kit::activity();
            }

            let d = &mut l.dirs[dir];
            d.sent += 1;
            if d.stream_fault.is_some() {
                // Frames after an injected stream fault vanish.
                return Ok(());
            }
            let mut at = now + Duration::from_micros(delay_us);
            if let Some(last) = d.last_deliver_at
                && at < last
            {
                at = last;
            }
            d.last_deliver_at = Some(at);
            d.queue.push_back((at, item));
            if let Some(w) = d.recv_waker.take() {
                w.wake();
            }
            Ok(())
        })
    }

    fn poll_flush(mut self: Pin<&mut Self>, cx: &mut Context<'_>) -> Poll<Result<(), io::Error>> {
        let dir = self.dir;
        let failed = self.link.with(|l| l.dirs[dir].sink_failed);
        if failed {
            return Poll::Ready(Err(io::Error::new(io::ErrorKind::BrokenPipe, "simnet: sink failed")));
        }
        let permille = self.link.with(|l| l.cfg.flush_pending_permille);
        if permille > 0 && !self.flush_pending_done && kit::coin(permille, 1000) {
            self.flush_pending_done = true;
            cx.waker().wake_by_ref();
            kit::fault_fired("flush_pending");
            return Poll::Pending;
        }
        self.flush_pending_done = false;
        Poll::Ready(Ok(()))
    }

    fn poll_close(self: Pin<&mut Self>, _cx: &mut Context<'_>) -> Poll<Result<(), io::Error>> {
        Poll::Ready(Ok(()))
    }
}

impl Drop for SimSink {
    fn drop(&mut self) {
        let dir = self.dir;
        self.link.with(|l| {
            l.dirs[dir].sender_gone = true;
            if let Some(w) = l.dirs[dir].recv_waker.take() {
                w.wake();
            }
        });
    }
}

impl Stream for SimStream {
    type Item = io::Result<Bytes>;

    fn poll_next(mut self: Pin<&mut Self>, cx: &mut Context<'_>) -> Poll<Option<Self::Item>> {
        let dir = self.dir;
        let now = Instant::now();
        enum Step {
            Item(Bytes),
            Err,
            End,
            WaitUntil(Instant),
            Wait,
        }
        let step = self.link.with(|l| {
            // Stall handling.
            if let Some(until) = l.dirs[dir].stalled_until {
                match until {
                    Some(t) if now >= t => {
                        l.dirs[dir].stalled_until = None;
                        kit::fault_fired("heal");
                    }
                    Some(t) => {
                        l.dirs[dir].recv_waker = Some(cx.waker().clone());
                        return Step::WaitUntil(t);
                    }
                    None => {
                        l.dirs[dir].recv_waker = Some(cx.waker().clone());
                        return Step::Wait;
                    }
                }
            }
            let d = &mut l.dirs[dir];
            match d.queue.front() {
                Some((at, _)) if *at <= now => {
                    let (_, item) = d.queue.pop_front().unwrap();
                    d.delivered += 1;
                    if let Some(w) = d.send_waker.take() {
                        w.wake();
                    }
                    l.monitor.on_deliver(dir, &item);
                    if !is_ping(&item) {
                        kit::activity();
                    }
                    Step::Item(item)
                }
                Some((at, _)) => {
                    d.recv_waker = Some(cx.waker().clone());
                    Step::WaitUntil(*at)
                }
                None => match d.stream_fault {
                    Some(FaultKind::StreamError) => {
                        d.stream_fault = Some(FaultKind::Eof);
                        Step::Err
                    }
                    Some(_) => Step::End,
                    None if d.sender_gone => Step::End,
                    None => {
                        d.recv_waker = Some(cx.waker().clone());
                        Step::Wait
                    }
                },
            }
        });
        match step {
            Step::Item(item) => {
                self.sleep = None;
                Poll::Ready(Some(Ok(item)))
            }
            Step::Err => Poll::Ready(Some(Err(io::Error::new(io::ErrorKind::ConnectionReset, "simnet: injected stream error")))),
            Step::End => Poll::Ready(None),
            Step::Wait => {
                self.sleep = None;
                Poll::Pending
            }
            Step::WaitUntil(t) => {
                let mut sleep = Box::pin(tokio::time::sleep_until(t));
                // Register the timer.
                match sleep.as_mut().poll(cx) {
                    Poll::Ready(()) => {
                        cx.waker().wake_by_ref();
                    }
                    Poll::Pending => {}
                }
                self.sleep = Some(sleep);
                Poll::Pending
            }
        }
    }
}

impl Drop for SimStream {
    fn drop(&mut self) {
        let dir = self.dir;
        self.link.with(|l| {
            l.dirs[dir].receiver_gone = true;
            l.dirs[dir].queue.clear();
            if let Some(w) = l.dirs[dir].send_waker.take() {
                w.wake();
            }
        });
    }
}
