//! Batch runner: seeded search over runs, shrinking, replay files, known findings, evidence.

use std::{
    collections::{BTreeMap, BTreeSet, HashSet},
    future::Future,
    path::{Path, PathBuf},
    pin::Pin,
    sync::{
        Arc, Mutex,
        atomic::{AtomicBool, AtomicU64, Ordering},
    },
    time::{Duration, Instant},
};

use serde::{Deserialize, Serialize};
use serde_json::json;

use crate::kit::{self, RunCfg, RunReport, Violation};

pub type ScenarioFuture = Pin<Box<dyn Future<Output = ()>>>;

#[derive(Clone)]
pub struct Scenario {
    pub name: &'static str,
    pub weight: u32,
    pub max_polls: u64,
    pub max_virtual_secs: u64,
    pub run: fn() -> ScenarioFuture,
}

pub struct Check {
    pub id: &'static str,
    pub level: &'static str,
    pub classes: Vec<&'static str>,
    pub scenarios: Vec<Scenario>,
    /// (runs, wall seconds) per tier.
    pub quick: (u64, u64),
    pub thorough: (u64, u64),
    pub rule: &'static str,
    pub assumptions: Vec<&'static str>,
    /// Probes that must be non-zero for the check to count as having reached its subject.
    pub required_probes: Vec<&'static str>,
    pub real_components: &'static str,
    pub stub_components: &'static str,
}

#[derive(Serialize, Deserialize, Clone, Debug)]
pub struct ReplayFile {
    pub property: String,
    pub scenario: String,
    pub seed: u64,
    pub run_index: u64,
    pub verif_seed: u64,
    pub choices: Vec<u32>,
    pub violation: Violation,
    pub trace_hash: u64,
    pub sched_hash: u64,
    pub minimised: bool,
    pub original_choices_len: usize,
    pub notes: Vec<String>,
}

#[derive(Deserialize, Clone, Debug)]
pub struct KnownFinding {
    pub status: String,
    pub property: String,
    pub signature: String,
    pub text: String,
    #[serde(default)]
    pub commit: Option<String>,
}

pub fn verif_dir() -> PathBuf {
    if let Some(d) = std::env::var_os("VERIF_DIR") {
        return PathBuf::from(d);
    }
    // The binary lives in <verif>/sim/target/release/sim.
    let exe = std::env::current_exe().expect("current_exe");
    let mut p = exe.as_path();
    for _ in 0..4 {
        p = p.parent().unwrap_or(Path::new("/verif"));
    }
    p.to_path_buf()
}

pub fn load_known() -> Vec<KnownFinding> {
    let path = verif_dir().join("known_findings.json");
    match std::fs::read_to_string(&path) {
        Ok(s) => match serde_json::from_str::<Vec<KnownFinding>>(&s) {
            Ok(v) => v,
            Err(e) => {
                eprintln!("harness error: cannot parse {}: {e}", path.display());
                std::process::exit(2);
            }
        },
        Err(_) => Vec::new(),
    }
}

pub fn verif_seed() -> u64 {
    std::env::var("VERIF_SEED").ok().and_then(|s| s.trim().parse::<u64>().ok()).unwrap_or(20_260_923)
}

fn run_seed(verif_seed: u64, prop: &str, index: u64) -> u64 {
    kit::mix(kit::mix(verif_seed, kit::hash_str(prop)), index)
}

fn pick_scenario(check: &Check, seed: u64) -> usize {
    let total: u64 = check.scenarios.iter().map(|s| s.weight as u64).sum();
    let mut x = kit::mix(seed, 0x5CE7_A210) % total.max(1);
    for (i, s) in check.scenarios.iter().enumerate() {
        if x < s.weight as u64 {
            return i;
        }
        x -= s.weight as u64;
    }
    0
}

pub fn execute(check: &Check, scenario: &Scenario, seed: u64, index: u64, replay: Option<Vec<u32>>) -> RunReport {
    let rc = RunCfg { seed, index, replay, max_polls: scenario.max_polls, classes: check.classes.clone(), max_virtual_secs: scenario.max_virtual_secs };
    let mut r = kit::run_one(&rc, scenario.run);
    // No property tolerates a panic inside remoc: whatever the check, a panic whose location lies in
    // remoc's sources is a violation (identified by file and line).
    if r.violation.is_none()
        && let Some(first) = r.panics.iter().find(|p| p.contains("/remoc/src/") || p.contains("/remoc_macro/src/"))
    {
        let loc = first.split(": ").next().unwrap_or("").rsplit('/').next().unwrap_or("").to_string();
        r.violation = Some(Violation {
            kind: "panic-in-remoc".into(),
            signature: format!("panic:{loc}"),
            detail: format!("remoc panicked during the run: {:?}", r.panics),
        });
    }
    // Debug aid: turn budget aborts into pseudo-violations so that they get minimised and written out.
    if r.violation.is_none()
        && let Some(a) = &r.aborted
        && std::env::var_os("SIM_ABORT_IS_VIOLATION").is_some()
    {
        let key = a.split(' ').take(3).collect::<Vec<_>>().join("-");
        r.violation = Some(Violation { kind: "aborted".into(), signature: format!("aborted:{key}"), detail: a.clone() });
    }
    r
}

#[derive(Default)]
struct Agg {
    evaluations: u64,
    aborted: u64,
    abort_reasons: BTreeMap<String, u64>,
    sched: HashSet<u64>,
    plans: HashSet<u64>,
    nontrivial: HashSet<(u64, u64)>,
    traces: HashSet<u64>,
    probes: BTreeMap<String, u64>,
    faults: BTreeMap<String, u64>,
    sim_ms: u64,
    polls: u64,
    defers: u64,
    panics: u64,
    panic_samples: BTreeSet<String>,
    samples: Vec<serde_json::Value>,
    per_scenario: BTreeMap<String, u64>,
    violations: Vec<(u64, usize, RunReport)>,
    known_hits: BTreeMap<String, u64>,
}

impl Agg {
    fn absorb(&mut self, idx: u64, sc: usize, scname: &str, r: RunReport, known: &HashSet<String>) {
        self.evaluations += 1;
        *self.per_scenario.entry(scname.to_string()).or_insert(0) += 1;
        if let Some(a) = &r.aborted {
            self.aborted += 1;
            *self.abort_reasons.entry(a.clone()).or_insert(0) += 1;
        }
        self.sched.insert(r.sched_hash);
        self.plans.insert(r.plan_hash);
        self.traces.insert(r.trace_hash);
        if r.nontrivial {
            self.nontrivial.insert((r.plan_hash, r.sched_hash));
        }
        for (k, v) in &r.probes {
            *self.probes.entry(k.to_string()).or_insert(0) += v;
        }
        for (k, v) in &r.faults {
            *self.faults.entry(k.to_string()).or_insert(0) += v;
        }
        self.sim_ms += r.sim_ms;
        self.polls += r.polls;
        self.defers += r.defers;
        self.panics += r.panics.len() as u64;
        for p in &r.panics {
            if self.panic_samples.len() < 8 {
                self.panic_samples.insert(p.clone());
            }
        }
        if self.samples.len() < 3
            && r.nontrivial
            && let Some(s) = &r.sample
        {
            self.samples.push(json!({"scenario": scname, "run_index": idx, "case": s}));
        }
        if let Some(v) = &r.violation {
            if known.contains(&v.signature) {
                *self.known_hits.entry(v.signature.clone()).or_insert(0) += 1;
                // Keep one instance per known signature for documentation.
                if !self.violations.iter().any(|(_, _, o)| o.violation.as_ref().map(|x| &x.signature) == Some(&v.signature)) {
                    self.violations.push((idx, sc, r));
                }
            } else if self.violations.len() < 64 {
                self.violations.push((idx, sc, r));
            }
        }
    }

    fn merge(&mut self, o: Agg) {
        self.evaluations += o.evaluations;
        self.aborted += o.aborted;
        for (k, v) in o.abort_reasons {
            *self.abort_reasons.entry(k).or_insert(0) += v;
        }
        self.sched.extend(o.sched);
        self.plans.extend(o.plans);
        self.nontrivial.extend(o.nontrivial);
        self.traces.extend(o.traces);
        for (k, v) in o.probes {
            *self.probes.entry(k).or_insert(0) += v;
        }
        for (k, v) in o.faults {
            *self.faults.entry(k).or_insert(0) += v;
        }
        self.sim_ms += o.sim_ms;
        self.polls += o.polls;
        self.defers += o.defers;
        self.panics += o.panics;
        self.panic_samples.extend(o.panic_samples);
        for s in o.samples {
            if self.samples.len() < 3 {
                self.samples.push(s);
            }
        }
        for (k, v) in o.per_scenario {
            *self.per_scenario.entry(k).or_insert(0) += v;
        }
        self.violations.extend(o.violations);
        for (k, v) in o.known_hits {
            *self.known_hits.entry(k).or_insert(0) += v;
        }
    }
}

fn workers() -> usize {
    std::env::var("SIM_WORKERS")
        .ok()
        .and_then(|s| s.parse().ok())
        .unwrap_or_else(|| std::thread::available_parallelism().map(|n| n.get()).unwrap_or(4).min(16))
}

/// Shrinks a failing choice list while the same violation kind (and signature) persists.
fn shrink(check: &Check, scenario: &Scenario, seed: u64, index: u64, orig: &RunReport, budget_runs: u32, budget: Duration) -> RunReport {
    let target = orig.violation.clone().unwrap();
    let start = Instant::now();
    let mut best = orig.clone();
    let mut runs = 0u32;
    let same = |r: &RunReport| r.violation.as_ref().map(|v| v.kind == target.kind && v.signature == target.signature).unwrap_or(false);
    let mut try_list = |list: Vec<u32>, best: &mut RunReport, runs: &mut u32| -> bool {
        if *runs >= budget_runs || start.elapsed() > budget {
            return false;
        }
        *runs += 1;
        let r = execute(check, scenario, seed, index, Some(list));
        if same(&r) && r.choices.len() <= best.choices.len() {
            *best = r;
            true
        } else {
            false
        }
    };

    // The recorded list of a replay equals the draws actually made; start from it.
    // 1. Truncation (missing draws replay as 0).
    let mut lo = 0usize;
    let mut hi = best.choices.len();
    while lo < hi && runs < budget_runs {
        let mid = (lo + hi) / 2;
        let list = best.choices[..mid].to_vec();
        let prev_len = best.choices.len();
        if try_list(list, &mut best, &mut runs) {
            hi = mid.min(best.choices.len());
            if best.choices.len() >= prev_len && mid >= prev_len {
                break;
            }
        } else {
            lo = mid + 1;
        }
    }
    // 2. Zero blocks, then delete blocks, then reduce single values.
    for &size in &[256usize, 64, 16, 4, 1] {
        let mut i = 0;
        while i < best.choices.len() && runs < budget_runs && start.elapsed() <= budget {
            let end = (i + size).min(best.choices.len());
            if best.choices[i..end].iter().all(|v| *v == 0) {
                i = end;
                continue;
            }
            let mut list = best.choices.clone();
            for v in &mut list[i..end] {
                *v = 0;
            }
            if !try_list(list, &mut best, &mut runs) {
                let mut list = best.choices.clone();
                list.drain(i..end);
                let _ = try_list(list, &mut best, &mut runs);
            }
            i = end;
        }
    }
    let mut i = 0;
    while i < best.choices.len() && runs < budget_runs && start.elapsed() <= budget {
        let v = best.choices[i];
        if v > 1 {
            for cand in [v / 2, v - 1] {
                let mut list = best.choices.clone();
                list[i] = cand;
                if try_list(list, &mut best, &mut runs) {
                    break;
                }
            }
        }
        i += 1;
    }
    // Trim trailing zeros (equivalent under replay).
    let mut list = best.choices.clone();
    while list.last() == Some(&0) {
        list.pop();
    }
    if list.len() != best.choices.len() {
        let r = execute(check, scenario, seed, index, Some(list.clone()));
        if same(&r) {
            best = r;
            best.choices = list;
        }
    }
    best
}

fn write_replay(check: &Check, scenario: &Scenario, seed: u64, idx: u64, r: &RunReport, minimised: bool, orig_len: usize, tag: &str) -> PathBuf {
    let dir = verif_dir().join("replays").join(check.id);
    let _ = std::fs::create_dir_all(&dir);
    let file = ReplayFile {
        property: check.id.to_string(),
        scenario: scenario.name.to_string(),
        seed,
        run_index: idx,
        verif_seed: verif_seed(),
        choices: r.choices.clone(),
        violation: r.violation.clone().unwrap(),
        trace_hash: r.trace_hash,
        sched_hash: r.sched_hash,
        minimised,
        original_choices_len: orig_len,
        notes: r.notes.clone(),
    };
    let path = dir.join(format!("{tag}{seed:016x}-{idx}.json"));
    std::fs::write(&path, serde_json::to_string_pretty(&file).unwrap()).expect("write replay");
    path
}

/// Replays a file. Exit code 1 if the same violation reproduces, 0 if not.
pub fn replay(checks: &[Check], path: &Path, verbose: bool) -> i32 {
    let data = match std::fs::read_to_string(path) {
        Ok(d) => d,
        Err(e) => {
            eprintln!("harness error: cannot read {}: {e}", path.display());
            return 2;
        }
    };
    let file: ReplayFile = match serde_json::from_str(&data) {
        Ok(f) => f,
        Err(e) => {
            eprintln!("harness error: cannot parse {}: {e}", path.display());
            return 2;
        }
    };
    let Some(check) = checks.iter().find(|c| c.id == file.property) else {
        eprintln!("harness error: unknown property {}", file.property);
        return 2;
    };
    let Some(scenario) = check.scenarios.iter().find(|s| s.name == file.scenario) else {
        eprintln!("harness error: unknown scenario {}", file.scenario);
        return 2;
    };
    let r = execute(check, scenario, file.seed, file.run_index, Some(file.choices.clone()));
    if verbose {
        for n in &r.notes {
            println!("note: {n}");
        }
        println!("polls={} seq={} sched_hash={:016x} trace_hash={:016x} sim_ms={}", r.polls, r.seq, r.sched_hash, r.trace_hash, r.sim_ms);
        for p in &r.panics {
            println!("panic: {p}");
        }
        if let Some(s) = &r.sample {
            println!("case: {}", serde_json::to_string_pretty(s).unwrap());
        }
        println!("probes: {:?} faults: {:?}", r.probes, r.faults);
    }
    match &r.violation {
        Some(v) if v.kind == file.violation.kind && v.signature == file.violation.signature => {
            let exact = r.trace_hash == file.trace_hash && r.sched_hash == file.sched_hash;
            println!("REPRODUCED property={} kind={} signature={} exact={}", file.property, v.kind, v.signature, exact);
            println!("detail: {}", v.detail);
            if exact { 1 } else { 3 }
        }
        Some(v) => {
            println!("DIFFERENT violation: kind={} signature={} detail={}", v.kind, v.signature, v.detail);
            3
        }
        None => {
            println!("NOT REPRODUCED (aborted={:?})", r.aborted);
            0
        }
    }
}

pub fn run_check(check: &Check, tier: &str, all_checks_exe_replay: bool) -> i32 {
    let started = Instant::now();
    let vseed = verif_seed();
    let (mut max_runs, max_secs) = if tier == "thorough" { check.thorough } else { check.quick };
    if max_runs == 0 {
        // Enumerating checks compute the size of their case space at run time.
        max_runs = crate::props::dynamic_runs(check.id, tier);
    }
    let max_runs = std::env::var("SIM_RUNS").ok().and_then(|s| s.parse().ok()).unwrap_or(max_runs);
    let max_secs = std::env::var("SIM_SECS").ok().and_then(|s| s.parse().ok()).unwrap_or(max_secs);
    let known_all = load_known();
    let known: HashSet<String> =
        known_all.iter().filter(|k| k.status == "known" && k.property == check.id).map(|k| k.signature.clone()).collect();

    println!("check {} tier={tier} VERIF_SEED={vseed} max_runs={max_runs} max_secs={max_secs} workers={}", check.id, workers());

    let next = Arc::new(AtomicU64::new(0));
    let stop = Arc::new(AtomicBool::new(false));
    let total = Arc::new(Mutex::new(Agg::default()));
    let deadline = started + Duration::from_secs(max_secs);

    std::thread::scope(|scope| {
        for _ in 0..workers() {
            let next = next.clone();
            let stop = stop.clone();
            let total = total.clone();
            let known = known.clone();
            scope.spawn(move || {
                let mut agg = Agg::default();
                loop {
                    if stop.load(Ordering::Relaxed) || Instant::now() > deadline {
                        break;
                    }
                    let idx = next.fetch_add(1, Ordering::Relaxed);
                    if idx >= max_runs {
                        break;
                    }
                    let seed = run_seed(vseed, check.id, idx);
                    let sc = pick_scenario(check, seed);
                    let scenario = &check.scenarios[sc];
                    let r = execute(check, scenario, seed, idx, None);
                    let new_violation = r.violation.as_ref().map(|v| !known.contains(&v.signature)).unwrap_or(false);
                    agg.absorb(idx, sc, scenario.name, r, &known);
                    if new_violation {
                        stop.store(true, Ordering::Relaxed);
                    }
                }
                total.lock().unwrap().merge(agg);
            });
        }
    });

    let mut agg = std::mem::take(&mut *total.lock().unwrap());
    agg.violations.sort_by_key(|(idx, _, _)| *idx);
    let explore_s = started.elapsed().as_secs_f64();

    // Triage violations.
    let mut exit = 0;
    let mut reported = 0;
    let mut known_reported: BTreeSet<String> = BTreeSet::new();
    let mut harness_errors: Vec<String> = Vec::new();
    let violations = std::mem::take(&mut agg.violations);
    for (idx, sc, r) in &violations {
        let v = r.violation.clone().unwrap();
        let scenario = &check.scenarios[*sc];
        let seed = run_seed(vseed, check.id, *idx);
        if known.contains(&v.signature) {
            if known_reported.insert(v.signature.clone()) {
                let text = known_all.iter().find(|k| k.signature == v.signature && k.property == check.id).map(|k| k.text.clone()).unwrap_or_default();
                println!("KNOWN-FINDING: property={} {} [signature {}; {} runs]", check.id, text, v.signature, agg.known_hits.get(&v.signature).copied().unwrap_or(0));
                if std::env::var_os("SIM_KEEP_KNOWN").is_some() {
                    let min = shrink(check, scenario, seed, *idx, r, 300, Duration::from_secs(30));
                    let p = write_replay(check, scenario, seed, *idx, &min, true, r.choices.len(), "known-");
                    println!("  replay of known finding: {}", p.display());
                }
            }
            continue;
        }
        if reported >= 1 {
            continue;
        }
        // Confirm determinism in-process first: the recorded choice list must reproduce.
        let again = execute(check, scenario, seed, *idx, Some(r.choices.clone()));
        let same = again.violation.as_ref().map(|w| w.kind == v.kind && w.signature == v.signature).unwrap_or(false);
        if !same {
            harness_errors.push(format!("violation {} of run {idx} does not replay from its own choice list (got {:?})", v.kind, again.violation));
            continue;
        }
        let min = shrink(check, scenario, seed, *idx, &again, 300, Duration::from_secs(30));
        let path = write_replay(check, scenario, seed, *idx, &min, true, r.choices.len(), "");
        // Replay in a fresh process.
        let ok = if all_checks_exe_replay {
            let out = std::process::Command::new(std::env::current_exe().unwrap()).arg("replay").arg(&path).output();
            match out {
                Ok(o) => o.status.code() == Some(1),
                Err(_) => false,
            }
        } else {
            true
        };
        if ok {
            let mv = min.violation.as_ref().unwrap();
            println!("violation kind={} signature={}", mv.kind, mv.signature);
            println!("detail: {}", mv.detail);
            println!("scenario={} run_index={idx} seed={seed} choices {} -> {} after minimisation", scenario.name, r.choices.len(), min.choices.len());
            println!("VIOLATION property={} replay={}", check.id, path.display());
            exit = 1;
            reported += 1;
        } else {
            harness_errors.push(format!("violation {} of run {idx} did not reproduce exactly in a fresh process ({})", v.kind, path.display()));
        }
    }

    // Evidence.
    let wall = started.elapsed().as_secs_f64();
    let runs_per_hour = if explore_s > 0.0 { agg.evaluations as f64 / explore_s * 3600.0 } else { 0.0 };
    let mut missing_probes: Vec<&str> = Vec::new();
    for p in &check.required_probes {
        if agg.probes.get(*p).copied().unwrap_or(0) == 0 && agg.faults.get(*p).copied().unwrap_or(0) == 0 {
            missing_probes.push(p);
        }
    }
    let samples = if agg.samples.is_empty() { vec![json!({"note": "no non-trivial sample recorded"})] } else { agg.samples.clone() };
    let evidence = json!({
        "property_id": check.id,
        "tier": if tier == "thorough" { "thorough" } else { "quick" },
        "seed": vseed,
        "level": check.level,
        "coverage": {
            "evaluations": agg.evaluations,
            "distinct_nontrivial": agg.nontrivial.len(),
            "rule": check.rule,
            "samples": samples,
            "exhaustive": false,
            "runs_per_hour": runs_per_hour.round(),
            "simulated_seconds": agg.sim_ms as f64 / 1000.0,
            "task_polls": agg.polls,
            "deferred_polls": agg.defers,
            "distinct_interleavings": agg.sched.len(),
            "distinct_interleavings_measure": "distinct hashes of the per-run sequence of (task id, polled|deferred) decisions",
            "distinct_plans": agg.plans.len(),
            "distinct_wire_traces": agg.traces.len(),
            "fault_kinds_fired": agg.faults,
            "probes": agg.probes,
            "runs_per_scenario": agg.per_scenario,
            "aborted_runs": agg.aborted,
            "abort_reasons": agg.abort_reasons,
            "remoc_or_harness_panics_observed": agg.panics,
            "panic_samples": agg.panic_samples,
            "known_finding_hits": agg.known_hits,
            "required_probes_missing": missing_probes,
            "components_real": check.real_components,
            "components_stub": check.stub_components,
        },
        "assumptions": check.assumptions,
        "wall_s": wall,
        "violations": reported,
    });
    let evdir = verif_dir().join("evidence");
    let _ = std::fs::create_dir_all(&evdir);
    let evpath = evdir.join(format!("{}.json", check.id));
    std::fs::write(&evpath, serde_json::to_string_pretty(&evidence).unwrap()).expect("write evidence");
    if tier == "thorough" {
        // Kept next to the main evidence file, which the next quick run overwrites.
        let _ = std::fs::write(evdir.join(format!("{}.thorough.json", check.id)), serde_json::to_string_pretty(&evidence).unwrap());
    }

    println!(
        "runs={} nontrivial_distinct={} interleavings={} plans={} aborted={} sim_s={:.1} wall_s={:.1} runs/h={:.0}",
        agg.evaluations,
        agg.nontrivial.len(),
        agg.sched.len(),
        agg.plans.len(),
        agg.aborted,
        agg.sim_ms as f64 / 1000.0,
        wall,
        runs_per_hour
    );
    println!("faults fired: {:?}", evidence["coverage"]["fault_kinds_fired"]);
    println!("probes: {:?}", evidence["coverage"]["probes"]);
    if agg.aborted > 0 {
        println!("abort reasons: {:?}", evidence["coverage"]["abort_reasons"]);
    }
    if agg.panics > 0 {
        println!("panics observed: {} e.g. {:?}", agg.panics, evidence["coverage"]["panic_samples"]);
    }

    if exit == 0 {
        if !harness_errors.is_empty() {
            for e in &harness_errors {
                eprintln!("harness error: {e}");
            }
            return 2;
        }
        if !missing_probes.is_empty() && tier == "thorough" {
            eprintln!("harness error: required probes never fired: {missing_probes:?}");
            return 2;
        }
        if agg.evaluations == 0 {
            eprintln!("harness error: no runs executed");
            return 2;
        }
        if agg.aborted * 20 > agg.evaluations {
            eprintln!("harness error: {} of {} runs hit a budget cap", agg.aborted, agg.evaluations);
            return 2;
        }
    }
    exit
}

/// Determinism self-test: runs `n` seeds of every scenario twice (second time from the recorded
/// choice list, on another thread) and prints a digest line per run for cross-process diffing.
pub fn determinism(checks: &[Check], only: Option<&str>, n: u64) -> i32 {
    let vseed = verif_seed();
    let mut mismatches = 0u64;
    let mut pairs = 0u64;
    let mut digest = 0u64;
    for check in checks {
        if let Some(id) = only
            && check.id != id
        {
            continue;
        }
        for (si, scenario) in check.scenarios.iter().enumerate() {
            let results: Vec<(u64, RunReport, RunReport)> = std::thread::scope(|scope| {
                let mut handles = Vec::new();
                let w = workers() as u64;
                for t in 0..w {
                    handles.push(scope.spawn(move || {
                        let mut out = Vec::new();
                        let mut i = t;
                        while i < n {
                            let seed = run_seed(vseed, check.id, 1_000_000 + si as u64 * 100_000 + i);
                            let r1 = execute(check, scenario, seed, i, None);
                            out.push((i, seed, r1));
                            i += w;
                        }
                        out
                    }));
                }
                let firsts: Vec<(u64, u64, RunReport)> = handles.into_iter().flat_map(|h| h.join().unwrap()).collect();
                // Second execution on a different thread, from the choice list.
                let mut handles = Vec::new();
                let firsts = Arc::new(firsts);
                for t in 0..w {
                    let firsts = firsts.clone();
                    handles.push(scope.spawn(move || {
                        let mut out = Vec::new();
                        for (k, (i, seed, r1)) in firsts.iter().enumerate() {
                            if (k as u64 + 1) % w != t {
                                continue;
                            }
                            let r2 = execute(check, scenario, *seed, *i, Some(r1.choices.clone()));
                            out.push((*i, r1.clone(), r2));
                        }
                        out
                    }));
                }
                handles.into_iter().flat_map(|h| h.join().unwrap()).collect()
            });
            let mut results = results;
            results.sort_by_key(|(i, _, _)| *i);
            for (i, r1, r2) in results {
                pairs += 1;
                let same = r1.choices == r2.choices
                    && r1.sched_hash == r2.sched_hash
                    && r1.trace_hash == r2.trace_hash
                    && r1.seq == r2.seq
                    && r1.polls == r2.polls
                    && r1.violation == r2.violation;
                if !same {
                    mismatches += 1;
                    if mismatches <= 10 {
                        println!(
                            "MISMATCH {} {} run {i}: choices {}/{} sched {:x}/{:x} trace {:x}/{:x} seq {}/{} polls {}/{} viol {:?}/{:?}",
                            check.id,
                            scenario.name,
                            r1.choices.len(),
                            r2.choices.len(),
                            r1.sched_hash,
                            r2.sched_hash,
                            r1.trace_hash,
                            r2.trace_hash,
                            r1.seq,
                            r2.seq,
                            r1.polls,
                            r2.polls,
                            r1.violation.as_ref().map(|v| &v.kind),
                            r2.violation.as_ref().map(|v| &v.kind)
                        );
                    }
                }
                digest = kit::mix(digest, kit::mix(r1.sched_hash, kit::mix(r1.trace_hash, r1.choices.len() as u64)));
            }
            println!("DIGEST {} {} {:016x}", check.id, scenario.name, digest);
        }
    }
    println!("determinism: {pairs} pairs, {mismatches} mismatches, digest {digest:016x}");
    if mismatches > 0 { 1 } else { 0 }
}
