//! C07 — orderly shutdown and reclamation of ports and tasks.
//!
//! Two real chmux endpoints run open / transfer / close cycles. Ports are opened through every
//! path (default connect + accept, connect_ext + inspect with accept / accept_from / reject / drop /
//! hold, port batches sent over an existing port) in both directions; every kind of handle (senders,
//! receivers, pending `Connect`s, unanswered `Request`s, allocated port numbers, client clones) ends
//! up in a bag that is dropped in a drawn permutation with drawn pauses, accept and connect futures
//! are cancelled part-way. After the last cycle clients and listeners join the bag.
//!
//! Oracles: (1) both dispatchers return `Ok(())` at quiescence although the transport stays open;
//! (2) the wire monitor's port-lifetime model (class `ports`): a port number is never reused while
//! one of the four finish flags of its previous life is missing, open + requested ports never exceed
//! max_ports, nothing is sent for a finished port; (3) at every quiescent point the number of port
//! numbers obtainable from each endpoint's allocator equals `max_ports` minus what the wire model
//! says is still open or requested (released once finished *and not before*); (4) the live-task
//! count returns to its value before the cycle, and to the pre-connection value at the end.

use std::time::Duration;

use bytes::Bytes;
use futures::FutureExt;
use remoc::chmux::{self, Client, Connect, Listener, PortAllocator, PortNumber, PortReq, Received, Request};
use serde_json::json;

use crate::{
    harness::{Check, Scenario, ScenarioFuture},
    kit,
    mux::{self, CfgProfile},
    net::{LinkCfg, LinkCtl},
    proto::MonitorMode,
    props::{REAL_CHMUX, STUB_NET},
};

enum Item {
    Tx(chmux::Sender),
    Rx(chmux::Receiver),
    Connect(Connect),
    Request(Request),
    Port(PortNumber),
    Client(Client),
    Listener(Listener),
}

impl Item {
    fn name(&self) -> &'static str {
        match self {
            Item::Tx(_) => "sender",
            Item::Rx(_) => "receiver",
            Item::Connect(_) => "connect",
            Item::Request(_) => "request",
            Item::Port(_) => "port-number",
            Item::Client(_) => "client",
            Item::Listener(_) => "listener",
        }
    }
}

struct Held {
    ep: usize,
    /// Identifies the two ends of one direction of a port pair (for batches): pair id, or 0.
    pair: u32,
    item: Item,
}

struct Side {
    client: Option<Client>,
    listener: Option<Listener>,
    alloc: PortAllocator,
    max_ports: u32,
}

struct World {
    sides: [Side; 2],
    bag: Vec<Held>,
    next_pair: u32,
    ctl: LinkCtl,
    opened: u64,
    log: Vec<String>,
}

const STEP: Duration = Duration::from_millis(400);

impl World {
    fn put(&mut self, ep: usize, pair: u32, item: Item) {
        kit::probe(match &item {
            Item::Tx(_) => "held_sender",
            Item::Rx(_) => "held_receiver",
            Item::Connect(_) => "held_pending_connect",
            Item::Request(_) => "held_unanswered_request",
            Item::Port(_) => "held_port_number",
            Item::Client(_) => "held_client_clone",
            Item::Listener(_) => "held_listener",
        });
        self.bag.push(Held { ep, pair, item });
    }

    fn put_port(&mut self, ep: usize, tx: chmux::Sender, rx: chmux::Receiver) -> u32 {
        self.next_pair += 1;
        let pair = self.next_pair;
        self.put(ep, pair, Item::Tx(tx));
        self.put(ep, pair, Item::Rx(rx));
        self.opened += 1;
        pair
    }

    /// What the listener side does with a request it obtained.
    async fn decide(&mut self, y: usize, req: Request) {
        match kit::draw(8) {
            0 | 1 | 2 => {
                // accept(), possibly cancelled while in flight.
                let k = if kit::coin(1, 4) { kit::draw_range(0, 3) } else { 50 };
                match kit::cancel_after(kit::within(STEP, req.accept()), k).await {
                    Some(Some(Ok((tx, rx)))) => {
                        self.put_port(y, tx, rx);
                    }
                    Some(_) => {}
                    None => kit::fault_fired("cancel_request_accept"),
                }
            }
            3 => match self.sides[y].alloc.try_allocate() {
                Some(p) => {
                    if let Some(Ok((tx, rx))) = kit::within(STEP, req.accept_from(p)).await {
                        self.put_port(y, tx, rx);
                    }
                }
                None => drop(req),
            },
            4 => {
                let _ = kit::within(STEP, req.reject(kit::coin(1, 2))).await;
            }
            5 => drop(req),
            _ => self.put(y, 0, Item::Request(req)),
        }
    }

    /// What the requesting side does with a `Connect`.
    async fn resolve(&mut self, x: usize, mut c: Connect) {
        match kit::draw(6) {
            0 | 1 | 2 => match kit::within(STEP, &mut c).await {
                Some(Ok((tx, rx))) => {
                    self.put_port(x, tx, rx);
                }
                Some(Err(_)) => kit::probe("connect_refused"),
                None => self.put(x, 0, Item::Connect(c)),
            },
            3 => {
                let _ = kit::within(STEP, c.sent()).await;
                kit::probe("connect_dropped_after_sent");
                drop(c);
            }
            4 => {
                kit::probe("connect_dropped_at_once");
                drop(c);
            }
            _ => self.put(x, 0, Item::Connect(c)),
        }
    }

    async fn listener_take(&mut self, y: usize) -> Option<Request> {
        let l = self.sides[y].listener.as_mut()?;
        match kit::within(STEP, l.inspect()).await {
            Some(Ok(Some(req))) => Some(req),
            _ => None,
        }
    }

    /// Opens (or tries to open) one port from endpoint `x`.
    async fn open_one(&mut self, x: usize) {
        let y = 1 - x;
        let Some(client) = self.sides[x].client.clone() else { return };
        match kit::draw(5) {
            0 | 1 => {
                // Default connect() against Listener::accept(), either may be cancelled part-way.
                let kc = if kit::coin(1, 5) { kit::draw_range(0, 4) } else { 60 };
                let ka = if kit::coin(1, 5) { kit::draw_range(0, 4) } else { 60 };
                let mut listener = self.sides[y].listener.take();
                let connect = kit::cancel_after(kit::within(STEP, client.connect()), kc);
                let accept = async {
                    match listener.as_mut() {
                        Some(l) => kit::cancel_after(kit::within(STEP, l.accept()), ka).await,
                        None => Some(None),
                    }
                };
                let (rc, ra) = tokio::join!(connect, accept);
                self.sides[y].listener = listener;
                match rc {
                    Some(Some(Ok((tx, rx)))) => {
                        self.put_port(x, tx, rx);
                    }
                    None => kit::fault_fired("cancel_connect"),
                    _ => {}
                }
                match ra {
                    Some(Some(Ok(Some((tx, rx))))) => {
                        self.put_port(y, tx, rx);
                    }
                    None => kit::fault_fired("cancel_accept"),
                    _ => {}
                }
            }
            _ => {
                let wait = kit::coin(1, 2);
                let port = if kit::coin(1, 2) { self.sides[x].alloc.try_allocate().map(PortReq::new) } else { None };
                let c = match kit::within(STEP, client.connect_ext(port, wait)).await {
                    Some(Ok(c)) => c,
                    _ => return,
                };
                if kit::coin(1, 2) {
                    // Listener first, then the requester looks at its Connect.
                    if let Some(req) = self.listener_take(y).await {
                        self.decide(y, req).await;
                    }
                    self.resolve(x, c).await;
                } else {
                    // The requester acts first (e.g. drops the pending connect), the listener later.
                    match kit::draw(3) {
                        0 => {
                            kit::probe("connect_dropped_before_answer");
                            drop(c);
                        }
                        1 => self.put(x, 0, Item::Connect(c)),
                        _ => {
                            let mut c = c;
                            let _ = kit::within(STEP, c.sent()).await;
                            self.put(x, 0, Item::Connect(c));
                        }
                    }
                    if let Some(req) = self.listener_take(y).await {
                        self.decide(y, req).await;
                    }
                }
            }
        }
    }

    /// Sends a batch of port requests over an open port whose other end is still held.
    async fn batch(&mut self) {
        let cands: Vec<usize> = self
            .bag
            .iter()
            .enumerate()
            .filter(|(_, h)| {
                matches!(h.item, Item::Tx(_))
                    && self.bag.iter().any(|o| matches!(o.item, Item::Rx(_)) && o.ep != h.ep && self.peer_of(h, o))
            })
            .map(|(i, _)| i)
            .collect();
        if cands.is_empty() {
            return;
        }
        let ti = kit::pick(&cands);
        let x = self.bag[ti].ep;
        let y = 1 - x;
        let n = kit::draw_range(1, 3);
        let mut ports = Vec::new();
        for _ in 0..n {
            match self.sides[x].alloc.try_allocate() {
                Some(p) => ports.push(PortReq::new(p)),
                None => break,
            }
        }
        if ports.is_empty() {
            return;
        }
        let wait = kit::coin(1, 2);
        let k = if kit::coin(1, 4) { kit::draw_range(0, 4) } else { 80 };
        let connects = {
            let Item::Tx(tx) = &mut self.bag[ti].item else { return };
            kit::cancel_after(kit::within(STEP, tx.connect(ports, wait)), k).await
        };
        let connects = match connects {
            Some(Some(Ok(c))) => c,
            None => {
                kit::fault_fired("cancel_batch_connect");
                return;
            }
            _ => return,
        };
        kit::probe("batch_sent");
        // Receiving end.
        let ri = (0..self.bag.len()).find(|&i| matches!(self.bag[i].item, Item::Rx(_)) && self.bag[i].ep == y && self.peer_of(&self.bag[ti], &self.bag[i]));
        let mut reqs = Vec::new();
        if let Some(ri) = ri
            && kit::coin(3, 4)
        {
            for _ in 0..4 {
                let Item::Rx(rx) = &mut self.bag[ri].item else { break };
                match kit::within(STEP, rx.recv_any()).await {
                    Some(Ok(Some(Received::Requests(r)))) => {
                        reqs.extend(r);
                        break;
                    }
                    Some(Ok(Some(_))) => continue,
                    _ => break,
                }
            }
        }
        if !reqs.is_empty() {
            kit::probe("batch_received");
        }
        for req in reqs {
            self.decide(y, req).await;
        }
        for c in connects {
            self.resolve(x, c).await;
        }
    }

    /// True if `rx_held` receives what `tx_held` sends. Pair ids are assigned per endpoint, so the
    /// link between the two ends of a port is found through the port numbers.
    fn peer_of(&self, tx_held: &Held, rx_held: &Held) -> bool {
        match (&tx_held.item, &rx_held.item) {
            (Item::Tx(tx), Item::Rx(rx)) => tx.remote_port() == rx.local_port() && tx.local_port() == rx.remote_port(),
            _ => false,
        }
    }

    async fn transfer(&mut self) {
        let n = self.bag.len();
        if n == 0 {
            return;
        }
        let i = kit::draw(n as u32) as usize;
        match &mut self.bag[i].item {
            Item::Tx(tx) => {
                let len = kit::pick(&[0usize, 1, 3, 9, 40, 200]);
                let k = kit::pick(&[1u32, 3, 40]);
                if let Some(Ok(())) = kit::cancel_after(tx.send(Bytes::from(mux::payload(7, i as u32, len))), k).await {
                    kit::probe("message_sent");
                }
            }
            Item::Rx(rx) => {
                let k = kit::pick(&[1u32, 3, 40]);
                if kit::coin(1, 5) {
                    let _ = kit::cancel_after(rx.close(), k).await;
                    kit::probe("receiver_closed");
                } else if let Some(Ok(Some(Received::Requests(reqs)))) = kit::cancel_after(rx.recv_any(), k).await {
                    // Requests that arrive outside a batch op (left over): reject by dropping.
                    drop(reqs);
                }
            }
            _ => {}
        }
    }

    /// Drops every held item for which `keep` is false, in a drawn order with drawn pauses.
    async fn drop_phase(&mut self, keep_some: bool) {
        let mut items: Vec<Held> = std::mem::take(&mut self.bag);
        let mut kept = Vec::new();
        while !items.is_empty() {
            let i = kit::draw(items.len() as u32) as usize;
            let h = items.swap_remove(i);
            if keep_some && kit::coin(1, 3) {
                kept.push(h);
                continue;
            }
            self.log.push(format!("drop {}@{}", h.item.name(), h.ep));
            drop(h);
            match kit::draw(5) {
                0 | 1 => {}
                2 => kit::yield_now().await,
                3 => tokio::time::sleep(Duration::from_micros(kit::pick(&[10u64, 300]))).await,
                _ => tokio::time::sleep(Duration::from_millis(kit::pick(&[2u64, 40]))).await,
            }
        }
        self.bag = kept;
    }

    fn harness_ports(&self, ep: usize) -> usize {
        self.bag.iter().filter(|h| h.ep == ep && matches!(h.item, Item::Port(_))).count()
    }

    /// Allocator capacity must equal max_ports minus what the wire model says is open or requested.
    fn check_capacity(&self, when: &str) -> bool {
        for ep in 0..2 {
            let side = &self.sides[ep];
            let mut got = Vec::new();
            while let Some(p) = side.alloc.try_allocate() {
                got.push(p);
                if got.len() > side.max_ports as usize + 1 {
                    break;
                }
            }
            let free = got.len();
            drop(got);
            let model = self.ctl.monitor(|m| m.held_numbers(ep));
            let held = model + self.harness_ports(ep);
            let expect = (side.max_ports as usize).saturating_sub(held);
            if free < expect {
                kit::class_violation(
                    "c07",
                    "port-number-leaked",
                    "c07:port-number-leaked",
                    format!(
                        "{when}: endpoint {ep} can allocate only {free} port numbers; max_ports {} minus {model} ports open or requested on the wire minus {} held by the caller leaves {expect}; drops so far: {:?}",
                        side.max_ports,
                        self.harness_ports(ep),
                        self.log
                    ),
                );
                return false;
            }
            if free > expect {
                kit::class_violation(
                    "c07",
                    "port-number-released-early",
                    "c07:port-number-released-early",
                    format!(
                        "{when}: endpoint {ep} can allocate {free} port numbers although {model} ports are still open or requested on the wire and {} are held by the caller (max_ports {}): a number was released before both directions of its port finished",
                        self.harness_ports(ep),
                        side.max_ports
                    ),
                );
                return false;
            }
            if held > 0 {
                kit::probe("capacity_checked_with_open_ports");
            } else {
                kit::probe("capacity_checked_all_free");
            }
        }
        true
    }
}

async fn run(max_cycles: u32, keep_across_cycles: bool) {
    kit::draw_sched_policy();
    let mut cfg_a = mux::draw_cfg(CfgProfile::Tiny);
    let mut cfg_b = if kit::coin(1, 3) { cfg_a.clone() } else { mux::draw_cfg(CfgProfile::Tiny) };
    for c in [&mut cfg_a, &mut cfg_b] {
        c.max_ports = kit::pick(&[2u32, 3, 4, 6, 8]);
        c.connect_queue = kit::pick(&[1u16, 2, 4]);
    }
    let maxp = cfg_a.max_ports.max(cfg_b.max_ports);
    // Tiny port-number space: numbers are reused constantly.
    kit::set_port_space(kit::pick(&[maxp, 2 * maxp, 64, 0]));
    let link_cfg = LinkCfg::draw();
    let base0 = kit::live_tasks();
    let (a, b, ctl) = match mux::connect_pair("AB", cfg_a.clone(), cfg_b.clone(), link_cfg, MonitorMode::Full).await {
        Ok(v) => v,
        Err(e) => return kit::abort_run(e),
    };
    let mux::Endpoint { client: client_a, listener: listener_a, run: run_a, .. } = a;
    let mux::Endpoint { client: client_b, listener: listener_b, run: run_b, .. } = b;
    let mut w = World {
        sides: [
            Side { alloc: client_a.port_allocator(), client: Some(client_a), listener: Some(listener_a), max_ports: cfg_a.max_ports },
            Side { alloc: client_b.port_allocator(), client: Some(client_b), listener: Some(listener_b), max_ports: cfg_b.max_ports },
        ],
        bag: Vec::new(),
        next_pair: 0,
        ctl: ctl.clone(),
        opened: 0,
        log: Vec::new(),
    };
    kit::settle().await;
    let conn_base = kit::live_tasks();

    let cycles = if kit::coin(1, 8) { kit::draw_range(1, max_cycles) } else { kit::draw_range(1, max_cycles.min(4)) };
    let keep = keep_across_cycles && kit::coin(1, 2);
    kit::mix_plan(cycles as u64 * 2 + keep as u64);
    kit::set_sample(json!({"cfg_a": format!("{cfg_a:?}"), "cfg_b": format!("{cfg_b:?}"), "link": format!("{link_cfg:?}"),
        "cycles": cycles, "handles_kept_across_cycles": keep}));

    for cycle in 0..cycles {
        if kit::is_aborted() || kit::has_violation() {
            return;
        }
        let nops = kit::draw_range(1, 6);
        for _ in 0..nops {
            match kit::draw(8) {
                0 | 1 | 2 => w.open_one(0).await,
                3 | 4 => w.open_one(1).await,
                5 => w.batch().await,
                6 => {
                    // A client clone or a spare port number joins the bag.
                    let ep = kit::draw(2) as usize;
                    if kit::coin(1, 2) {
                        if let Some(c) = w.sides[ep].client.clone() {
                            w.put(ep, 0, Item::Client(c));
                        }
                    } else if let Some(p) = w.sides[ep].alloc.try_allocate() {
                        w.put(ep, 0, Item::Port(p));
                    }
                }
                _ => w.transfer().await,
            }
        }
        for _ in 0..kit::draw(4) {
            w.transfer().await;
        }
        if kit::coin(1, 3) {
            // Quiescent point with ports open / half-open / requests unanswered.
            kit::settle().await;
            if kit::is_aborted() || !w.check_capacity(&format!("cycle {cycle}, before the drop phase")) {
                return;
            }
        }
        let last = cycle + 1 == cycles;
        if last {
            // Clients and listeners of both sides are dropped among the other handles.
            for ep in 0..2 {
                if let Some(c) = w.sides[ep].client.take() {
                    w.put(ep, 0, Item::Client(c));
                }
                if let Some(l) = w.sides[ep].listener.take() {
                    w.put(ep, 0, Item::Listener(l));
                }
            }
        }
        w.drop_phase(keep && !last).await;
        kit::settle().await;
        if !last && kit::coin(3, 4) {
            // Requests of cancelled connects may still wait in a listener queue: take and drop them.
            loop {
                let mut drained = 0;
                for ep in 0..2 {
                    if let Some(l) = w.sides[ep].listener.as_mut() {
                        while let Some(Ok(Some(req))) = l.inspect().now_or_never() {
                            kit::probe("queued_request_dropped");
                            drop(req);
                            drained += 1;
                        }
                    }
                }
                if drained == 0 || kit::is_aborted() {
                    break;
                }
                kit::settle().await;
            }
        }
        if kit::is_aborted() {
            return;
        }
        // After the last drop phase the dispatchers end; their allocators are gone with them.
        if !last && !w.check_capacity(&format!("after the drop phase of cycle {cycle}")) {
            return;
        }
        let quiet = ctl.monitor(|m| m.held_numbers(0) + m.held_numbers(1));
        if !last && w.bag.is_empty() && quiet == 0 {
            let live = kit::live_tasks();
            if live != conn_base {
                kit::class_violation(
                    "c07",
                    "task-leaked",
                    "c07:task-leaked-after-cycle",
                    format!("after cycle {cycle} with every handle dropped {live} tasks are alive, {conn_base} were before the first cycle; drops: {:?}", w.log),
                );
                return;
            }
            kit::probe("cycle_clean");
        }
    }
    if w.opened >= 2 {
        kit::set_nontrivial();
    }
    kit::probe_n("ports_opened", w.opened);

    // ---- final oracle: both dispatchers ended successfully, nothing left behind ----
    let mut results = Vec::new();
    for (name, mut h) in [("A", run_a), ("B", run_b)] {
        match kit::within(Duration::from_millis(1), &mut h).await {
            Some(Ok(r)) => results.push((name, format!("{r:?}"), r.is_ok())),
            Some(Err(e)) => results.push((name, format!("dispatcher task failed: {e}"), false)),
            None => {
                let model = ctl.monitor(|m| (m.held_numbers(0), m.held_numbers(1), m.goodbye_sent));
                kit::class_violation(
                    "c07",
                    "dispatcher-not-terminated",
                    "c07:dispatcher-not-terminated",
                    format!(
                        "dispatcher {name} still runs at quiescence after all ports, clients and listeners of both endpoints were dropped (wire model: open/requested ports {:?}, goodbye sent {:?}); drops: {:?}",
                        (model.0, model.1),
                        model.2,
                        w.log
                    ),
                );
                h.abort();
                return;
            }
        }
    }
    for (name, res, ok) in &results {
        if !ok {
            kit::class_violation(
                "c07",
                "dispatcher-failed",
                "c07:dispatcher-failed-on-orderly-shutdown",
                format!("dispatcher {name} returned {res} after an orderly shutdown over a healthy transport; drops: {:?}", w.log),
            );
            return;
        }
    }
    kit::probe("both_dispatchers_ok");
    // (An open request that crossed the peer's Goodbye on the wire stays unanswered; its Connect was dropped.)
    let left = ctl.monitor(|m| m.live_ports(0) + m.live_ports(1));
    if left != 0 {
        kit::class_violation(
            "c07",
            "port-left-open",
            "c07:port-left-open-at-termination",
            format!("both dispatchers ended successfully but the wire model still has {left} ports with a missing finish message"),
        );
        return;
    }
    drop(w);
    kit::settle().await;
    let live = kit::live_tasks();
    if live != base0 {
        kit::class_violation(
            "c07",
            "task-leaked",
            "c07:task-leaked-after-termination",
            format!("{live} tasks are alive after both dispatchers ended and every handle was dropped; {base0} were alive before the connection was made"),
        );
    }
    let _ = conn_base;
}

fn sc_cycles() -> ScenarioFuture {
    Box::pin(run(6, false))
}

fn sc_cycles_keep() -> ScenarioFuture {
    Box::pin(run(6, true))
}

fn sc_many() -> ScenarioFuture {
    Box::pin(run(20, true))
}

pub fn checks() -> Vec<Check> {
    vec![Check {
        id: "C07",
        level: "exploration",
        classes: vec!["c07", "ports"],
        scenarios: vec![
            Scenario { name: "cycles-clean", weight: 3, max_polls: 600_000, max_virtual_secs: 48 * 3600, run: sc_cycles },
            Scenario { name: "cycles-handles-kept", weight: 2, max_polls: 600_000, max_virtual_secs: 48 * 3600, run: sc_cycles_keep },
            Scenario { name: "many-cycles", weight: 1, max_polls: 1_500_000, max_virtual_secs: 48 * 3600, run: sc_many },
        ],
        quick: (500_000, 50),
        thorough: (20_000_000, 600),
        rule: "each evaluation is one seeded run: configuration pair (max_ports 2-8, connect_queue 1-4, tiny buffers/queues), link profile, scheduler policy, port-number space \
(max_ports, 2*max_ports, 64 or full u32), 1-20 cycles of 1-6 drawn operations (default connect vs accept with either cancelled part-way, connect_ext wait/no-wait with own or allocated \
port vs inspect + accept/accept_from/reject/drop/hold, pending Connect dropped before/after sent/answer, port batches over an open port, client clones, spare port numbers, \
cancelled sends/receives/closes) followed by dropping all handles in a drawn permutation with drawn pauses; in the last cycle clients and listeners of both sides are dropped among them; \
non-trivial = at least two ports were opened; distinct = distinct (plan hash, poll-order hash)",
        assumptions: vec![
            "the transport stays open and healthy for the whole run; termination is judged at quiescence (no runnable task, no frame in flight for 0.9 s of virtual time)",
            "the wire model counts a port as finished at an endpoint once its two finish messages were sent and the peer's two were delivered to it; the allocator capacity is compared at quiescent points only",
            "live tasks are counted by the task adapter hook (every task remoc spawns goes through exec::spawn)",
        ],
        required_probes: vec![
            "both_dispatchers_ok",
            "capacity_checked_with_open_ports",
            "capacity_checked_all_free",
            "cycle_clean",
            "port_number_reused",
            "held_pending_connect",
            "held_unanswered_request",
            "connect_dropped_before_answer",
            "cancel_request_accept",
            "cancel_accept",
            "cancel_connect",
            "batch_received",
            "max_ports_reached",
        ],
        real_components: REAL_CHMUX,
        stub_components: STUB_NET,
    }]
}
