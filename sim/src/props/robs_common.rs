//! Shared machinery of C13 / C14: an abstraction over the five observable collections
//! (`Coll`), the reference models, subscriber plumbing (local / remote / re-subscribed /
//! hand-consumed), the history oracle and the generic scenario driver.
//!
//! The container-specific parts (operation generators, reference semantics, event replay)
//! live in `robs_colls.rs`.

use std::future::Future as _;
use std::{
    fmt::Debug,
    sync::{Arc, Mutex},
    time::Duration,
};

use remoc::{
    RemoteSend,
    rch::base,
    robs::RecvError,
};
use serde::{Deserialize, Serialize};
use serde_json::json;
use tokio::task::JoinHandle;

use crate::{
    kit,
    mux::{self, CfgProfile, ConnResult},
    net::{Fault, FaultKind, LinkCfg, LinkCtl},
    proto::MonitorMode,
};

/// Canonical contents of a collection: sequence containers in order, hash containers sorted.
/// Elements are packed into `u32` (see `robs_colls.rs`), `Coll::fmt_state` prints them.
pub type State = Vec<u32>;

/// History of reference states, one entry per event the observable must have emitted.
pub type Hist = Arc<Mutex<Vec<State>>>;

#[derive(Clone, Debug)]
pub struct View {
    pub state: State,
    pub complete: bool,
    pub done: bool,
}

#[derive(Clone, Copy, Debug, PartialEq, Eq)]
pub enum EvClass {
    InitialComplete,
    Change,
    Done,
}

#[derive(Clone, Debug, PartialEq, Eq)]
pub enum ErrKind {
    Closed,
    Lagged,
    MaxSize(usize),
    Remote,
    InvalidIndex(usize),
}

pub fn err_kind(e: &RecvError) -> ErrKind {
    match e {
        RecvError::Closed => ErrKind::Closed,
        RecvError::Lagged => ErrKind::Lagged,
        RecvError::MaxSizeExceeded(n) => ErrKind::MaxSize(*n),
        RecvError::InvalidIndex(i) => ErrKind::InvalidIndex(*i),
        RecvError::RemoteReceive(_) | RecvError::RemoteConnect(_) | RecvError::RemoteListen(_) => ErrKind::Remote,
    }
}

/// Options of the operation generators.
#[derive(Clone, Copy, Debug)]
pub struct GenOpts {
    /// Hash map: `retain` closures may mutate retained values (trigger of finding F6).
    pub retain_mutates: bool,
    /// Hash set: elements carry a tag that `Eq`/`Hash` ignore and `replace` may change it.
    pub set_tags: bool,
    /// Vec / VecDeque: grow by push only (avoids the trigger of finding F8).
    pub grow_only_push: bool,
    /// Soft cap on the collection length.
    pub max_len: usize,
}

/// Something that is merely kept alive.
pub trait Held {}
impl<T> Held for T {}

#[allow(async_fn_in_trait)]
pub trait Coll: Sized + 'static {
    const NAME: &'static str;
    /// Snapshot / incremental modes, event buffer sizes and re-subscription from mirrors exist.
    const HAS_MODES: bool;
    type Ref: Clone;
    type Op: Clone + Debug;
    type Sub: RemoteSend;
    type Mirror: Send + 'static;
    type Event: Send + Debug;
    type Plain: Send + Default + 'static;

    fn draw_initial(o: &GenOpts) -> Self::Ref;
    fn draw_op(r: &Self::Ref, o: &GenOpts) -> Self::Op;
    fn op_probe(op: &Self::Op) -> &'static str;
    fn from_ref(r: &Self::Ref) -> Self;
    /// Applies `op` to the observable and to the reference; calls `emit` with the reference
    /// state after every event the observable has to emit, in emission order.
    fn apply(&mut self, r: &mut Self::Ref, op: &Self::Op, emit: &mut dyn FnMut(State));
    fn ref_state(r: &Self::Ref) -> State;
    fn initial_history(r: &Self::Ref) -> Vec<State> {
        vec![Self::ref_state(r)]
    }
    async fn obs_state(&self) -> State;
    fn fmt_state(s: &State) -> String;
    /// `part` can be an intermediate content of an incremental subscription whose snapshot is `snapshot`.
    fn is_partial(part: &State, snapshot: &State) -> bool;
    /// Attributes a content mismatch to a known defect class, if it is explained by it alone.
    fn classify(_r: &Self::Ref, _got: &State, _want: &State) -> Option<&'static str> {
        None
    }
    /// The reference currently differs from what the emitted events describe (known-defect trigger hit).
    fn tainted(_r: &Self::Ref) -> bool {
        false
    }
    fn subscribe(&self, incremental: bool, buffer: usize) -> Self::Sub;
    fn mark_done(&mut self);
    fn mirror(sub: Self::Sub, max_size: usize) -> Self::Mirror;
    async fn borrow(m: &Self::Mirror) -> Result<View, RecvError>;
    async fn borrow_and_update(m: &mut Self::Mirror) -> Result<View, RecvError>;
    async fn detach(m: Self::Mirror) -> State;
    async fn resubscribe(m: &Self::Mirror, incremental: bool, buffer: usize) -> Option<Result<Self::Sub, RecvError>>;
    /// Keeps a view of the mirror (its read lock) until the returned guard is dropped.
    async fn hold(_m: &Self::Mirror) -> Option<Box<dyn Held + '_>> {
        None
    }
    fn take_initial(sub: &mut Self::Sub) -> Option<Self::Plain>;
    fn recv(sub: &mut Self::Sub) -> impl Future<Output = Result<Option<Self::Event>, RecvError>> + Send;
    /// Applies one event to a plain std collection, following the documented meaning of the event.
    fn apply_event(p: &mut Self::Plain, ev: Self::Event) -> Result<EvClass, String>;
    fn plain_state(p: &Self::Plain) -> State;
}

// ------------------------------------------------------------------------------------------
// Subscribers
// ------------------------------------------------------------------------------------------

#[derive(Clone, Copy, Debug, PartialEq, Eq)]
pub enum Kind {
    Mirror,
    Hand,
}

#[derive(Clone, Debug)]
pub struct Spec {
    pub id: usize,
    pub kind: Kind,
    /// 0 = local, otherwise number of connections the subscription travels over.
    pub hops: u8,
    pub incremental: bool,
    pub buffer: usize,
    pub max_size: usize,
    pub parent: Option<usize>,
    pub slow: bool,
}

/// State of a hand-consumed subscription, written by the consumer actor, read by the root.
#[derive(Clone, Debug, Default)]
pub struct Hand {
    pub state: State,
    pub complete: bool,
    pub done: bool,
    pub ended: bool,
    pub initial_events: usize,
    pub events: usize,
    pub error: Option<(ErrKind, String)>,
}

pub struct Slot<C: Coll> {
    pub spec: Spec,
    pub sub_index: usize,
    pub snapshot: State,
    pub exact: bool,
    /// Subscribed after `done()`: the Done event it receives is no new event of the collection.
    pub after_done: bool,
    pub mirror: Option<C::Mirror>,
    pub hand: Option<Arc<Mutex<Hand>>>,
    pub arrived: bool,
    pub lost: bool,
}

pub type Slots<C> = Arc<Mutex<Vec<Slot<C>>>>;

#[derive(Serialize, Deserialize)]
#[serde(bound(serialize = "S: RemoteSend", deserialize = "S: RemoteSend"))]
pub struct Parcel<S> {
    pub id: u32,
    pub ttl: u8,
    pub sub: S,
}

fn report(class: &'static str, name: &str, kind: &str, sig: Option<String>, detail: String) {
    let sig = sig.unwrap_or_else(|| format!("{class}:{name}:{kind}"));
    kit::class_violation(class, kind.to_string(), sig, detail);
}

/// Consumes a subscription event by event and replays it onto a plain collection.
async fn hand_consumer<C: Coll>(mut sub: C::Sub, h: Arc<Mutex<Hand>>, hist: Hist, slot: (Spec, usize, State, bool, bool), class: &'static str) {
    let (spec, sub_index, snapshot, exact, after_done) = slot;
    let name = C::NAME;
    let mut plain = C::Plain::default();
    let mut complete = false;
    let mut k = 0usize;
    if !spec.incremental && C::HAS_MODES {
        match C::take_initial(&mut sub) {
            Some(p) => {
                plain = p;
                complete = true;
                let st = C::plain_state(&plain);
                if exact && st != snapshot {
                    report(class, name, "initial-value-differs", None, format!(
                        "subscriber {}: take_initial returned {} but the collection held {} when it was subscribed",
                        spec.id, C::fmt_state(&st), C::fmt_state(&snapshot)));
                }
                let mut g = h.lock().unwrap();
                g.state = st;
                g.complete = true;
            }
            None => {
                report(class, name, "no-initial-value", None, format!("subscriber {}: take_initial returned None on a fresh snapshot subscription", spec.id));
                return;
            }
        }
    }
    loop {
        if kit::is_aborted() || kit::has_violation() {
            break;
        }
        if spec.slow && kit::coin(1, 2) {
            tokio::time::sleep(Duration::from_micros(kit::pick(&[50u64, 2_000, 30_000, 200_000]))).await;
        }
        let res = C::recv(&mut sub).await;
        kit::activity();
        match res {
            Ok(Some(ev)) => {
                let evs = format!("{ev:?}");
                match C::apply_event(&mut plain, ev) {
                    Ok(cls) => {
                        let st = C::plain_state(&plain);
                        let mut g = h.lock().unwrap();
                        g.state = st.clone();
                        match cls {
                            EvClass::InitialComplete => {
                                complete = true;
                                g.complete = true;
                                if exact && st != snapshot {
                                    drop(g);
                                    report(class, name, "initial-value-differs", None, format!(
                                        "subscriber {}: contents {} at InitialComplete but the collection held {} when it was subscribed",
                                        spec.id, C::fmt_state(&st), C::fmt_state(&snapshot)));
                                }
                            }
                            EvClass::Change | EvClass::Done => {
                                if cls == EvClass::Done {
                                    g.done = true;
                                }
                                if !complete {
                                    g.initial_events += 1;
                                    drop(g);
                                    if exact && !C::is_partial(&st, &snapshot) {
                                        report(class, name, "initial-stream-foreign-element", None, format!(
                                            "subscriber {}: incremental initial contents {} are no part of the snapshot {}",
                                            spec.id, C::fmt_state(&st), C::fmt_state(&snapshot)));
                                    }
                                } else if cls == EvClass::Done && after_done {
                                    drop(g);
                                } else {
                                    k += 1;
                                    g.events = k;
                                    drop(g);
                                    if exact {
                                        let want = hist.lock().unwrap().get(sub_index + k).cloned();
                                        match want {
                                            Some(w) if w == st => (),
                                            Some(w) => report(class, name, "event-stream-diverges", None, format!(
                                                "subscriber {} (buffer {}): after event #{k} ({evs}) the replayed contents are {} but the collection held {} after its event #{k} since subscription",
                                                spec.id, spec.buffer, C::fmt_state(&st), C::fmt_state(&w))),
                                            None => report(class, name, "spurious-event", None, format!(
                                                "subscriber {}: received event #{k} ({evs}) but the collection emitted fewer events since subscription", spec.id)),
                                        }
                                    }
                                }
                            }
                        }
                    }
                    Err(msg) => {
                        report(class, name, "event-does-not-apply", None, format!("subscriber {}: event {evs} does not apply to replayed contents: {msg}", spec.id));
                        break;
                    }
                }
            }
            Ok(None) => {
                h.lock().unwrap().ended = true;
                break;
            }
            Err(e) => {
                match err_kind(&e) {
                    ErrKind::Lagged => kit::probe("raw_lagged"),
                    ErrKind::Closed => kit::probe("raw_closed"),
                    ErrKind::Remote => kit::probe("raw_remote_error"),
                    _ => (),
                }
                h.lock().unwrap().error = Some((err_kind(&e), format!("{e}")));
                break;
            }
        }
    }
    kit::activity();
}

/// Creates the consumer of a subscription that arrived at its destination.
fn install<C: Coll>(slots: &Slots<C>, hist: &Hist, id: usize, sub: C::Sub, class: &'static str) {
    let (spec, sub_index, snapshot, exact, after_done) = {
        let g = slots.lock().unwrap();
        let s = &g[id];
        (s.spec.clone(), s.sub_index, s.snapshot.clone(), s.exact, s.after_done)
    };
    match spec.kind {
        Kind::Mirror => {
            let m = C::mirror(sub, spec.max_size);
            let mut g = slots.lock().unwrap();
            g[id].mirror = Some(m);
            g[id].arrived = true;
        }
        Kind::Hand => {
            let h = Arc::new(Mutex::new(Hand::default()));
            kit::spawn(hand_consumer::<C>(sub, h.clone(), hist.clone(), (spec, sub_index, snapshot, exact, after_done), class));
            let mut g = slots.lock().unwrap();
            g[id].hand = Some(h);
            g[id].arrived = true;
        }
    }
    kit::activity();
}

async fn endpoint_actor<C: Coll>(
    mut rx: base::Receiver<Parcel<C::Sub>>, mut fwd: Option<base::Sender<Parcel<C::Sub>>>, slots: Slots<C>, hist: Hist, class: &'static str,
) {
    loop {
        match rx.recv().await {
            Ok(Some(p)) => {
                kit::activity();
                let id = p.id as usize;
                if p.ttl > 0
                    && let Some(f) = &mut fwd
                {
                    if f.send(Parcel { id: p.id, ttl: p.ttl - 1, sub: p.sub }).await.is_err() {
                        slots.lock().unwrap()[id].lost = true;
                    }
                } else {
                    install::<C>(&slots, &hist, id, p.sub, class);
                }
            }
            Ok(None) => break,
            Err(e) if e.is_final() => break,
            Err(_) => continue,
        }
    }
}

pub struct Remote<C: Coll> {
    pub tx: base::Sender<Parcel<C::Sub>>,
    pub conns: Vec<JoinHandle<ConnResult>>,
    pub ctls: Vec<LinkCtl>,
    pub actors: Vec<JoinHandle<()>>,
    pub hops: u8,
    keep: Vec<Box<dyn std::any::Any>>,
}

fn draw_robs_cfg() -> remoc::chmux::Cfg {
    let mut c = mux::draw_cfg(kit::pick(&[CfgProfile::Default, CfgProfile::Roomy, CfgProfile::Roomy, CfgProfile::Tiny]));
    c.max_ports = c.max_ports.max(256);
    c.max_received_ports = c.max_received_ports.max(8);
    c.connect_queue = c.connect_queue.max(8);
    c.receive_buffer = c.receive_buffer.max(16);
    c.chunk_size = c.chunk_size.max(8);
    c.connection_timeout = None;
    c
}

async fn setup_remote<C: Coll>(hops: u8, slots: &Slots<C>, hist: &Hist, class: &'static str, mode: MonitorMode) -> Result<Remote<C>, String> {
    let ab = mux::connect_rch::<Parcel<C::Sub>, ()>("AB", draw_robs_cfg(), draw_robs_cfg(), LinkCfg::draw(), mode).await?;
    let mux::RchPair { a_tx, a_rx, b_tx, b_rx, conn_a, conn_b, ctl } = ab;
    let mut conns = vec![conn_a, conn_b];
    let mut ctls = vec![ctl];
    let mut actors = Vec::new();
    let mut keep: Vec<Box<dyn std::any::Any>> = vec![Box::new(a_rx), Box::new(b_tx)];
    if hops >= 2 {
        let bc = mux::connect_rch::<Parcel<C::Sub>, ()>("BC", draw_robs_cfg(), draw_robs_cfg(), LinkCfg::draw(), mode).await?;
        let mux::RchPair { a_tx: bc_tx, a_rx: bc_arx, b_tx: bc_btx, b_rx: bc_rx, conn_a, conn_b, ctl } = bc;
        conns.push(conn_a);
        conns.push(conn_b);
        ctls.push(ctl);
        keep.push(Box::new(bc_arx));
        keep.push(Box::new(bc_btx));
        actors.push(kit::spawn(endpoint_actor::<C>(b_rx, Some(bc_tx), slots.clone(), hist.clone(), class)));
        actors.push(kit::spawn(endpoint_actor::<C>(bc_rx, None, slots.clone(), hist.clone(), class)));
    } else {
        actors.push(kit::spawn(endpoint_actor::<C>(b_rx, None, slots.clone(), hist.clone(), class)));
    }
    Ok(Remote { tx: a_tx, conns, ctls, actors, hops, keep })
}

// ------------------------------------------------------------------------------------------
// Driver
// ------------------------------------------------------------------------------------------

#[derive(Clone, Copy, Debug)]
pub struct Opts {
    pub class: &'static str,
    pub genr: GenOpts,
    /// Event buffers of 1..3 events (C14) instead of buffers that can never overflow (C13).
    pub small_buffers: bool,
    /// Mirrors with a small `max_size`.
    pub small_max_size: bool,
    pub remote: bool,
    /// Inject a link fault at a drawn frame.
    pub cut: bool,
    /// The observable may be dropped without `done()`.
    pub drop_before_done: bool,
    /// Re-subscribe from mirrors.
    pub resub: bool,
    /// Event-exact comparison of hand-consumed streams (off for scenarios that trigger known defects).
    pub exact: bool,
    pub max_steps: u32,
    /// Wire bytes depend on std's per-process hash seed: keep them out of the trace hash.
    pub hash_order_on_wire: bool,
    /// Incremental subscriptions may be taken after `done()` (trigger of a known finding).
    pub incremental_after_done: bool,
    /// A subscription re-subscribed from a mirror that is not complete yet may be sent to a remote
    /// endpoint (trigger of a known finding).
    pub resub_incomplete_remote: bool,
}

/// Root-side oracle state of one subscriber.
#[derive(Clone, Debug)]
struct Track {
    last_j: usize,
    errored: Option<ErrKind>,
    complete_seen: bool,
    parent_incomplete: bool,
    parent_gone: bool,
    detached: bool,
}

/// Known finding: a mirror of an incremental subscription taken after done() starts with done = true
/// and its task leaves the event loop after the first element of the initial value.
/// Known finding: a mirror forwards the (unserializable, `#[serde(skip)]`) InitialComplete event to its
/// own subscribers; a remote subscriber of a not-yet-complete mirror is disconnected by it.
/// Known finding: subscribers of a mirror are not told when the mirror loses its upstream.
pub const MIRROR_UPSTREAM_LOST_SIG: &str = "robs.mirror:subscribers-not-told-when-mirror-loses-upstream";
pub const RESUB_INITIAL_COMPLETE_SIG: &str = "robs.mirror.resubscribe:initial-complete-event-breaks-remote-subscriber";

pub const INCR_AFTER_DONE_SIG: &str = "robs.mirror:incremental-subscription-after-done-stops-after-first-element";

const BIG_BUFFER: usize = 4096;
const BIG_SIZE: usize = 100_000;

struct Driver<C: Coll> {
    o: Opts,
    obs: Option<C>,
    r: C::Ref,
    hist: Hist,
    slots: Slots<C>,
    tracks: Vec<Track>,
    held: Vec<(usize, C::Sub, u32)>,
    plan: Vec<String>,
    done_called: bool,
    dropped: bool,
    remote: Option<Remote<C>>,
    fault_armed: bool,
    fault_link: Option<usize>,
    initial: State,
    /// A known-defect trigger was hit: history-based checks between quiescence points are off.
    tainted_ever: bool,
}

impl<C: Coll> Driver<C> {
    fn sample(&self) {
        kit::set_sample(json!({
            "collection": C::NAME,
            "initial": C::fmt_state(&self.initial),
            "steps": self.plan,
            "remote_hops": self.remote.as_ref().map(|r| r.hops).unwrap_or(0),
        }));
    }

    fn viol(&self, kind: &str, sig: Option<String>, detail: String) {
        self.sample();
        report(self.o.class, C::NAME, kind, sig, detail);
    }

    fn hist_len(&self) -> usize {
        self.hist.lock().unwrap().len()
    }

    fn latest(&self) -> State {
        self.hist.lock().unwrap().last().cloned().unwrap()
    }

    /// Some connection on the path of a subscriber `hops` connections away has terminated.
    fn path_failed(&self, hops: u8) -> bool {
        self.remote.as_ref().map(|r| r.conns.iter().take(2 * hops as usize).any(|c| c.is_finished())).unwrap_or(false)
    }

    /// A fault was injected into a link on that path.
    fn path_faulted(&self, hops: u8) -> bool {
        self.fault_link.map(|l| l < hops as usize).unwrap_or(false)
    }

    fn spec(&self, id: usize) -> Spec {
        self.slots.lock().unwrap()[id].spec.clone()
    }

    /// Is this error explained by what happened to the subscriber?
    fn error_legit(&self, id: usize, e: &ErrKind) -> Result<(), String> {
        let (spec, sub_index) = {
            let g = self.slots.lock().unwrap();
            (g[id].spec.clone(), g[id].sub_index)
        };
        let t = &self.tracks[id];
        let hist = self.hist.lock().unwrap();
        let events_after = hist.len() - 1 - sub_index;
        match e {
            ErrKind::Lagged => {
                if C::HAS_MODES && spec.buffer < BIG_BUFFER && events_after > spec.buffer {
                    Ok(())
                } else {
                    Err(format!("Lagged although only {events_after} events were emitted since subscription (event buffer {})", spec.buffer))
                }
            }
            ErrKind::Closed => {
                if (self.dropped && !self.done_called) || t.parent_gone {
                    Ok(())
                } else {
                    Err(format!("Closed although the observed collection is alive or was marked done (dropped={}, done={})", self.dropped, self.done_called))
                }
            }
            ErrKind::MaxSize(n) => {
                if *n == spec.max_size && hist[sub_index..].iter().any(|s| s.len() > spec.max_size) {
                    Ok(())
                } else {
                    Err(format!("MaxSizeExceeded({n}) although max_size is {} and the collection never held more elements since subscription", spec.max_size))
                }
            }
            ErrKind::Remote => {
                if spec.hops > 0 && self.path_faulted(spec.hops) {
                    Ok(())
                } else {
                    Err("remote error without any link fault".to_string())
                }
            }
            ErrKind::InvalidIndex(i) => Err(format!("InvalidIndex({i}): an event of an honest observable did not apply to the mirror")),
        }
    }

    fn known_error_sig(&self, id: usize, k: &ErrKind) -> Option<String> {
        let spec = self.spec(id);
        if spec.parent.is_some() && spec.hops > 0 && self.tracks[id].parent_incomplete && matches!(k, ErrKind::Closed | ErrKind::Remote) {
            Some(RESUB_INITIAL_COMPLETE_SIG.to_string())
        } else {
            None
        }
    }

    /// Safety oracle for one `borrow` / `borrow_and_update` result.
    fn check_view(&mut self, id: usize, res: &Result<View, RecvError>, what: &str) {
        let (spec, sub_index, snapshot) = {
            let g = self.slots.lock().unwrap();
            (g[id].spec.clone(), g[id].sub_index, g[id].snapshot.clone())
        };
        match res {
            Err(e) => {
                let k = err_kind(e);
                match &k {
                    ErrKind::Lagged => kit::probe("mirror_lagged"),
                    ErrKind::Closed => kit::probe("mirror_closed"),
                    ErrKind::MaxSize(_) => kit::probe("mirror_max_size_exceeded"),
                    ErrKind::Remote => kit::probe("mirror_remote_error"),
                    ErrKind::InvalidIndex(_) => kit::probe("mirror_invalid_index"),
                }
                if let Some(prev) = &self.tracks[id].errored
                    && std::mem::discriminant(prev) != std::mem::discriminant(&k)
                {
                    self.viol("error-changed", None, format!("mirror {id} ({what}): error changed from {prev:?} to {k:?}"));
                }
                if let Err(why) = self.error_legit(id, &k) {
                    let sig = self.known_error_sig(id, &k);
                    self.viol("unexplained-error", sig, format!("mirror {id} ({what}, {spec:?}): {e}: {why}"));
                }
                self.tracks[id].errored = Some(k);
            }
            Ok(v) => {
                if let Some(prev) = &self.tracks[id].errored {
                    self.viol("error-not-sticky", None, format!("mirror {id} ({what}): returned Ok({}) after it had reported {prev:?}", C::fmt_state(&v.state)));
                    return;
                }
                if self.tracks[id].complete_seen && !v.complete {
                    self.viol("complete-flag-reset", None, format!("mirror {id} ({what}): is_complete went back to false"));
                }
                if v.complete {
                    self.tracks[id].complete_seen = true;
                }
                if v.done && !self.done_called {
                    self.viol("done-without-done", None, format!("mirror {id} ({what}): is_done although done() was never called"));
                }
                let hist = self.hist.lock().unwrap().clone();
                let lo = self.tracks[id].last_j;
                let partial_allowed = self.tracks[id].parent_incomplete || (spec.incremental && !v.complete);
                // While the initial value is still streaming in, the contents are a part of the snapshot;
                // such a part may coincide with an unrelated later state and must not advance the position.
                if partial_allowed
                    && (C::is_partial(&v.state, &snapshot) || (spec.parent.is_some() && hist[lo..].iter().any(|h| C::is_partial(&v.state, h))))
                {
                    kit::probe("peek_partial_initial");
                    return;
                }
                let found = (lo..hist.len()).find(|j| hist[*j] == v.state);
                match found {
                    Some(j) => {
                        if !partial_allowed {
                            self.tracks[id].last_j = j;
                        }
                        let max = spec.max_size;
                        let grew_above = (spec.incremental && snapshot.len() > max)
                            || (sub_index + 1..=j).any(|k| hist[k].len() > max && hist[k].len() > hist[k - 1].len());
                        if v.state.len() > max && grew_above {
                            self.viol(
                                "max-size-not-enforced",
                                Some(format!("robs.{}.mirror:max-size-exceeded-without-error", C::NAME)),
                                format!(
                                    "mirror {id} ({what}) created with max_size {} returned Ok with {} elements {} (history index {j}, subscribed at {sub_index}): an applied event took it above the limit without MaxSizeExceeded",
                                    spec.max_size, v.state.len(), C::fmt_state(&v.state)),
                            );
                        }
                    }
                    None => {
                        if self.tainted_ever {
                            kit::probe("peek_skipped_after_known_trigger");
                        } else {
                            let back = (0..lo).rev().find(|j| hist[*j] == v.state);
                            let kind = if back.is_some() { "mirror-went-backwards" } else { "mirror-state-not-in-history" };
                            let latest = hist.last().unwrap();
                            let sig = C::classify(&self.r, &v.state, latest).map(|s| s.to_string());
                            self.viol(kind, sig, format!(
                                "mirror {id} ({what}, {spec:?}) returned Ok({}) (complete={}) which equals no state of the collection from history index {lo} on{}; current contents {}",
                                C::fmt_state(&v.state), v.complete,
                                back.map(|j| format!(" (it equals the older state #{j})")).unwrap_or_default(),
                                C::fmt_state(latest)));
                        }
                    }
                }
            }
        }
    }

    async fn peek(&mut self, id: usize, update: bool, what: &str) -> Option<Result<View, RecvError>> {
        let m = self.slots.lock().unwrap()[id].mirror.take();
        let mut m = m?;
        let res = if update { C::borrow_and_update(&mut m).await } else { C::borrow(&m).await };
        self.slots.lock().unwrap()[id].mirror = Some(m);
        self.check_view(id, &res, what);
        Some(res)
    }

    async fn deliver(&mut self, id: usize, sub: C::Sub) {
        let spec = self.spec(id);
        if spec.hops == 0 {
            install::<C>(&self.slots, &self.hist, id, sub, self.o.class);
        } else {
            let remote = self.remote.as_mut().expect("remote subscriber without connection");
            let p = Parcel { id: id as u32, ttl: spec.hops - 1, sub };
            if let Err(e) = remote.tx.send(p).await {
                self.slots.lock().unwrap()[id].lost = true;
                if !self.fault_armed {
                    self.viol("subscription-not-sendable", None, format!("sending subscription {id} over a healthy connection failed: {e}"));
                }
            }
        }
    }

    fn draw_spec(&self, parent: Option<usize>) -> Spec {
        let id = self.tracks.len();
        let kind = if kit::coin(1, 3) { Kind::Hand } else { Kind::Mirror };
        let hops = match &self.remote {
            Some(r) if kit::coin(1, 2) => 1 + kit::draw(r.hops as u32) as u8,
            _ => 0,
        };
        let incremental = if C::HAS_MODES { kit::coin(1, 2) && (self.o.incremental_after_done || !self.done_called) } else { true };
        let buffer = if !C::HAS_MODES {
            usize::MAX
        } else if self.o.small_buffers {
            kit::pick(&[1usize, 2, 3, 3, 8])
        } else {
            BIG_BUFFER
        };
        let max_size = if self.o.small_max_size && kind == Kind::Mirror { kit::pick(&[3usize, 0, 1, 2, 5, 8]) } else { BIG_SIZE };
        let slow = self.o.small_buffers && kit::coin(1, 2) || kit::coin(1, 4);
        Spec { id, kind, hops, incremental, buffer, max_size, parent, slow }
    }

    fn register(&mut self, spec: Spec, sub_index: usize, snapshot: State, track: Track, exact: bool) {
        match (spec.kind, spec.hops, spec.parent.is_some()) {
            (Kind::Mirror, 0, false) => kit::probe("mirror_local"),
            (Kind::Mirror, 1, false) => kit::probe("mirror_remote_1hop"),
            (Kind::Mirror, _, false) => kit::probe("mirror_remote_2hop"),
            (Kind::Mirror, _, true) => kit::probe("mirror_resubscribed"),
            (Kind::Hand, 0, _) => kit::probe("hand_consumer_local"),
            (Kind::Hand, _, _) => kit::probe("hand_consumer_remote"),
        }
        if C::HAS_MODES {
            kit::probe(if spec.incremental { "subscribe_incremental" } else { "subscribe_snapshot" });
        }
        if self.done_called {
            kit::probe("subscribe_after_done");
        }
        self.plan.push(format!("subscribe #{}: {:?} hops={} incremental={} buffer={} max_size={} parent={:?} slow={}",
            spec.id, spec.kind, spec.hops, spec.incremental, spec.buffer, spec.max_size, spec.parent, spec.slow));
        kit::mix_plan(kit::hash_str(self.plan.last().unwrap()));
        let after_done = self.done_called;
        self.slots.lock().unwrap().push(Slot { spec, sub_index, snapshot, exact, after_done, mirror: None, hand: None, arrived: false, lost: false });
        self.tracks.push(track);
    }

    async fn step_subscribe(&mut self) {
        if self.obs.is_none() {
            return;
        }
        let spec = self.draw_spec(None);
        let sub = self.obs.as_ref().unwrap().subscribe(spec.incremental, spec.buffer);
        let sub_index = self.hist_len() - 1;
        let snapshot = self.latest();
        let id = spec.id;
        let hold = if spec.hops == 0 { kit::pick(&[0u32, 0, 1, 3]) } else { 0 };
        let exact = self.o.exact;
        self.register(
            spec,
            sub_index,
            snapshot,
            Track { last_j: if C::HAS_MODES { sub_index } else { 0 }, errored: None, complete_seen: false, parent_incomplete: false, parent_gone: false, detached: false },
            exact,
        );
        if hold > 0 {
            kit::probe("subscription_held_before_use");
            self.held.push((id, sub, hold));
        } else {
            self.deliver(id, sub).await;
        }
    }

    async fn step_resubscribe(&mut self) {
        let cands: Vec<usize> = {
            let g = self.slots.lock().unwrap();
            g.iter().filter(|s| s.mirror.is_some() && self.tracks[s.spec.id].errored.is_none()).map(|s| s.spec.id).collect()
        };
        if cands.is_empty() {
            return;
        }
        let p = cands[kit::draw(cands.len() as u32) as usize];
        let mut spec = self.draw_spec(Some(p));
        spec.buffer = BIG_BUFFER;
        let _ = self.peek(p, false, "borrow before re-subscription").await;
        if self.tracks[p].errored.is_some() || kit::has_violation() {
            return;
        }
        if !self.tracks[p].complete_seen && !self.o.resub_incomplete_remote {
            spec.hops = 0;
        }
        let m = self.slots.lock().unwrap()[p].mirror.take().unwrap();
        let res = if kit::coin(1, 2) {
            // Contended: another reader holds a view of the mirror while the observed collection
            // changes, and the subscription is requested before that view is released (the mirror
            // task then holds an event it has received but cannot apply yet).
            let guard = C::hold(&m).await;
            if guard.is_some() {
                kit::probe("resubscribed_while_mirror_view_held");
            }
            self.step_op();
            for _ in 0..kit::draw_range(1, 4) {
                kit::yield_now().await;
            }
            let pause = kit::pick(&[0u64, 0, 2_000, 80_000]);
            if pause > 0 {
                tokio::time::sleep(Duration::from_micros(pause)).await;
            }
            let mut fut = Box::pin(C::resubscribe(&m, spec.incremental, spec.buffer));
            let first = std::future::poll_fn(|cx| std::task::Poll::Ready(fut.as_mut().poll(cx))).await;
            drop(guard);
            match first {
                std::task::Poll::Ready(r) => r,
                std::task::Poll::Pending => fut.await,
            }
        } else {
            C::resubscribe(&m, spec.incremental, spec.buffer).await
        };
        self.slots.lock().unwrap()[p].mirror = Some(m);
        match res {
            Some(Ok(sub)) => {
                let (psub, psnap) = {
                    let g = self.slots.lock().unwrap();
                    (g[p].sub_index, g[p].snapshot.clone())
                };
                let pt = self.tracks[p].clone();
                let id = spec.id;
                if !pt.complete_seen {
                    kit::probe("resubscribed_from_incomplete_mirror");
                }
                self.register(
                    spec,
                    psub,
                    psnap,
                    Track { last_j: pt.last_j, errored: None, complete_seen: false, parent_incomplete: !pt.complete_seen || pt.parent_incomplete, parent_gone: false, detached: false },
                    false,
                );
                self.deliver(id, sub).await;
            }
            Some(Err(e)) => {
                let k = err_kind(&e);
                if let Err(why) = self.error_legit(p, &k) {
                    self.viol("unexplained-error", None, format!("re-subscribing from mirror {p} failed: {e}: {why}"));
                }
                self.tracks[p].errored = Some(k);
            }
            None => (),
        }
    }

    async fn release_held(&mut self, all: bool) {
        let mut i = 0;
        while i < self.held.len() {
            if all || self.held[i].2 == 0 {
                let (id, sub, _) = self.held.remove(i);
                self.deliver(id, sub).await;
            } else {
                self.held[i].2 -= 1;
                i += 1;
            }
        }
    }

    fn step_op(&mut self) {
        let Some(obs) = &mut self.obs else { return };
        if self.done_called {
            return;
        }
        let op = C::draw_op(&self.r, &self.o.genr);
        kit::probe(C::op_probe(&op));
        let s = format!("{op:?}");
        kit::mix_plan(kit::hash_str(&s));
        self.plan.push(s);
        let hist = self.hist.clone();
        let mut n = 0;
        C::apply(obs, &mut self.r, &op, &mut |st| {
            n += 1;
            hist.lock().unwrap().push(st);
        });
        if C::tainted(&self.r) {
            self.tainted_ever = true;
        }
        match n {
            0 => kit::probe("op_without_event"),
            1 => (),
            _ => kit::probe("op_with_several_events"),
        }
    }

    fn step_done(&mut self) {
        if let Some(obs) = &mut self.obs
            && !self.done_called
        {
            obs.mark_done();
            self.done_called = true;
            let l = self.latest();
            self.hist.lock().unwrap().push(l);
            self.plan.push("done()".into());
            kit::probe("done_called");
        }
    }

    fn step_drop(&mut self) {
        if self.obs.take().is_some() {
            self.dropped = true;
            self.plan.push(format!("drop observable (done={})", self.done_called));
            if !self.done_called {
                kit::probe("dropped_before_done");
            }
        }
    }

    fn arm_fault(&mut self) {
        let Some(r) = &self.remote else { return };
        if self.fault_armed {
            return;
        }
        let link = kit::draw(r.ctls.len() as u32) as usize;
        let ctl = &r.ctls[link];
        if kit::coin(1, 4) {
            ctl.cut_now();
            self.plan.push("cut link now".into());
        } else {
            let dir = kit::draw(2) as usize;
            let at = ctl.sent(dir) + kit::draw(40) as u64;
            let kind = kit::pick(&[FaultKind::SinkError, FaultKind::StreamError, FaultKind::Eof]);
            ctl.add_fault(Fault { dir, at, kind, heal_after_us: None });
            self.plan.push(format!("link fault {kind:?} dir {dir} at frame {at}"));
        }
        kit::fault_fired("link_fault_armed");
        self.plan.push(format!("(fault is on link {link})"));
        self.fault_armed = true;
        self.fault_link = Some(link);
    }

    /// Liveness + equality check at quiescence.
    async fn full_check(&mut self, what: &str) {
        self.release_held(true).await;
        kit::settle().await;
        if kit::is_aborted() || kit::has_violation() {
            return;
        }
        kit::probe("settle_check");
        let latest = self.latest();
        let want_ref = C::ref_state(&self.r);
        if let Some(obs) = &self.obs {
            let os = obs.obs_state().await;
            if os != want_ref {
                self.viol("observable-differs-from-reference", None, format!(
                    "{what}: observable holds {} but the same operations on a std collection give {}", C::fmt_state(&os), C::fmt_state(&want_ref)));
                return;
            }
        }
        let n = self.tracks.len();
        for id in 0..n {
            if kit::has_violation() {
                return;
            }
            let (spec, arrived, lost, sub_index, hand) = {
                let g = self.slots.lock().unwrap();
                (g[id].spec.clone(), g[id].arrived, g[id].lost, g[id].sub_index, g[id].hand.clone())
            };
            if self.tracks[id].detached {
                continue;
            }
            if !arrived {
                if !self.path_faulted(spec.hops) && !lost {
                    self.viol("subscription-not-delivered", None, format!("{what}: subscription {id} ({spec:?}) never arrived at its destination"));
                }
                continue;
            }
            let link_failed = self.path_failed(spec.hops);
            let remote_dead = spec.hops > 0 && link_failed;
            let parent_bad = spec.parent.map(|p| self.tracks[p].errored.is_some() || self.tracks[p].detached).unwrap_or(false);
            // What the subscriber has to present when nothing went wrong for it.
            let expect_closed = self.dropped && !self.done_called;
            match spec.kind {
                Kind::Mirror => {
                    let Some(res) = self.peek(id, false, what).await else { continue };
                    if kit::has_violation() {
                        return;
                    }
                    match res {
                        Ok(v) => {
                            if v.state != want_ref || (!self.tainted_ever && v.state != latest) {
                                if parent_bad {
                                    continue;
                                }
                                let kind = if remote_dead || expect_closed { "stale-mirror-without-error" } else { "mirror-differs-at-quiescence" };
                                let after_done = self.slots.lock().unwrap()[id].after_done;
                                let sig = if C::HAS_MODES && spec.incremental && after_done && !v.complete && v.done {
                                    Some(INCR_AFTER_DONE_SIG.to_string())
                                } else if (remote_dead || expect_closed) && spec.parent.is_some() {
                                    Some(MIRROR_UPSTREAM_LOST_SIG.to_string())
                                } else {
                                    C::classify(&self.r, &v.state, &want_ref).map(|s| s.to_string())
                                };
                                if sig.as_deref() == Some(INCR_AFTER_DONE_SIG) {
                                    // Which element arrived first depends on std's hash seed: keep the text seed-independent.
                                    self.viol(kind, sig, format!(
                                        "{what}: mirror {id} ({spec:?}) of an incremental subscription taken after done() holds {} of {} elements at quiescence, is_complete=false, is_done=true, no error",
                                        v.state.len(), want_ref.len()));
                                    continue;
                                }
                                self.viol(kind, sig, format!(
                                    "{what}: mirror {id} ({spec:?}, subscribed at event {sub_index}) returned Ok({}) at quiescence, the collection holds {} (dropped={}, done={}, link_failed={link_failed})",
                                    C::fmt_state(&v.state), C::fmt_state(&want_ref), self.dropped, self.done_called));
                                continue;
                            }
                            if !v.complete {
                                let after_done = self.slots.lock().unwrap()[id].after_done;
                                let sig = (C::HAS_MODES && spec.incremental && after_done && v.done).then(|| INCR_AFTER_DONE_SIG.to_string());
                                self.viol("never-complete", sig, format!("{what}: mirror {id} ({spec:?}) holds the full contents but is_complete is false at quiescence"));
                            }
                            if v.done != self.done_called && !parent_bad {
                                if expect_closed || remote_dead {
                                    self.viol("stale-mirror-without-error", spec.parent.is_some().then(|| MIRROR_UPSTREAM_LOST_SIG.to_string()), format!(
                                        "{what}: mirror {id} ({spec:?}) returned Ok, is_done={} at quiescence although the collection was dropped before done or the link failed (dropped={}, link_failed={link_failed})",
                                        v.done, self.dropped));
                                } else {
                                    self.viol("done-flag-wrong", None, format!("{what}: mirror {id} ({spec:?}): is_done={} but done() called={}", v.done, self.done_called));
                                }
                            } else if !v.done && (expect_closed || remote_dead) && !parent_bad {
                                self.viol("stale-mirror-without-error", spec.parent.is_some().then(|| MIRROR_UPSTREAM_LOST_SIG.to_string()), format!(
                                    "{what}: mirror {id} ({spec:?}) still returns Ok (not done) at quiescence although the collection was dropped before done or the link failed (dropped={}, link_failed={link_failed})",
                                    self.dropped));
                            }
                        }
                        Err(_) => (), // legitimacy was judged in check_view
                    }
                }
                Kind::Hand => {
                    let Some(h) = hand else { continue };
                    let h = h.lock().unwrap().clone();
                    if let Some((k, text)) = &h.error {
                        if let Err(why) = self.error_legit(id, k) {
                            let sig = self.known_error_sig(id, k);
                            self.viol("unexplained-error", sig, format!("{what}: raw subscription {id} ({spec:?}) failed with {text}: {why}"));
                        }
                        continue;
                    }
                    if parent_bad {
                        continue;
                    }
                    if h.state != want_ref {
                        let kind = if remote_dead || expect_closed { "stale-subscription-without-error" } else { "replayed-events-differ-at-quiescence" };
                        let sig = if (remote_dead || expect_closed) && spec.parent.is_some() {
                            Some(MIRROR_UPSTREAM_LOST_SIG.to_string())
                        } else {
                            C::classify(&self.r, &h.state, &want_ref).map(|s| s.to_string())
                        };
                        self.viol(kind, sig, format!(
                            "{what}: raw subscription {id} ({spec:?}, subscribed at event {sub_index}): events replayed onto the initial value give {} but the collection holds {} ({} events consumed, dropped={}, done={}, link_failed={link_failed})",
                            C::fmt_state(&h.state), C::fmt_state(&want_ref), h.events, self.dropped, self.done_called));
                        continue;
                    }
                    if !h.complete {
                        self.viol("never-complete", None, format!("{what}: raw subscription {id} never reported InitialComplete"));
                    }
                    if h.done != self.done_called || (!h.done && (expect_closed || remote_dead)) {
                        let kind = if expect_closed || remote_dead { "stale-subscription-without-error" } else { "done-flag-wrong" };
                        let sig = ((expect_closed || remote_dead) && spec.parent.is_some()).then(|| MIRROR_UPSTREAM_LOST_SIG.to_string());
                        self.viol(kind, sig, format!(
                            "{what}: raw subscription {id} ({spec:?}): Done received={} but done() called={} (dropped={}, link_failed={link_failed}), no error reported",
                            h.done, self.done_called, self.dropped));
                    }
                    let slot_exact = self.slots.lock().unwrap()[id].exact;
                    if slot_exact && h.events != self.hist_len() - 1 - sub_index {
                        self.viol("event-count-differs", None, format!(
                            "{what}: raw subscription {id}: {} events received after the initial value but the collection emitted {}",
                            h.events, self.hist_len() - 1 - sub_index));
                    }
                }
            }
        }
    }

    async fn detach_all(&mut self) {
        let n = self.tracks.len();
        // Children first: detaching a parent closes the event stream of its children.
        for id in (0..n).rev() {
            let m = self.slots.lock().unwrap()[id].mirror.take();
            let Some(m) = m else { continue };
            let st = C::detach(m).await;
            self.tracks[id].detached = true;
            kit::probe("mirror_detached");
            let (spec, snapshot) = {
                let g = self.slots.lock().unwrap();
                (g[id].spec.clone(), g[id].snapshot.clone())
            };
            let hist = self.hist.lock().unwrap().clone();
            let lo = self.tracks[id].last_j;
            let ok = (lo..hist.len()).any(|j| hist[j] == st)
                || ((spec.incremental || self.tracks[id].parent_incomplete)
                    && !self.tracks[id].complete_seen
                    && (C::is_partial(&st, &snapshot) || hist[lo..].iter().any(|h| C::is_partial(&st, h))));
            if !ok && !self.tainted_ever {
                let sig = C::classify(&self.r, &st, hist.last().unwrap()).map(|s| s.to_string());
                self.viol("detached-state-not-in-history", sig, format!(
                    "mirror {id} ({spec:?}, error {:?}): detach() returned {} which equals no state of the collection from history index {lo} on",
                    self.tracks[id].errored, C::fmt_state(&st)));
            }
            for c in 0..n {
                if self.slots.lock().unwrap()[c].spec.parent == Some(id) {
                    self.tracks[c].parent_gone = true;
                }
            }
        }
    }
}

pub async fn run<C: Coll>(o: Opts) {
    kit::draw_sched_policy();
    kit::set_port_space(if kit::coin(1, 2) { 0 } else { 4096 });
    let r = C::draw_initial(&o.genr);
    let init_hist = C::initial_history(&r);
    let initial = init_hist.last().cloned().unwrap();
    let hist: Hist = Arc::new(Mutex::new(init_hist));
    let slots: Slots<C> = Arc::new(Mutex::new(Vec::new()));
    let hops = if o.remote { kit::pick(&[1u8, 0, 1, 2]) } else { 0 };
    let hops = if o.cut && hops == 0 { 1 } else { hops };
    let remote = if hops > 0 {
        let mode = if o.hash_order_on_wire { MonitorMode::Off } else { MonitorMode::Full };
        match setup_remote::<C>(hops, &slots, &hist, o.class, mode).await {
            Ok(r) => Some(r),
            Err(e) => {
                kit::abort_run(format!("setup failed: {e}"));
                return;
            }
        }
    } else {
        None
    };
    let obs = C::from_ref(&r);
    let mut d = Driver::<C> {
        o,
        obs: Some(obs),
        r,
        hist,
        slots,
        tracks: Vec::new(),
        held: Vec::new(),
        plan: Vec::new(),
        done_called: false,
        dropped: false,
        remote,
        fault_armed: false,
        fault_link: None,
        initial,
        tainted_ever: false,
    };

    let steps = kit::draw_range(3, o.max_steps);
    let max_subs = 5;
    let bursty = o.small_buffers && kit::coin(2, 3);
    for _ in 0..steps {
        if kit::is_aborted() || kit::has_violation() {
            break;
        }
        d.release_held(false).await;
        match kit::draw(20) {
            0..=9 => {
                d.step_op();
                // Pace of the mutator relative to the subscribers.
                let pace = if bursty { kit::pick(&[0u8, 0, 0, 0, 1, 2]) } else { kit::pick(&[0u8, 1, 1, 2]) };
                match pace {
                    0 => (),
                    1 => kit::yield_now().await,
                    _ => tokio::time::sleep(Duration::from_micros(kit::pick(&[10u64, 1_000, 50_000]))).await,
                }
            }
            10..=12 => {
                if d.tracks.len() < max_subs {
                    d.step_subscribe().await;
                } else {
                    d.step_op();
                }
            }
            13 => {
                if o.resub && C::HAS_MODES && d.tracks.len() < max_subs {
                    d.step_resubscribe().await;
                } else {
                    d.step_op();
                }
            }
            14..=16 => {
                let ids: Vec<usize> = d.slots.lock().unwrap().iter().filter(|s| s.mirror.is_some()).map(|s| s.spec.id).collect();
                if !ids.is_empty() {
                    let id = ids[kit::draw(ids.len() as u32) as usize];
                    let upd = kit::coin(1, 2);
                    if let Some(res) = d.peek(id, upd, if upd { "borrow_and_update" } else { "borrow" }).await {
                        kit::probe(if res.is_ok() { "peek_ok" } else { "peek_err" });
                    }
                } else {
                    d.step_op();
                }
            }
            17 => {
                if kit::coin(1, 2) {
                    d.full_check("intermediate settle").await;
                } else {
                    tokio::time::sleep(Duration::from_micros(kit::pick(&[100u64, 5_000, 300_000]))).await;
                }
            }
            18 => {
                if o.cut && !d.tracks.is_empty() && kit::coin(1, 2) {
                    d.arm_fault();
                } else {
                    d.step_op();
                }
            }
            _ => {
                if kit::coin(1, 6) {
                    d.step_done();
                } else {
                    kit::yield_now().await;
                }
            }
        }
    }
    if !kit::is_aborted() && !kit::has_violation() {
        if d.tracks.is_empty() {
            d.step_subscribe().await;
        }
        if o.cut && !d.fault_armed {
            d.arm_fault();
        }
        // Ending: done, dropped without done, or kept alive.
        match kit::draw(if o.drop_before_done { 4 } else { 2 }) {
            0 => d.step_done(),
            1 => (),
            2 => d.step_drop(),
            _ => {
                d.step_done();
                d.step_drop();
            }
        }
        d.full_check("final settle").await;
    }
    if !kit::is_aborted() && !kit::has_violation() && !d.dropped && !d.done_called && !d.fault_armed {
        // Completion is reported exactly when the collection is marked done.
        d.step_done();
        d.full_check("after done").await;
    }
    if !kit::is_aborted() && !kit::has_violation() {
        d.detach_all().await;
    }
    if d.tracks.len() >= 1 && d.hist_len() >= 3 {
        kit::set_nontrivial();
    }
    d.sample();
    // Tear down.
    d.obs = None;
    d.held.clear();
    d.slots.lock().unwrap().clear();
    if let Some(r) = d.remote.take() {
        for a in &r.actors {
            a.abort();
        }
        for c in &r.conns {
            c.abort();
        }
        drop(r.keep);
    }
}
