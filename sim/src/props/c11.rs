//! C11 — close and drop reach the other half, correctly classified, losing no sent data.
//!
//! Position enumeration: (channel type × event × position in a stream of N messages × inside/outside
//! a chunked message) is decoded from the run index; schedules, sizes and latencies are seeded.

use std::{
    sync::{Arc, Mutex},
    time::Duration,
};

use bytes::Bytes;
use remoc::{
    chmux::{self, Received, RecvChunkError, SendError},
    rch::{self, ClosedReason, base, mpsc},
};
use serde::{Deserialize, Serialize};
use serde_json::json;

use crate::{
    harness::{Check, Scenario, ScenarioFuture},
    kit,
    mux::{self, CfgProfile},
    net::LinkCfg,
    proto::MonitorMode,
    props::STUB_NET,
};

const N: usize = 6;

#[derive(Clone, Copy, Debug, PartialEq, Eq)]
enum Chan {
    Port,
    Base,
    Mpsc,
}

#[derive(Clone, Copy, Debug, PartialEq, Eq)]
enum Event {
    SenderDrop,
    ReceiverClose,
    ReceiverDrop,
}

#[derive(Clone, Copy, Debug)]
struct Case {
    chan: Chan,
    event: Event,
    pos: usize,
    mid: bool,
    schedule: u64,
}

const SPACE: u64 = 3 * 3 * (N as u64 + 1) * 2;

fn decode(index: u64) -> Case {
    let schedule = index / SPACE;
    let mut p = index % SPACE;
    let mid = p % 2 == 1;
    p /= 2;
    let pos = (p % (N as u64 + 1)) as usize;
    p /= N as u64 + 1;
    let event = [Event::SenderDrop, Event::ReceiverClose, Event::ReceiverDrop][(p % 3) as usize];
    p /= 3;
    let chan = [Chan::Port, Chan::Base, Chan::Mpsc][(p % 3) as usize];
    Case { chan, event, pos, mid, schedule }
}

fn viol(case: &Case, kind: &'static str, detail: String) {
    kit::class_violation(
        "c11",
        kind,
        format!("c11:{kind}:{:?}:{:?}", case.chan, case.event),
        format!("{:?}/{:?} at position {} (mid-message: {}): {detail}", case.chan, case.event, case.pos, case.mid),
    );
}

#[derive(Default)]
struct Shared {
    sent_ok: Vec<Vec<u8>>,
    received: Vec<Vec<u8>>,
    sender_error: Option<String>,
    sender_done: bool,
    receiver_end: Option<String>,
    closed_future_resolved: bool,
}

// ---------------------------------------------------------------------------------------------
// Raw chmux port
// ---------------------------------------------------------------------------------------------

async fn run_port(case: Case) {
    let cfg_a = mux::draw_cfg(CfgProfile::Tiny);
    let cfg_b = mux::draw_cfg(CfgProfile::Tiny);
    let link_cfg = LinkCfg::draw();
    let (a, mut b, _ctl) = match mux::connect_pair("AB", cfg_a.clone(), cfg_b.clone(), link_cfg, MonitorMode::Full).await {
        Ok(v) => v,
        Err(e) => return kit::abort_run(e),
    };
    let ((mut tx, _rx_a), (_tx_b, mut rx)) = match mux::open_port(&a.client, &mut b.listener).await {
        Ok(v) => v,
        Err(e) => return kit::abort_run(e),
    };
    let mds = cfg_b.max_data_size;
    let cs = cfg_b.chunk_size as usize;
    let sizes: Vec<usize> = (0..N)
        .map(|_| kit::pick(&[0usize, 1, cs, cs + 1, 3 * cs + 1, mds, mds + 1, 2 * mds + 3, 5]).min(700))
        .collect();
    kit::mix_plan(kit::hash_str(&format!("{case:?}{sizes:?}")));
    kit::set_sample(json!({"case": format!("{case:?}"), "sizes": sizes, "cfg_a": format!("{cfg_a:?}"), "cfg_b": format!("{cfg_b:?}"), "link": format!("{link_cfg:?}")}));
    let sh = Arc::new(Mutex::new(Shared::default()));

    // Sender.
    let shs = sh.clone();
    let sizes_s = sizes.clone();
    let sender = kit::spawn(async move {
        {
            let closed = tx.closed();
            let shc = shs.clone();
            kit::spawn(async move {
                closed.await;
                shc.lock().unwrap().closed_future_resolved = true;
                kit::activity();
            });
        }
        let limit = if case.event == Event::SenderDrop { case.pos } else { N };
        for (i, len) in sizes_s.iter().enumerate().take(limit) {
            let data = mux::payload(1, i as u32, *len);
            match tx.send(Bytes::from(data.clone())).await {
                Ok(()) => shs.lock().unwrap().sent_ok.push(data),
                Err(e) => {
                    shs.lock().unwrap().sender_error = Some(match e {
                        SendError::ChMux => "chmux".into(),
                        SendError::Closed { gracefully } => format!("closed gracefully={gracefully}"),
                    });
                    break;
                }
            }
            if kit::coin(1, 4) {
                tokio::time::sleep(Duration::from_micros(kit::pick(&[50u64, 3000, 60_000]))).await;
            }
        }
        if case.event == Event::SenderDrop && case.mid && shs.lock().unwrap().sender_error.is_none() {
            // Leave a message unfinished: part of a chunk stream, then drop.
            let sc = tx.send_chunks();
            let part = mux::payload(1, 99, mds + 7);
            let _ = sc.send(Bytes::from(part)).await;
            kit::probe("sender_dropped_mid_message");
        }
        shs.lock().unwrap().sender_done = true;
        kit::activity();
        tx
    });

    // Receiver.
    let shr = sh.clone();
    let receiver = kit::spawn(async move {
        let mut count = 0usize;
        let mut closed = false;
        loop {
            if case.event == Event::ReceiverDrop && count >= case.pos {
                if case.mid {
                    // Drop while a (possibly chunked) message is arriving: poll a receive once, then drop.
                    let _ = kit::cancel_after(rx.recv_any(), 1).await;
                }
                drop(rx);
                shr.lock().unwrap().receiver_end = Some("dropped".into());
                kit::activity();
                return;
            }
            if case.event == Event::ReceiverClose && count >= case.pos && !closed {
                // Sometimes a first attempt to close is abandoned part-way (a timeout, a select!): the
                // close must still take effect when it is requested again.
                if kit::coin(1, 3) && kit::cancel_after(rx.close(), kit::draw_range(1, 2)).await.is_none() {
                    kit::fault_fired("close_cancelled");
                }
                rx.close().await;
                closed = true;
                kit::probe("receiver_closed");
            }
            match rx.recv_any().await {
                Ok(Some(Received::Data(d))) => {
                    shr.lock().unwrap().received.push(Vec::from(d));
                    count += 1;
                    kit::activity();
                }
                Ok(Some(Received::Chunks)) => {
                    if case.event == Event::ReceiverClose && case.mid && !closed && count + 1 >= case.pos {
                        // Close in the middle of a chunked message.
                        rx.close().await;
                        closed = true;
                        kit::probe("receiver_closed_mid_message");
                    }
                    let mut whole = Vec::new();
                    loop {
                        match rx.recv_chunk().await {
                            Ok(Some(c)) => whole.extend_from_slice(&c),
                            Ok(None) => {
                                shr.lock().unwrap().received.push(whole);
                                count += 1;
                                kit::activity();
                                break;
                            }
                            Err(RecvChunkError::Cancelled) => break,
                            Err(RecvChunkError::ChMux) => {
                                shr.lock().unwrap().receiver_end = Some("chmux".into());
                                return;
                            }
                        }
                    }
                }
                Ok(Some(Received::Requests(_))) => {}
                Ok(None) => {
                    shr.lock().unwrap().receiver_end = Some("end".into());
                    kit::activity();
                    return;
                }
                Err(e) => {
                    shr.lock().unwrap().receiver_end = Some(format!("error {e}"));
                    return;
                }
            }
        }
    });

    kit::settle().await;
    if kit::is_aborted() {
        return;
    }
    if !sh.lock().unwrap().sender_done {
        viol(&case, "send-hangs", "sender still pending at quiescence".into());
        return;
    }
    let mut tx = match sender.await {
        Ok(tx) => tx,
        Err(_) => return kit::abort_run("sender actor failed"),
    };
    // The condition must be observable at the sender by now.
    match case.event {
        Event::SenderDrop => {}
        Event::ReceiverClose | Event::ReceiverDrop => {
            let want_graceful = case.event == Event::ReceiverClose;
            if sh.lock().unwrap().sender_error.is_none() {
                // All sends completed before the sender learned of it: a further send must now fail.
                if want_graceful && !tx.is_closed() {
                    viol(&case, "close-not-observable", "is_closed() is false at quiescence after the receiver closed".into());
                    return;
                }
                match tx.send(Bytes::from_static(b"late")).await {
                    Ok(()) => {
                        viol(&case, "send-succeeds-after-close", "send after the receiver closed/dropped returned Ok at quiescence".into());
                        return;
                    }
                    Err(SendError::Closed { gracefully }) if gracefully == want_graceful => {}
                    Err(e) => {
                        viol(&case, "misclassified", format!("late send failed with `{e}`, expected Closed {{ gracefully: {want_graceful} }}"));
                        return;
                    }
                }
            } else {
                let err = sh.lock().unwrap().sender_error.clone().unwrap();
                if err != format!("closed gracefully={want_graceful}") {
                    viol(&case, "misclassified", format!("send failed with `{err}`, expected closed gracefully={want_graceful}"));
                    return;
                }
            }
            if !sh.lock().unwrap().closed_future_resolved {
                viol(&case, "close-not-observable", "Sender::closed() future did not resolve".into());
                return;
            }
        }
    }
    drop(tx);
    kit::settle().await;
    let s = sh.lock().unwrap();
    match case.event {
        Event::SenderDrop | Event::ReceiverClose => {
            if s.received != s.sent_ok {
                let kind = if s.received.len() < s.sent_ok.len() { "sent-message-lost" } else { "unsent-message-delivered" };
                viol(
                    &case,
                    kind,
                    format!("completed sends {:?} but received {:?}", s.sent_ok.iter().map(|m| m.len()).collect::<Vec<_>>(), s.received.iter().map(|m| m.len()).collect::<Vec<_>>()),
                );
                return;
            }
            if s.receiver_end.as_deref() != Some("end") {
                viol(&case, "no-end-of-stream", format!("receiver state after all senders dropped: {:?}", s.receiver_end));
                return;
            }
        }
        Event::ReceiverDrop => {
            if !s.sent_ok.starts_with(&s.received) && !(s.received.len() <= N && s.received.iter().enumerate().all(|(i, m)| *m == mux::payload(1, i as u32, sizes[i]))) {
                viol(&case, "received-not-prefix", "received messages are not a prefix of the sent ones".into());
                return;
            }
        }
    }
    if s.sent_ok.len() >= 1 || case.pos == 0 {
        kit::set_nontrivial();
    }
    drop(s);
    receiver.abort();
    drop(a);
    drop(b);
}

// ---------------------------------------------------------------------------------------------
// Base channel and mpsc channel (typed)
// ---------------------------------------------------------------------------------------------

#[derive(Serialize, Deserialize, Clone, Debug, PartialEq)]
enum Val {
    Small(u32),
    Blob(u32, Vec<u8>),
}

#[derive(Serialize, Deserialize, Debug)]
enum Ctl {
    MpscRx(mpsc::Receiver<Val>),
}

fn draw_vals(mds: usize) -> Vec<Val> {
    (0..N as u32)
        .map(|i| {
            if kit::coin(1, 2) {
                Val::Small(i)
            } else {
                Val::Blob(i, mux::payload(3, i, kit::pick(&[1usize, mds.saturating_sub(10), mds + 1, 2 * mds + 9]).min(600)))
            }
        })
        .collect()
}

#[derive(Default)]
struct TShared {
    sent_ok: Vec<Val>,
    received: Vec<Val>,
    sender_error: Option<String>,
    sender_done: bool,
    receiver_end: Option<String>,
}

async fn run_base(case: Case) {
    let mut cfg_a = mux::draw_cfg(CfgProfile::Tiny);
    let mut cfg_b = mux::draw_cfg(CfgProfile::Tiny);
    for c in [&mut cfg_a, &mut cfg_b] {
        c.max_data_size = kit::pick(&[16usize, 33, 64]);
        c.max_ports = c.max_ports.max(4);
    }
    let link_cfg = LinkCfg::draw();
    let pair = match mux::connect_rch::<Val, ()>("AB", cfg_a.clone(), cfg_b.clone(), link_cfg, MonitorMode::Full).await {
        Ok(p) => p,
        Err(e) => return kit::abort_run(e),
    };
    let mux::RchPair { a_tx: mut tx, a_rx: _a_rx, b_tx: _b_tx, b_rx: mut rx, conn_a, conn_b, .. } = pair;
    let vals = draw_vals(cfg_a.max_data_size);
    kit::mix_plan(kit::hash_str(&format!("{case:?}{vals:?}")));
    kit::set_sample(json!({"case": format!("{case:?}"), "values": vals.iter().map(|v| match v { Val::Small(i) => format!("Small({i})"), Val::Blob(i, b) => format!("Blob({i},{}B)", b.len()) }).collect::<Vec<_>>(),
        "cfg_a": format!("{cfg_a:?}"), "cfg_b": format!("{cfg_b:?}"), "link": format!("{link_cfg:?}")}));
    let sh = Arc::new(Mutex::new(TShared::default()));

    let shs = sh.clone();
    let vals_s = vals.clone();
    let sender = kit::spawn(async move {
        let limit = if case.event == Event::SenderDrop { case.pos } else { N };
        for v in vals_s.into_iter().take(limit) {
            match tx.send(v.clone()).await {
                Ok(()) => shs.lock().unwrap().sent_ok.push(v),
                Err(e) => {
                    let class = if e.is_closed() {
                        "closed gracefully=true"
                    } else if matches!(e.kind, base::SendErrorKind::Send(SendError::Closed { gracefully: false })) {
                        "closed gracefully=false"
                    } else {
                        "other"
                    };
                    shs.lock().unwrap().sender_error = Some(format!("{class} ({:?})", e.kind));
                    break;
                }
            }
        }
        if case.event == Event::SenderDrop && case.mid && shs.lock().unwrap().sender_error.is_none() {
            // Cancel a streamed send part-way, then drop the sender.
            let big = Val::Blob(99, mux::payload(3, 99, 500));
            match kit::cancel_after(tx.send(big.clone()), kit::draw_range(2, 8)).await {
                // The send may complete before the cancellation point is reached.
                Some(Ok(())) => shs.lock().unwrap().sent_ok.push(big),
                _ => kit::probe("sender_dropped_mid_message"),
            }
        }
        shs.lock().unwrap().sender_done = true;
        kit::activity();
        tx
    });
    let shr = sh.clone();
    let receiver = kit::spawn(async move {
        let mut count = 0;
        let mut closed = false;
        loop {
            if case.event == Event::ReceiverDrop && count >= case.pos {
                if case.mid {
                    let _ = kit::cancel_after(rx.recv(), kit::draw_range(1, 4)).await;
                }
                drop(rx);
                shr.lock().unwrap().receiver_end = Some("dropped".into());
                kit::activity();
                return;
            }
            if case.event == Event::ReceiverClose && count >= case.pos && !closed {
                if kit::coin(1, 3) && kit::cancel_after(rx.close(), kit::draw_range(1, 2)).await.is_none() {
                    kit::fault_fired("close_cancelled");
                }
                rx.close().await;
                closed = true;
                kit::probe("receiver_closed");
            }
            match rx.recv().await {
                Ok(Some(v)) => {
                    shr.lock().unwrap().received.push(v);
                    count += 1;
                    kit::activity();
                }
                Ok(None) => {
                    shr.lock().unwrap().receiver_end = Some("end".into());
                    kit::activity();
                    return;
                }
                Err(e) if e.is_final() => {
                    shr.lock().unwrap().receiver_end = Some(format!("error {e}"));
                    return;
                }
                Err(_) => {
                    if kit::spinning() {
                        return;
                    }
                }
            }
        }
    });

    kit::settle().await;
    if kit::is_aborted() {
        return;
    }
    if !sh.lock().unwrap().sender_done {
        viol(&case, "send-hangs", "sender still pending at quiescence".into());
        return;
    }
    let mut tx = match sender.await {
        Ok(tx) => tx,
        Err(_) => return kit::abort_run("sender actor failed"),
    };
    if case.event != Event::SenderDrop {
        let want = format!("closed gracefully={}", case.event == Event::ReceiverClose);
        let err = sh.lock().unwrap().sender_error.clone();
        match err {
            Some(e) if e.starts_with(&want) => {}
            Some(e) => {
                viol(&case, "misclassified", format!("send failed with `{e}`, expected {want}"));
                return;
            }
            None => match tx.send(Val::Small(1000)).await {
                Ok(()) => {
                    viol(&case, "send-succeeds-after-close", "send after the receiver closed/dropped returned Ok at quiescence".into());
                    return;
                }
                Err(e) => {
                    let graceful = e.is_closed();
                    let closed_kind = matches!(e.kind, base::SendErrorKind::Send(SendError::Closed { .. }));
                    if !closed_kind || graceful != (case.event == Event::ReceiverClose) {
                        viol(&case, "misclassified", format!("late send failed with {:?}, expected {want}", e.kind));
                        return;
                    }
                }
            },
        }
    }
    drop(tx);
    kit::settle().await;
    let s = sh.lock().unwrap();
    match case.event {
        Event::SenderDrop | Event::ReceiverClose => {
            if s.received != s.sent_ok {
                let kind = if s.received.len() < s.sent_ok.len() { "sent-message-lost" } else { "unsent-message-delivered" };
                viol(&case, kind, format!("{} sends completed, {} items received", s.sent_ok.len(), s.received.len()));
                return;
            }
            if s.receiver_end.as_deref() != Some("end") {
                viol(&case, "no-end-of-stream", format!("receiver state after the sender was dropped: {:?}", s.receiver_end));
                return;
            }
        }
        Event::ReceiverDrop => {
            if !vals.starts_with(&s.received) {
                viol(&case, "received-not-prefix", "received items are not a prefix of the sent ones".into());
                return;
            }
        }
    }
    kit::set_nontrivial();
    drop(s);
    receiver.abort();
    conn_a.abort();
    conn_b.abort();
}

async fn run_mpsc(case: Case) {
    let mut cfg_a = mux::draw_cfg(CfgProfile::Tiny);
    let mut cfg_b = mux::draw_cfg(CfgProfile::Tiny);
    for c in [&mut cfg_a, &mut cfg_b] {
        c.max_data_size = kit::pick(&[16usize, 33, 64]);
        c.max_ports = c.max_ports.max(4);
    }
    let link_cfg = LinkCfg::draw();
    let pair = match mux::connect_rch::<Ctl, ()>("AB", cfg_a.clone(), cfg_b.clone(), link_cfg, MonitorMode::Full).await {
        Ok(p) => p,
        Err(e) => return kit::abort_run(e),
    };
    let mux::RchPair { a_tx: mut ctl_tx, a_rx: _a_rx, b_tx: _b_tx, b_rx: mut ctl_rx, conn_a, conn_b, .. } = pair;
    let local_buffer = kit::pick(&[1usize, 2, 8]);
    let (tx, rx) = mpsc::channel::<Val, remoc::codec::Default>(local_buffer);
    let nsenders = kit::draw_range(1, 3) as usize;
    let vals = draw_vals(cfg_a.max_data_size);
    kit::mix_plan(kit::hash_str(&format!("{case:?}{vals:?}{nsenders}{local_buffer}")));
    kit::set_sample(json!({"case": format!("{case:?}"), "senders": nsenders, "local_buffer": local_buffer,
        "values": vals.iter().map(|v| match v { Val::Small(i) => format!("Small({i})"), Val::Blob(i, b) => format!("Blob({i},{}B)", b.len()) }).collect::<Vec<_>>(),
        "cfg_a": format!("{cfg_a:?}"), "cfg_b": format!("{cfg_b:?}"), "link": format!("{link_cfg:?}")}));
    // Send and receive concurrently: the message may not fit into the receive buffer.
    let (sres, rres) = tokio::join!(ctl_tx.send(Ctl::MpscRx(rx)), ctl_rx.recv());
    if sres.is_err() {
        return kit::abort_run("cannot send mpsc receiver");
    }
    let mut rx = match rres {
        Ok(Some(Ctl::MpscRx(rx))) => rx,
        other => return kit::abort_run(format!("receiving mpsc receiver failed: {other:?}")),
    };

    // Senders: value i is sent by sender i % nsenders; each keeps its Sending handles.
    struct Acc {
        v: Val,
        sending: rch::Sending<Val>,
        /// Cached outcome (`try_result` hands a result out only once).
        res: Option<bool>,
        /// Still queued (unresolved) when the sending side learned of the close.
        queued_at_learn: bool,
    }
    struct SenderLog {
        accepted: Vec<Acc>,
        error: Option<(bool, Option<ClosedReason>, String)>,
        done: bool,
    }
    fn poll_all(log: &mut SenderLog) {
        for a in log.accepted.iter_mut() {
            if a.res.is_none() {
                a.res = a.sending.try_result().map(|r| r.is_ok());
            }
        }
    }
    let logs: Vec<Arc<Mutex<SenderLog>>> =
        (0..nsenders).map(|_| Arc::new(Mutex::new(SenderLog { accepted: Vec::new(), error: None, done: false }))).collect();
    let limit = if case.event == Event::SenderDrop { case.pos } else { N };
    let mut handles = Vec::new();
    for s in 0..nsenders {
        let tx = tx.clone();
        let log = logs[s].clone();
        let mine: Vec<Val> = vals.iter().take(limit).enumerate().filter(|(i, _)| i % nsenders == s).map(|(_, v)| v.clone()).collect();
        handles.push(kit::spawn(async move {
            for v in mine {
                match tx.send(v.clone()).await {
                    Ok(sending) => log.lock().unwrap().accepted.push(Acc { v, sending, res: None, queued_at_learn: false }),
                    Err(e) => {
                        log.lock().unwrap().error = Some((e.is_closed(), e.closed_reason(), format!("{e}")));
                        break;
                    }
                }
                if kit::coin(1, 3) {
                    tokio::time::sleep(Duration::from_micros(kit::pick(&[50u64, 3000, 60_000]))).await;
                }
            }
            log.lock().unwrap().done = true;
            kit::activity();
            tx
        }));
    }
    // The moment the sending side learns of the close: whatever is still queued then must not be
    // transmitted any more (at most the one value whose transmission is in progress).
    let learned = Arc::new(Mutex::new(false));
    if case.event == Event::ReceiverClose {
        let tx = tx.clone();
        let logs = logs.clone();
        let learned = learned.clone();
        kit::spawn(async move {
            tx.closed().await;
            for log in &logs {
                let mut log = log.lock().unwrap();
                poll_all(&mut log);
                for a in log.accepted.iter_mut() {
                    a.queued_at_learn = a.res.is_none();
                    if a.res == Some(false) {
                        // Was queued when the close arrived and has been reported as not sent.
                        kit::probe("queued_value_dropped_by_close");
                    }
                }
            }
            *learned.lock().unwrap() = true;
            kit::probe("sender_learned_of_close");
            drop(tx);
        });
    }
    drop(tx);

    let recv_state = Arc::new(Mutex::new((Vec::<Val>::new(), None::<String>)));
    let rs = recv_state.clone();
    let receiver = kit::spawn(async move {
        let mut count = 0;
        let mut closed = false;
        loop {
            if case.event == Event::ReceiverDrop && count >= case.pos {
                drop(rx);
                rs.lock().unwrap().1 = Some("dropped".into());
                kit::activity();
                return;
            }
            if case.event == Event::ReceiverClose && count >= case.pos && !closed {
                // A slow receiver lets values pile up in the sender's queue before the close.
                let pause = kit::pick(&[0u64, 0, 200, 700]); // below the quiescence window of settle()
                if pause > 0 {
                    tokio::time::sleep(Duration::from_millis(pause)).await;
                }
                rx.close();
                closed = true;
                kit::probe("receiver_closed");
            }
            let r = rx.recv().await;
            kit::note(format!("mpsc receiver got {:?}", r.as_ref().map(|o| o.as_ref().map(|v| match v { Val::Small(i) => *i, Val::Blob(i, _) => *i })).map_err(|e| e.to_string())));
            match r {
                Ok(Some(v)) => {
                    rs.lock().unwrap().0.push(v);
                    count += 1;
                    kit::activity();
                }
                Ok(None) => {
                    rs.lock().unwrap().1 = Some("end".into());
                    kit::activity();
                    return;
                }
                Err(e) if e.is_final() => {
                    rs.lock().unwrap().1 = Some(format!("error {e}"));
                    return;
                }
                Err(_) => {
                    if kit::spinning() {
                        return;
                    }
                }
            }
        }
    });

    kit::settle().await;
    if kit::is_aborted() {
        return;
    }
    kit::note("mpsc: first settle done");
    if logs.iter().any(|l| !l.lock().unwrap().done) {
        viol(&case, "send-hangs", "an mpsc sender is still pending at quiescence".into());
        return;
    }
    let mut txs = Vec::new();
    for h in handles {
        match h.await {
            Ok(tx) => txs.push(tx),
            Err(_) => return kit::abort_run("sender actor failed"),
        }
    }
    if case.event != Event::SenderDrop {
        let want = if case.event == Event::ReceiverClose { ClosedReason::Closed } else { ClosedReason::Dropped };
        // Every sender must be able to observe the condition by now, with the right classification.
        for (i, tx) in txs.iter().enumerate() {
            let err = logs[i].lock().unwrap().error.clone();
            let reason = match err {
                Some((_, reason, _)) => reason,
                None => {
                    // Probe with further sends: the local queue may still take a few values.
                    let mut reason = None;
                    for k in 0..(local_buffer + rch::DEFAULT_BUFFER + 4) {
                        kit::note(format!("mpsc: probing send {k}"));
                        match tokio::time::timeout(Duration::from_secs(30), tx.send(Val::Small(2000 + k as u32))).await {
                            Ok(Ok(_)) => {
                                kit::settle().await;
                            }
                            Ok(Err(e)) => {
                                reason = Some(e.closed_reason());
                                break;
                            }
                            Err(_) => {
                                viol(&case, "close-not-observable", format!("sender {i}: the receiver's close/drop never became observable; a send issued at quiescence hangs"));
                                return;
                            }
                        }
                    }
                    match reason {
                        Some(r) => r,
                        None => {
                            viol(&case, "send-succeeds-after-close", format!("sender {i}: sends keep succeeding at quiescence after the receiver was closed/dropped"));
                            return;
                        }
                    }
                }
            };
            if reason != Some(want.clone()) {
                viol(&case, "misclassified", format!("sender {i}: closed reason {reason:?}, expected {want:?}"));
                return;
            }
            if tx.closed_reason() != Some(want.clone()) {
                viol(&case, "misclassified", format!("sender {i}: Sender::closed_reason() = {:?}, expected {want:?}", tx.closed_reason()));
                return;
            }
        }
    }
    drop(txs);
    kit::note("mpsc: senders dropped");
    kit::settle().await;
    let (received, end) = recv_state.lock().unwrap().clone();
    // Per sender: values whose Sending handle reports Ok are exactly the received ones (for drop of
    // the receiver: a prefix relation only), the rest form a suffix.
    for (s, log) in logs.iter().enumerate() {
        let mut log = log.lock().unwrap();
        let mine_received: Vec<&Val> = received.iter().filter(|v| matches!(v, Val::Small(i) | Val::Blob(i, _) if (*i as usize) < N && (*i as usize) % nsenders == s)).collect();
        let mut acked = Vec::new();
        let mut seen_failure = false;
        poll_all(&mut log);
        for a in log.accepted.iter() {
            let v = &a.v;
            match a.res.map(|ok| if ok { Ok(()) } else { Err(()) }) {
                Some(Ok(())) => {
                    if seen_failure {
                        viol(&case, "ack-after-failure", format!("sender {s}: a value was acknowledged after an earlier one failed"));
                        return;
                    }
                    acked.push(v.clone());
                }
                Some(Err(_)) => seen_failure = true,
                None => {
                    viol(&case, "sending-unresolved", format!("sender {s}: a Sending handle is still unresolved at quiescence"));
                    return;
                }
            }
        }
        match case.event {
            Event::SenderDrop | Event::ReceiverClose => {
                if mine_received.len() != acked.len() || mine_received.iter().zip(&acked).any(|(a, b)| *a != b) {
                    let kind = if mine_received.len() < acked.len() { "sent-message-lost" } else { "unacknowledged-message-delivered" };
                    viol(&case, kind, format!("sender {s}: {} values acknowledged as sent, {} received", acked.len(), mine_received.len()));
                    return;
                }
            }
            Event::ReceiverDrop => {
                if mine_received.len() > acked.len() || mine_received.iter().zip(&acked).any(|(a, b)| *a != b) {
                    viol(&case, "received-not-prefix", format!("sender {s}: received values are not a prefix of the acknowledged ones"));
                    return;
                }
            }
        }
    }
    if case.event != Event::ReceiverDrop && end.as_deref() != Some("end") {
        viol(&case, "no-end-of-stream", format!("receiver state after all senders were dropped: {end:?}"));
        return;
    }
    if case.event == Event::ReceiverClose && *learned.lock().unwrap() {
        // All clones feed one queue and one transmitting task: at most one value can have been in
        // transmission when the sending side learned of the close.
        let mut started_after: Vec<String> = Vec::new();
        let mut queued = 0;
        for log in &logs {
            let log = log.lock().unwrap();
            for a in log.accepted.iter().filter(|a| a.queued_at_learn) {
                queued += 1;
                if a.res == Some(true) {
                    started_after.push(match &a.v {
                        Val::Small(i) => format!("Small({i})"),
                        Val::Blob(i, b) => format!("Blob({i},{}B)", b.len()),
                    });
                }
            }
        }
        if queued > 0 {
            kit::probe("values_queued_when_close_learned");
        }
        if started_after.len() > 1 {
            viol(
                &case,
                "message-started-after-close-learned",
                format!(
                    "{queued} values were still queued when the sender learned that the receiver was closed (closed() resolved); {} of them were transmitted and acknowledged afterwards: {:?} (at most one can have been in transmission)",
                    started_after.len(),
                    started_after
                ),
            );
            return;
        }
    }
    kit::set_nontrivial();
    receiver.abort();
    conn_a.abort();
    conn_b.abort();
}

async fn run() {
    let case = decode(kit::run_index());
    kit::draw_sched_policy();
    kit::set_port_space(if kit::coin(1, 2) { 0 } else { 64 });
    match case.chan {
        Chan::Port => run_port(case).await,
        Chan::Base => run_base(case).await,
        Chan::Mpsc => run_mpsc(case).await,
    }
}

fn sc() -> ScenarioFuture {
    Box::pin(run())
}

pub fn space_runs(schedules: u64) -> u64 {
    SPACE * schedules
}

pub fn checks() -> Vec<Check> {
    vec![Check {
        id: "C11",
        level: "fault_enumeration",
        classes: vec!["c11"],
        scenarios: vec![Scenario { name: "positions", weight: 1, max_polls: 400_000, max_virtual_secs: 48 * 3600, run: sc }],
        quick: (0, 60),
        thorough: (0, 600),
        rule: "position enumeration: run index decodes to (channel type port/base/mpsc, event sender-drop/receiver-close/receiver-drop, position 0..6 in a stream of 6 messages, \
inside or outside a message, schedule number); message sizes, configurations, latencies and poll deferral are seeded per run; non-trivial = the event took place and the \
classification and delivery oracles were evaluated; distinct = distinct (case, poll-order hash)",
        assumptions: vec![
            "healthy link; connection-failure classification is covered by C06",
            "mpsc: acknowledgement of a value = its Sending handle resolves Ok",
        ],
        required_probes: vec!["receiver_closed", "sender_dropped_mid_message", "helper_thread_ran", "sender_learned_of_close", "queued_value_dropped_by_close"],
        real_components: "remoc::chmux ports, rch::base, rch::mpsc (remote receiver), default codec, Connect::framed",
        stub_components: STUB_NET,
    }]
}
