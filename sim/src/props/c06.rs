//! C06 — fail-stop under transport faults (level: fault_enumeration).
//!
//! Fixed mixed workloads; for each, EVERY (frame index × direction × fault kind) of the frames the
//! workload emits is executed under several seeded schedules. The run index of the batch enumerates
//! the cut-point space; draws only decide schedule, latencies and deferrals.

use std::{
    collections::BTreeMap,
    sync::{Arc, Mutex, OnceLock},
    time::Duration,
};

use bytes::Bytes;
use remoc::chmux::{self, Cfg, ChMux, PortReq, Received};
use serde_json::json;

use crate::{
    harness::{Check, Scenario, ScenarioFuture},
    kit,
    mux::{self, MuxResult},
    net::{self, Fault, FaultKind, LinkCfg},
    proto::MonitorMode,
    props::{REAL_CHMUX, STUB_NET},
};

const KINDS: [FaultKind; 5] =
    [FaultKind::SinkError, FaultKind::StreamError, FaultKind::Eof, FaultKind::StallBoth, FaultKind::StallOneWay];
const WORKLOADS: u64 = 2;
/// Extra frame indices beyond what the pilot run emitted (later schedules emit a few more frames).
const MARGIN: u64 = 6;

fn timeouts(workload: u64) -> (Duration, Duration) {
    match workload {
        0 => (Duration::from_secs(4), Duration::from_secs(6)),
        // Very different timeouts: A is pinged only every 4 s (half of its own timeout), B every 1.5 s.
        _ => (Duration::from_secs(8), Duration::from_secs(3)),
    }
}

fn cfgs(workload: u64) -> (Cfg, Cfg) {
    let (ta, tb) = timeouts(workload);
    let mut a = Cfg::default();
    let mut b = Cfg::default();
    match workload {
        0 => {
            a.chunk_size = 8;
            a.receive_buffer = 32;
            a.max_data_size = 64;
            b.chunk_size = 16;
            b.receive_buffer = 24;
            b.max_data_size = 48;
        }
        _ => {
            a.chunk_size = 5;
            a.receive_buffer = 9;
            a.max_data_size = 16;
            b.chunk_size = 7;
            b.receive_buffer = 12;
            b.max_data_size = 256;
        }
    }
    for c in [&mut a, &mut b] {
        c.shared_send_queue = 2;
        c.transport_send_queue = 2;
        c.transport_receive_queue = 2;
        c.max_ports = 16;
        c.connect_queue = 4;
    }
    a.connection_timeout = Some(ta);
    b.connection_timeout = Some(tb);
    (a, b)
}

#[derive(Default)]
struct Tracker {
    ops: Vec<(String, Arc<Mutex<Option<String>>>)>,
}

impl Tracker {
    fn track(&mut self, name: impl Into<String>) -> Arc<Mutex<Option<String>>> {
        let slot = Arc::new(Mutex::new(None));
        self.ops.push((name.into(), slot.clone()));
        slot
    }
}

fn done(slot: &Arc<Mutex<Option<String>>>, outcome: impl Into<String>) {
    *slot.lock().unwrap() = Some(outcome.into());
    kit::activity();
}

static PILOT: OnceLock<Mutex<BTreeMap<u64, [u64; 2]>>> = OnceLock::new();
thread_local! {
    static PILOT_MODE: std::cell::Cell<Option<u64>> = const { std::cell::Cell::new(None) };
    static PILOT_OUT: std::cell::Cell<[u64; 2]> = const { std::cell::Cell::new([0, 0]) };
}

/// Frames per direction emitted by a fault-free run of the workload (computed once per process).
fn pilot_frames(workload: u64) -> [u64; 2] {
    let map = PILOT.get_or_init(|| Mutex::new(BTreeMap::new()));
    if let Some(v) = map.lock().unwrap().get(&workload) {
        return *v;
    }
    let v = std::thread::spawn(move || {
        PILOT_MODE.with(|p| p.set(Some(workload)));
        let rc = kit::RunCfg {
            seed: 1,
            replay: Some(Vec::new()),
            max_polls: 400_000,
            classes: vec![],
            max_virtual_secs: 48 * 3600,
            index: 0,
        };
        let _ = kit::run_one(&rc, || run());
        PILOT_OUT.with(|o| o.get())
    })
    .join()
    .expect("pilot run panicked");
    map.lock().unwrap().insert(workload, v);
    v
}

struct Case {
    workload: u64,
    dir: usize,
    kind: FaultKind,
    frame: u64,
    schedule: u64,
    space: u64,
}

fn decode_case(index: u64) -> Case {
    let per: Vec<u64> = (0..WORKLOADS)
        .map(|w| {
            let f = pilot_frames(w);
            (f[0] + MARGIN + f[1] + MARGIN) * KINDS.len() as u64
        })
        .collect();
    let space: u64 = per.iter().sum();
    let schedule = index / space;
    let mut point = index % space;
    let mut workload = 0;
    for (w, p) in per.iter().enumerate() {
        if point < *p {
            workload = w as u64;
            break;
        }
        point -= p;
    }
    let f = pilot_frames(workload);
    let kind = KINDS[(point % KINDS.len() as u64) as usize];
    let point = point / KINDS.len() as u64;
    let (dir, frame) = if point < f[0] + MARGIN { (0, point) } else { (1, point - f[0] - MARGIN) };
    Case { workload, dir, kind, frame, schedule, space }
}

async fn run() {
    let pilot = PILOT_MODE.with(|p| p.get());
    let case = match pilot {
        Some(w) => Case { workload: w, dir: 0, kind: FaultKind::Eof, frame: u64::MAX, schedule: 0, space: 0 },
        None => decode_case(kit::run_index()),
    };
    if pilot.is_none() {
        kit::draw_sched_policy();
        kit::set_port_space(if kit::coin(1, 2) { 0 } else { 64 });
    }
    let (cfg_a, cfg_b) = cfgs(case.workload);
    let (ta, tb) = timeouts(case.workload);
    let t_max = ta.max(tb);
    // Latency must stay well below timeout/4.
    let link_cfg = if pilot.is_some() {
        LinkCfg::instant()
    } else {
        let prof: [(u32, u32); 5] = [(0, 0), (100, 0), (1000, 1000), (200, 20_000), (5000, 200_000)];
        let a = kit::pick(&prof);
        let b = if kit::coin(1, 3) { kit::pick(&prof) } else { a };
        LinkCfg {
            lat_min_us: [a.0, b.0],
            lat_jitter_us: [a.1, b.1],
            capacity: [kit::pick(&[1usize << 20, 8, 2]), kit::pick(&[1usize << 20, 8, 2])],
            flush_pending_permille: kit::pick(&[0, 0, 200]),
        }
    };
    kit::mix_plan(kit::hash_str(&format!("{} {} {:?} {}", case.workload, case.dir, case.kind, case.frame)));
    kit::set_sample(json!({"workload": case.workload, "fault": {"dir": case.dir, "frame": case.frame, "kind": format!("{:?}", case.kind)},
        "schedule_no": case.schedule, "cut_point_space": case.space, "link": format!("{link_cfg:?}")}));

    let ((sink_a, stream_a), (sink_b, stream_b), ctl) = net::link("AB", link_cfg, MonitorMode::Full);
    if pilot.is_none() {
        ctl.add_fault(Fault { dir: case.dir, at: case.frame, kind: case.kind, heal_after_us: None });
    }
    let fault_name = match case.kind {
        FaultKind::SinkError => "sink_error",
        FaultKind::StreamError => "stream_error",
        FaultKind::Eof => "eof",
        FaultKind::StallBoth => "stall_both",
        FaultKind::StallOneWay => "stall_one_way",
    };
    let fired = || kit::with(|c| c.faults.get(fault_name).copied().unwrap_or(0) > 0);
    let sig = |what: &str| format!("c06:{what}:{fault_name}");

    // ---- Handshake (faults may hit it). Both `new` calls must return within the timeout. ----
    let hs = tokio::time::timeout(
        t_max + Duration::from_secs(2),
        futures::future::join(ChMux::new(cfg_a.clone(), sink_a, stream_a), ChMux::new(cfg_b.clone(), sink_b, stream_b)),
    )
    .await;
    let (ra, rb) = match hs {
        Ok(v) => v,
        Err(_) => {
            kit::class_violation(
                "c06",
                "handshake-hangs",
                sig("handshake-hangs"),
                format!("ChMux::new did not return within timeout + 2 s after {fault_name} at frame {} of direction {}", case.frame, case.dir),
            );
            return;
        }
    };
    let ((mux_a, client_a, mut listener_a), (mux_b, client_b, mut listener_b)) = match (ra, rb) {
        (Ok(a), Ok(b)) => (a, b),
        (ra, rb) => {
            if !fired() {
                kit::class_violation(
                    "c06",
                    "handshake-failed-without-fault",
                    "c06:handshake-failed-without-fault",
                    format!("handshake failed although no fault fired: {:?} / {:?}", ra.err().map(|e| e.to_string()), rb.err().map(|e| e.to_string())),
                );
            } else {
                kit::probe("fault_during_handshake");
                kit::set_nontrivial();
            }
            // One side may have succeeded: its dispatcher must still fail in bounded time; covered by dropping here.
            return;
        }
    };
    // Virtual time at which each dispatcher ended.
    let ended: Arc<Mutex<[Option<u64>; 2]>> = Arc::new(Mutex::new([None, None]));
    let (ea, eb) = (ended.clone(), ended.clone());
    let run_a = kit::spawn(async move {
        let r = mux_a.run().await;
        ea.lock().unwrap()[0] = Some(kit::now_us());
        r
    });
    let run_b = kit::spawn(async move {
        let r = mux_b.run().await;
        eb.lock().unwrap()[1] = Some(kit::now_us());
        r
    });

    let mut tracker = Tracker::default();
    let received: Arc<Mutex<BTreeMap<&'static str, Vec<Vec<u8>>>>> = Arc::new(Mutex::new(BTreeMap::new()));
    let sent: Arc<Mutex<BTreeMap<&'static str, Vec<Vec<u8>>>>> = Arc::new(Mutex::new(BTreeMap::new()));

    // ---- Open two ports (B accepts), guarded: a fault may hit the opening. ----
    let accept_slot = tracker.track("B.listener.accept x2");
    let accept_task = kit::spawn(async move {
        let mut ports = Vec::new();
        for _ in 0..2 {
            match listener_b.accept().await {
                Ok(Some(p)) => ports.push(p),
                Ok(None) => {
                    done(&accept_slot, "closed");
                    return (ports, listener_b);
                }
                Err(e) => {
                    done(&accept_slot, format!("err {e}"));
                    return (ports, listener_b);
                }
            }
        }
        done(&accept_slot, "ok");
        (ports, listener_b)
    });
    let connect_slot = tracker.track("A.client.connect x2");
    let client_a2 = client_a.clone();
    let connect_task = kit::spawn(async move {
        let mut ports = Vec::new();
        for _ in 0..2 {
            match client_a2.connect().await {
                Ok(p) => ports.push(p),
                Err(e) => {
                    done(&connect_slot, format!("err {e}"));
                    return ports;
                }
            }
        }
        done(&connect_slot, "ok");
        ports
    });
    kit::settle().await;
    let wait_extra = |d: Duration| async move {
        tokio::time::sleep(d).await;
        kit::settle().await;
    };
    if !connect_task.is_finished() || !accept_task.is_finished() {
        // Possibly stalled: after the timeout everything must have resolved.
        wait_extra(t_max + Duration::from_secs(2)).await;
    }
    if !connect_task.is_finished() || !accept_task.is_finished() {
        kit::class_violation(
            "c06",
            "op-hangs-after-fault",
            sig("open-hangs"),
            format!("port opening still pending after timeout + 2 s (fault fired: {})", fired()),
        );
        return;
    }
    let mut ports_a = connect_task.await.unwrap_or_default();
    let (mut ports_b, listener_b) = accept_task.await.map(|(p, l)| (p, Some(l))).unwrap_or((Vec::new(), None));

    // ---- Active phase ----
    let sizes_ab: Vec<usize> = if case.workload == 0 { vec![3, 20, 70, 0, 40] } else { vec![1, 17, 6, 30, 2, 9] };
    let sizes_ba: Vec<usize> = if case.workload == 0 { vec![10, 33] } else { vec![40, 0, 5] };
    let mut keep_alive: Vec<Box<dyn std::any::Any + Send>> = Vec::new();
    let mut fresh_tx: Vec<(&'static str, Arc<tokio::sync::Mutex<chmux::Sender>>)> = Vec::new();
    let mut fresh_rx: Vec<(&'static str, Arc<tokio::sync::Mutex<chmux::Receiver>>)> = Vec::new();
    let have_ports = ports_a.len() == 2 && ports_b.len() == 2;
    if have_ports {
        let (tx_a1, rx_a1) = ports_a.pop().unwrap();
        let (tx_a0, rx_a0) = ports_a.pop().unwrap();
        let (tx_b1, rx_b1) = ports_b.pop().unwrap();
        let (tx_b0, rx_b0) = ports_b.pop().unwrap();

        let spawn_flow = |name: &'static str, flow: u32, tx: chmux::Sender, rx: chmux::Receiver, sizes: Vec<usize>, tracker: &mut Tracker| {
            let tx = Arc::new(tokio::sync::Mutex::new(tx));
            let rx = Arc::new(tokio::sync::Mutex::new(rx));
            let s_slot = tracker.track(format!("{name}.send loop"));
            let sent = sent.clone();
            let txc = tx.clone();
            kit::spawn(async move {
                let mut tx = txc.lock().await;
                for (i, len) in sizes.into_iter().enumerate() {
                    let data = mux::payload(flow, i as u32, len);
                    match tx.send(Bytes::from(data.clone())).await {
                        Ok(()) => sent.lock().unwrap().entry(name).or_default().push(data),
                        Err(e) => {
                            done(&s_slot, format!("err {e}"));
                            return;
                        }
                    }
                }
                done(&s_slot, "ok");
            });
            let received = received.clone();
            let rxc = rx.clone();
            let r_slot = tracker.track(format!("{name}.recv loop (pending on idle port afterwards)"));
            kit::spawn(async move {
                let mut rx = rxc.lock().await;
                loop {
                    match rx.recv_any().await {
                        Ok(Some(Received::Data(d))) => {
                            received.lock().unwrap().entry(name).or_default().push(Vec::from(d));
                            kit::activity();
                        }
                        Ok(Some(Received::Chunks)) => {
                            let mut whole = Vec::new();
                            loop {
                                match rx.recv_chunk().await {
                                    Ok(Some(c)) => whole.extend_from_slice(&c),
                                    Ok(None) => {
                                        received.lock().unwrap().entry(name).or_default().push(whole);
                                        break;
                                    }
                                    Err(chmux::RecvChunkError::Cancelled) => break,
                                    Err(e) => {
                                        done(&r_slot, format!("err {e}"));
                                        return;
                                    }
                                }
                            }
                        }
                        Ok(Some(Received::Requests(reqs))) => {
                            for r in reqs {
                                kit::spawn(async move {
                                    let _ = r.accept().await;
                                });
                            }
                        }
                        Ok(None) => {
                            done(&r_slot, "end-of-stream");
                            return;
                        }
                        Err(e) => {
                            done(&r_slot, format!("err {e}"));
                            return;
                        }
                    }
                }
            });
            (tx, rx)
        };
        let (t, r) = spawn_flow("p0.AtoB", 0, tx_a0, rx_b0, sizes_ab.clone(), &mut tracker);
        fresh_tx.push(("p0.AtoB", t));
        fresh_rx.push(("p0.AtoB", r));
        let (t, r) = spawn_flow("p0.BtoA", 1, tx_b0, rx_a0, sizes_ba.clone(), &mut tracker);
        fresh_tx.push(("p0.BtoA", t));
        fresh_rx.push(("p0.BtoA", r));
        // Port 1: A sends a batch of two port requests, then one message; B->A direction stays idle.
        let (t, r) = spawn_flow("p1.BtoA(idle)", 3, tx_b1, rx_a1, vec![], &mut tracker);
        fresh_tx.push(("p1.BtoA", t));
        fresh_rx.push(("p1.BtoA", r));
        let batch_slot = tracker.track("p1.AtoB connect batch + send");
        let closed_slot = tracker.track("p1.AtoB closed()");
        let tx_a1 = Arc::new(tokio::sync::Mutex::new(tx_a1));
        {
            let closed = tx_a1.try_lock().unwrap().closed();
            kit::spawn(async move {
                closed.await;
                done(&closed_slot, "resolved");
            });
        }
        let tx_a1c = tx_a1.clone();
        let sentc = sent.clone();
        kit::spawn(async move {
            let mut tx = tx_a1c.lock().await;
            let alloc = tx.port_allocator();
            let mut reqs = Vec::new();
            for _ in 0..2 {
                if let Some(p) = alloc.try_allocate() {
                    reqs.push(PortReq::new(p));
                }
            }
            match tx.connect(reqs, true).await {
                Ok(connects) => {
                    for c in connects {
                        kit::spawn(async move {
                            let _ = c.await;
                        });
                    }
                }
                Err(e) => {
                    done(&batch_slot, format!("err {e}"));
                    return;
                }
            }
            let data = mux::payload(2, 0, 5);
            match tx.send(Bytes::from(data.clone())).await {
                Ok(()) => {
                    sentc.lock().unwrap().entry("p1.AtoB").or_default().push(data);
                    done(&batch_slot, "ok");
                }
                Err(e) => done(&batch_slot, format!("err {e}")),
            }
        });
        fresh_tx.push(("p1.AtoB", tx_a1));
        let (_t, r) = {
            // Receiver of p1 A->B at B.
            let rx = Arc::new(tokio::sync::Mutex::new(rx_b1));
            let rxc = rx.clone();
            let received = received.clone();
            let r_slot = tracker.track("p1.AtoB.recv loop");
            kit::spawn(async move {
                let mut rx = rxc.lock().await;
                loop {
                    match rx.recv_any().await {
                        Ok(Some(Received::Data(d))) => {
                            received.lock().unwrap().entry("p1.AtoB").or_default().push(Vec::from(d));
                            kit::activity();
                        }
                        Ok(Some(Received::Requests(reqs))) => {
                            for r in reqs {
                                kit::spawn(async move {
                                    let _ = r.accept().await;
                                });
                            }
                        }
                        Ok(Some(Received::Chunks)) => {}
                        Ok(None) => {
                            done(&r_slot, "end-of-stream");
                            return;
                        }
                        Err(e) => {
                            done(&r_slot, format!("err {e}"));
                            return;
                        }
                    }
                }
            });
            ((), rx)
        };
        fresh_rx.push(("p1.AtoB", r));
    } else {
        keep_alive.push(Box::new((ports_a, ports_b)));
    }
    // Pending listener accept at A (B never connects) and a pending connect from B (A never accepts).
    let a_accept_slot = tracker.track("A.listener.accept (no request ever arrives)");
    let listener_a_task = kit::spawn(async move {
        let r = listener_a.accept().await;
        done(&a_accept_slot, match &r {
            Ok(Some(_)) => "accepted".to_string(),
            Ok(None) => "closed".to_string(),
            Err(e) => format!("err {e}"),
        });
        listener_a
    });
    let _ = &listener_a_task;

    // Active phase runs to quiescence, then an idle tail with pings in both directions.
    kit::settle().await;
    if let Some(w) = pilot {
        let _ = w;
        tokio::time::sleep(Duration::from_secs(10)).await;
        PILOT_OUT.with(|o| o.set([ctl.sent(0), ctl.sent(1)]));
        return;
    }
    tokio::time::sleep(Duration::from_secs(10)).await;
    kit::settle().await;
    // A fault point beyond the traffic of this schedule never fires: from here on the link is healthy.
    ctl.clear_faults();

    if fired() {
        kit::set_nontrivial();
        // Stalls are silent: the timeout must fire. Errors/EOF are observed at once by one side;
        // the other learns through the closed transport at the latest when its timeout expires.
        wait_extra(t_max + Duration::from_secs(2)).await;

        // (1) both dispatchers terminated with an error.
        for (name, h) in [("A", &run_a), ("B", &run_b)] {
            if !h.is_finished() {
                kit::class_violation(
                    "c06",
                    "dispatcher-survives-fault",
                    sig("dispatcher-survives-fault"),
                    format!("dispatcher {name} still running {}s after {fault_name} at frame {} of direction {}", t_max.as_secs() + 12, case.frame, case.dir),
                );
                return;
            }
        }
        // (1b) an endpoint that received nothing any more gave up when ITS OWN timeout expired.
        if matches!(case.kind, FaultKind::StallBoth | FaultKind::StallOneWay)
            && let Some(t_f) = kit::fault_time_us(fault_name)
        {
            let ends = *ended.lock().unwrap();
            for (ep, name, own) in [(0usize, "A", ta), (1usize, "B", tb)] {
                // Direction d carries frames from endpoint d to endpoint 1-d: a one-way stall starves 1-d.
                let starved = case.kind == FaultKind::StallBoth || ep == 1 - case.dir;
                let Some(end) = ends[ep] else { continue };
                if starved && end > t_f + own.as_micros() as u64 + 1_000_000 {
                    kit::class_violation(
                        "c06",
                        "timeout-not-honoured",
                        sig("timeout-not-honoured"),
                        format!(
                            "dispatcher {name} (connection_timeout {} s) ended {:.1} s after the link went silent ({fault_name} at frame {} of direction {}); the peer's timeout is {} s",
                            own.as_secs(),
                            (end - t_f) as f64 / 1e6,
                            case.frame,
                            case.dir,
                            if ep == 0 { tb.as_secs() } else { ta.as_secs() }
                        ),
                    );
                    return;
                }
                if starved {
                    kit::probe("own_timeout_honoured");
                }
            }
        }
        for (name, h) in [("A", run_a), ("B", run_b)] {
            match h.await {
                Ok(Err(_)) => {}
                Ok(Ok(())) => {
                    kit::class_violation(
                        "c06",
                        "dispatcher-reports-success",
                        sig("dispatcher-reports-success"),
                        format!("dispatcher {name} returned Ok(()) although the transport failed while ports and clients were alive"),
                    );
                    return;
                }
                Err(e) => {
                    kit::class_violation("c06", "dispatcher-panicked", sig("dispatcher-panicked"), format!("dispatcher {name}: {e}"));
                    return;
                }
            }
        }
        // (2) every operation that was outstanding has completed.
        for (name, slot) in &tracker.ops {
            let outcome = slot.lock().unwrap().clone();
            match outcome {
                None => {
                    kit::class_violation(
                        "c06",
                        "op-hangs-after-fault",
                        sig("op-hangs"),
                        format!("operation `{name}` still pending after the connection failed ({fault_name} at frame {} of direction {})", case.frame, case.dir),
                    );
                    return;
                }
                Some(o) if o == "end-of-stream" => {
                    kit::class_violation(
                        "c06",
                        "failure-misreported-as-end",
                        sig("failure-misreported-as-end"),
                        format!("`{name}` reported an orderly end of stream although the sender was never dropped"),
                    );
                    return;
                }
                Some(_) => {}
            }
        }
        // (3) fresh operations fail in bounded time.
        let mut fresh = Tracker::default();
        for (name, tx) in &fresh_tx {
            let slot = fresh.track(format!("fresh send on {name}"));
            let tx = tx.clone();
            kit::spawn(async move {
                let mut tx = tx.lock().await;
                let r = tx.send(Bytes::from_static(b"after the fault")).await;
                done(&slot, if r.is_ok() { "OK".to_string() } else { "err".to_string() });
            });
        }
        for (name, rx) in &fresh_rx {
            let slot = fresh.track(format!("fresh recv on {name}"));
            let rx = rx.clone();
            kit::spawn(async move {
                let mut rx = rx.lock().await;
                let r = rx.recv().await;
                done(&slot, match r {
                    Ok(Some(_)) => "data".to_string(),
                    Ok(None) => "end-of-stream".to_string(),
                    Err(_) => "err".to_string(),
                });
            });
        }
        {
            let slot = fresh.track("fresh A.client.connect");
            let c = client_a.clone();
            kit::spawn(async move {
                let r = c.connect().await;
                done(&slot, if r.is_ok() { "OK" } else { "err" });
            });
            let slot = fresh.track("fresh B.client.connect");
            let c = client_b.clone();
            kit::spawn(async move {
                let r = c.connect().await;
                done(&slot, if r.is_ok() { "OK" } else { "err" });
            });
            if let Some(mut l) = listener_b {
                let slot = fresh.track("fresh B.listener.accept");
                kit::spawn(async move {
                    let r = l.accept().await;
                    done(&slot, match r {
                        Ok(Some(_)) => "OK",
                        Ok(None) => "closed",
                        Err(_) => "err",
                    });
                });
            }
        }
        kit::settle().await;
        for (name, slot) in &fresh.ops {
            let outcome = slot.lock().unwrap().clone();
            match outcome.as_deref() {
                None => {
                    kit::class_violation(
                        "c06",
                        "op-hangs-after-fault",
                        sig("fresh-op-hangs"),
                        format!("`{name}` issued after the connection failed is still pending at quiescence"),
                    );
                    return;
                }
                Some("OK") | Some("data") => {
                    kit::class_violation(
                        "c06",
                        "op-succeeds-after-fault",
                        sig("fresh-op-succeeds"),
                        format!("`{name}` issued after both dispatchers terminated succeeded"),
                    );
                    return;
                }
                Some("end-of-stream") => {
                    kit::class_violation(
                        "c06",
                        "failure-misreported-as-end",
                        sig("failure-misreported-as-end"),
                        format!("`{name}` reported an orderly end of stream after the connection failed"),
                    );
                    return;
                }
                _ => {}
            }
        }
    } else {
        // Healthy connection: never torn down by the timeout, however long it idles; then it still transfers.
        kit::probe("fault_point_beyond_traffic");
        let hours = kit::pick(&[1u64, 3, 12]);
        tokio::time::sleep(Duration::from_secs(hours * 3600)).await;
        for (name, h) in [("A", &run_a), ("B", &run_b)] {
            if h.is_finished() {
                kit::class_violation(
                    "c06",
                    "idle-connection-torn-down",
                    "c06:idle-connection-torn-down",
                    format!("dispatcher {name} terminated on a healthy idle link after {hours} h"),
                );
                return;
            }
        }
        if let Some((name, tx)) = fresh_tx.first() {
            let data = mux::payload(99, 0, 21);
            let r = tx.lock().await.send(Bytes::from(data.clone())).await;
            if r.is_err() {
                kit::class_violation("c06", "idle-connection-torn-down", "c06:send-fails-after-idle", format!("{name}: {r:?}"));
                return;
            }
            sent.lock().unwrap().entry(name).or_default().push(data);
            kit::settle().await;
            let got = received.lock().unwrap().get(name).map(|v| v.len()).unwrap_or(0);
            let want = sent.lock().unwrap().get(name).map(|v| v.len()).unwrap_or(0);
            if got != want {
                kit::class_violation(
                    "c06",
                    "idle-connection-torn-down",
                    "c06:no-transfer-after-idle",
                    format!("{name}: {got} of {want} messages received after the idle period"),
                );
                return;
            }
            kit::probe("transfer_after_idle_ok");
            kit::set_nontrivial();
        }
    }

    // (4) what was received is a prefix of what was sent, whatever happened.
    let received = received.lock().unwrap();
    let sent = sent.lock().unwrap();
    for (name, got) in received.iter() {
        // Messages may be received whose send future had not yet returned when the fault hit:
        // compare against the deterministic payload sequence instead of the completed sends only.
        let flow = match *name {
            "p0.AtoB" => Some((0u32, &sizes_ab)),
            "p0.BtoA" => Some((1u32, &sizes_ba)),
            _ => None,
        };
        if let Some((flow, sizes)) = flow {
            for (i, m) in got.iter().enumerate() {
                let is_extra = i >= sizes.len();
                let exp = if is_extra { sent.get(name).and_then(|s| s.get(i)).cloned() } else { Some(mux::payload(flow, i as u32, sizes[i])) };
                if exp.as_ref() != Some(m) {
                    kit::class_violation(
                        "c06",
                        "received-not-prefix-of-sent",
                        "c06:received-not-prefix-of-sent",
                        format!("{name}: message #{i} has {} bytes, expected {:?} bytes", m.len(), exp.map(|e| e.len())),
                    );
                    return;
                }
            }
        }
    }
    drop(keep_alive);
    drop(client_a);
    drop(client_b);
}

fn sc_enumerate() -> ScenarioFuture {
    Box::pin(run())
}

/// Number of runs that covers the whole cut-point space `schedules` times.
pub fn space_runs(schedules: u64) -> u64 {
    decode_case(0).space * schedules
}

pub fn checks() -> Vec<Check> {
    vec![Check {
        id: "C06",
        level: "fault_enumeration",
        classes: vec!["c06"],
        scenarios: vec![Scenario { name: "enumerate-cut-points", weight: 1, max_polls: 600_000, max_virtual_secs: 96 * 3600, run: sc_enumerate }],
        quick: (0, 90),
        thorough: (0, 900),
        rule: "fault enumeration: run index i decodes to (workload, direction, fault kind, frame index, schedule number); for two fixed mixed workloads \
every frame index the fault-free pilot emits per direction (+6) x 2 directions x 5 fault kinds (sink error, stream error, EOF, silent stall both ways, \
one-directional stall) is executed once per schedule number; the schedule (latencies, back-pressure, poll deferral) is seeded; a run is non-trivial if its \
fault fired inside the traffic (or, for points beyond the traffic, if the idle-survival clause was exercised); distinct = distinct (cut point, poll-order hash)",
        assumptions: vec![
            "the cut-point space is derived from a fault-free pilot run per workload; other schedules shift frame indices slightly, fired counts are reported",
            "after a fault the peer is told through the closed transport (as a socket would) or by its own timeout",
            "stall survival is only asserted for a healthy link: stalls are injected as permanent",
        ],
        required_probes: vec!["sink_error", "stream_error", "eof", "stall_both", "stall_one_way", "fault_during_handshake", "transfer_after_idle_ok"],
        real_components: REAL_CHMUX,
        stub_components: STUB_NET,
    }]
}
