//! C16 — broadcast: ordered delivery with an explicit lag marker at every gap.
//!
//! Endpoint A owns the broadcast sender. Subscribers are local (A) or remote: B (one hop, link AB),
//! C (two hops, the receiver is forwarded by B over link BC), D (link AD, the link that is cut in the
//! fault scenario). The sender actor executes a drawn plan (send, burst, pause, subscribe) over the
//! values 0,1,2,…; subscribers have drawn `send_buffer` (1..3, or "roomy"), `RECEIVE_BUFFER` (1, 2),
//! reading style (recv / try_recv polling / stream) and consumption mode (lock-step with the sender,
//! eager, slow, stalled until the end, leaving after k events).
//!
//! Oracle per subscriber (`World::event`, `World::tail_check`):
//!  * `Ok` values are byte-exact, were sent, are strictly increasing;
//!  * between consecutive `Ok(a)`, `Ok(b)` (first value: relative to the join index) there is a
//!    `Lagged` iff `b != a + 1`, and never two `Lagged` in a row (the re-admitted subscriber has a
//!    reserved slot, so the message after a lag marker is a value);
//!  * a lock-step subscriber and a subscriber whose `send_buffer` exceeds the number of values see
//!    every value from their join index on and never `Lagged`, whatever the others do;
//!  * at quiescence a reading subscriber's last event is `Ok(last value sent)` or `Lagged` (then
//!    something was really skipped); after the sender is dropped every subscriber ends with `Closed`;
//!  * `send` is synchronous and returns `Ok` as long as a live subscriber on a healthy path exists —
//!    stalled, departed or failed (cut link) subscribers notwithstanding.

use std::{
    collections::BTreeMap,
    sync::{Arc, Mutex, MutexGuard},
    time::Duration,
};

use futures::StreamExt;
use remoc::rch::{
    base,
    broadcast::{self, ReceiverStream, RecvError, StreamError, TryRecvError},
};
use serde::{Deserialize, Serialize};
use serde_json::json;
use tokio::sync::{Mutex as AsyncMutex, Notify};

use crate::{
    harness::{Check, Scenario, ScenarioFuture},
    kit,
    mux::{self, CfgProfile},
    net::{Fault, FaultKind, LinkCfg, LinkCtl},
    proto::MonitorMode,
    props::STUB_NET,
};

const MAX_VALUES: u64 = 30;
const ROOMY: usize = 40;
const A: usize = 0;
const B: usize = 1;
const C: usize = 2;
const D: usize = 3;
const EP: [&str; 4] = ["A", "B", "C", "D"];

type Codec = remoc::codec::Default;

#[derive(Clone, Debug, PartialEq, Serialize, Deserialize)]
pub struct BVal {
    pub n: u64,
    pub pad: Vec<u8>,
}

fn make_val(n: u64, pad_mode: u32) -> BVal {
    let len = match pad_mode {
        0 => 0,
        1 => (n % 4) as usize * 9,
        _ => 40 + (n % 3) as usize * 30,
    };
    BVal { n, pad: mux::payload(16, n as u32, len) }
}

#[derive(Serialize, Deserialize)]
enum BRx {
    B1(broadcast::Receiver<BVal, Codec, 1>),
    B2(broadcast::Receiver<BVal, Codec, 2>),
}

#[derive(Serialize, Deserialize)]
struct Msg {
    dest: u8,
    id: u32,
    rx: BRx,
}

// ------------------------------------------------------------------------------------------
// Plans
// ------------------------------------------------------------------------------------------

#[derive(Clone, Copy, Debug, PartialEq)]
enum Mode {
    /// Reads continuously; the sender waits until it consumed each value.
    LockStep,
    /// Reads continuously.
    Eager,
    /// Sleeps the given number of microseconds after every event.
    Slow(u32),
    /// Does not read before the final phase.
    Stalled,
}

#[derive(Clone, Copy, Debug, PartialEq)]
enum Reader {
    Recv,
    TryRecv(u32),
    Stream,
}

#[derive(Clone, Debug)]
struct SubPlan {
    loc: usize,
    send_buffer: usize,
    recv_buf: usize,
    mode: Mode,
    reader: Reader,
    leave_after: Option<u32>,
}

#[derive(Clone, Debug)]
enum SOp {
    Send,
    Burst(u32),
    Pause(u32),
    Subscribe(SubPlan),
}

fn draw_sub_plan(locs: &[usize], cut: bool) -> SubPlan {
    let loc = kit::pick(locs);
    let faulty = cut && loc == D;
    let mode = match kit::draw(8) {
        0 | 1 => Mode::Eager,
        2 | 3 if !faulty => Mode::LockStep,
        2 | 3 => Mode::Eager,
        4 | 5 => Mode::Slow(kit::pick(&[200u32, 3_000, 20_000, 100_000])),
        _ => Mode::Stalled,
    };
    let send_buffer = if kit::coin(1, 6) { ROOMY } else { kit::draw_range(1, 3) as usize };
    let reader = match kit::draw(4) {
        0 | 1 => Reader::Recv,
        2 => Reader::TryRecv(kit::pick(&[1_000u32, 10_000])),
        _ => Reader::Stream,
    };
    let leave_after = if mode != Mode::LockStep && kit::coin(1, 6) { Some(kit::draw_range(1, 5)) } else { None };
    SubPlan { loc, send_buffer, recv_buf: kit::draw_range(1, 2) as usize, mode, reader, leave_after }
}

// ------------------------------------------------------------------------------------------
// Model
// ------------------------------------------------------------------------------------------

#[derive(Clone, Debug, PartialEq)]
enum Ev {
    Ok(u64),
    Lagged,
    Closed,
    Err(String),
}

#[derive(Clone, Copy, Debug, PartialEq)]
enum SubState {
    InFlight,
    Live,
    Left,
    Ended,
    Lost,
}

struct Sub {
    plan: SubPlan,
    join: u64,
    events: Vec<Ev>,
    last_ok: Option<u64>,
    state: SubState,
    faulty: bool,
}

impl Sub {
    fn must_see_all(&self) -> bool {
        self.plan.mode == Mode::LockStep || self.plan.send_buffer >= ROOMY
    }

    fn short_events(&self) -> String {
        self.events
            .iter()
            .map(|e| match e {
                Ev::Ok(n) => format!("{n}"),
                Ev::Lagged => "Lagged".into(),
                Ev::Closed => "Closed".into(),
                Ev::Err(s) => format!("Err({s})"),
            })
            .collect::<Vec<_>>()
            .join(" ")
    }
}

struct World {
    cut: bool,
    pad_mode: u32,
    next_n: u64,
    sender_dropped: bool,
    sender_done: bool,
    sender_waiting_for: Option<u64>,
    ops: std::collections::VecDeque<SOp>,
    subs: BTreeMap<u32, Sub>,
    next_id: u32,
    parked_tx: Vec<broadcast::Sender<BVal, Codec>>,
    inflight: BTreeMap<usize, std::collections::VecDeque<u32>>,
    send_log: Vec<String>,
}

impl World {
    fn describe(&self, id: u32) -> String {
        let s = &self.subs[&id];
        format!(
            "subscriber #{id} at {} (send_buffer {}, RECEIVE_BUFFER {}, {:?}, {:?}, leave_after {:?}, join index {}, values sent so far {}, sender dropped {}): events [{}]",
            EP[s.plan.loc],
            s.plan.send_buffer,
            s.plan.recv_buf,
            s.plan.mode,
            s.plan.reader,
            s.plan.leave_after,
            s.join,
            self.next_n,
            self.sender_dropped,
            s.short_events()
        )
    }

    fn healthy_live(&self) -> usize {
        self.subs.values().filter(|s| !s.faulty && matches!(s.state, SubState::Live | SubState::InFlight)).count()
    }

    fn lockstep_satisfied(&self, n: u64) -> bool {
        self.subs.values().all(|s| {
            s.plan.mode != Mode::LockStep
                || s.join > n
                || !matches!(s.state, SubState::Live | SubState::InFlight)
                || s.last_ok.is_some_and(|a| a >= n)
        })
    }

    fn fail(&self, id: u32, kind: &'static str, what: String) {
        kit::class_violation("c16", kind, format!("c16:{kind}"), format!("{what}; {}", self.describe(id)));
    }

    /// Liveness failure (judged at quiescence).
    fn fail_live(&self, id: u32, kind: &'static str, what: String) {
        kit::class_violation("c16", kind, format!("c16:{kind}"), format!("{what}; {}", self.describe(id)));
    }

    /// Judges the next event of subscriber `id` (safety part, at every event).
    fn event(&mut self, id: u32, ev: Ev, val: Option<&BVal>) {
        let pad_mode = self.pad_mode;
        let next_n = self.next_n;
        let sender_dropped = self.sender_dropped;
        let s = self.subs.get_mut(&id).unwrap();
        let prev_lagged = matches!(s.events.last(), Some(Ev::Lagged));
        let expected_next = s.last_ok.map(|a| a + 1).unwrap_or(s.join);
        let must_see_all = s.must_see_all();
        let faulty = s.faulty;
        let remote = s.plan.loc != A;
        s.events.push(ev.clone());
        if let Ev::Ok(n) = &ev {
            s.last_ok = Some(*n);
        }
        match &ev {
            Ev::Ok(n) => {
                let n = *n;
                if n >= next_n {
                    self.fail(id, "phantom-value", format!("received value {n} which was not sent yet"));
                } else if val.is_some_and(|v| *v != make_val(n, pad_mode)) {
                    self.fail(id, "corrupt-value", format!("value {n} differs from what was sent"));
                } else if n < expected_next {
                    self.fail(id, "duplicate-or-reordered", format!("received {n} but expected at least {expected_next}"));
                } else if n == expected_next && prev_lagged {
                    self.fail(id, "lagged-without-gap", format!("Lagged was reported but the next value {n} is the direct successor"));
                } else if n > expected_next && !prev_lagged {
                    self.fail(id, "gap-without-lagged", format!("values {expected_next}..{} were skipped without a Lagged marker", n - 1));
                } else if prev_lagged {
                    kit::probe("readmitted_after_lag");
                }
            }
            Ev::Lagged => {
                kit::probe("lagged_observed");
                if remote {
                    kit::probe("lagged_observed_remote");
                }
                if prev_lagged {
                    self.fail(id, "double-lagged", "two Lagged markers in a row: the re-admitted subscriber had no slot for a value".into());
                } else if must_see_all {
                    self.fail(id, "lagged-despite-keeping-up", "a lock-step or roomy subscriber was reported as lagging".into());
                }
            }
            Ev::Closed => {
                kit::probe("closed_observed");
                if !faulty && !sender_dropped {
                    self.fail(id, "closed-while-sender-alive", "Closed although the sender exists".into());
                }
            }
            Ev::Err(e) => {
                if faulty {
                    kit::probe("failed_subscriber_saw_error");
                } else {
                    self.fail(id, "unexpected-error", format!("receive error {e} on a healthy path"));
                }
            }
        }
    }

    /// Liveness part, judged at quiescence for a subscriber that has been reading.
    fn tail_check(&self, id: u32, require_closed: bool, phase: &'static str) {
        let s = &self.subs[&id];
        if s.faulty || !matches!(s.state, SubState::Live | SubState::Ended) {
            return;
        }
        let mut evs: &[Ev] = &s.events;
        if let Some((Ev::Closed, head)) = evs.split_last() {
            evs = head;
        } else if require_closed {
            self.fail_live(id, "no-closed-after-sender-drop", format!("{phase}: the subscriber did not receive Closed"));
            return;
        }
        if self.next_n == 0 || s.join >= self.next_n {
            if !evs.is_empty() {
                self.fail(id, "event-without-value", format!("{phase}: events although nothing was sent after the join"));
            }
            return;
        }
        let last = self.next_n - 1;
        match evs.last() {
            Some(Ev::Ok(a)) if *a == last => {
                kit::probe("tail_complete");
                if s.must_see_all() {
                    kit::probe(if s.plan.mode == Mode::LockStep { "lockstep_saw_all" } else { "roomy_saw_all" });
                }
            }
            Some(Ev::Ok(a)) => self.fail_live(id, "tail-lost-without-lagged", format!("{phase}: last event is {a} but {last} was sent and no Lagged followed")),
            Some(Ev::Lagged) => {
                if s.last_ok == Some(last) {
                    self.fail(id, "lagged-without-gap", format!("{phase}: trailing Lagged although the last value {last} was received"));
                } else {
                    kit::probe("tail_lagged");
                }
            }
            Some(_) => {}
            None => self.fail_live(id, "tail-lost-without-lagged", format!("{phase}: no event at all although values {}..={last} were sent", s.join)),
        }
    }
}

struct Links {
    /// Base senders by next endpoint: A→B, A→D (used at A), B→C (used at B).
    ab: Option<Arc<AsyncMutex<base::Sender<Msg>>>>,
    ad: Option<Arc<AsyncMutex<base::Sender<Msg>>>>,
    bc: Option<Arc<AsyncMutex<base::Sender<Msg>>>>,
}

#[derive(Clone)]
struct Env {
    world: Arc<Mutex<World>>,
    links: Arc<Links>,
    notify: Arc<Notify>,
    drain: tokio::sync::watch::Receiver<bool>,
}

impl Env {
    fn w(&self) -> MutexGuard<'_, World> {
        self.world.lock().unwrap_or_else(|e| e.into_inner())
    }

    fn event(&self, id: u32, ev: Ev, val: Option<&BVal>) {
        self.w().event(id, ev, val);
        self.notify.notify_waiters();
        kit::activity();
    }
}

/// Sends the message over the link that leads from `from` towards its destination.
async fn route(env: &Env, from: usize, msg: Msg) -> Result<(), String> {
    let (tx, link) = match (from, msg.dest as usize) {
        (A, D) => (env.links.ad.clone(), 2),
        (A, _) => (env.links.ab.clone(), 0),
        (B, C) => (env.links.bc.clone(), 1),
        _ => (None, 9),
    };
    let Some(tx) = tx else { return Err("no such link".into()) };
    let mut g = tx.lock().await;
    env.w().inflight.entry(link).or_default().push_back(msg.id);
    match g.send(msg).await {
        Ok(()) => {
            kit::activity();
            Ok(())
        }
        Err(e) => Err(format!("{:?}", e.kind)),
    }
}

fn transfer_failed(env: &Env, id: u32, e: String) {
    let mut w = env.w();
    let faulty = w.subs[&id].faulty;
    w.subs.get_mut(&id).unwrap().state = SubState::Lost;
    if faulty {
        kit::probe("transfer_failed_after_link_failure");
    } else {
        kit::abort_run(format!("sending a broadcast receiver failed on a healthy link: {e}"));
    }
}

fn spawn_subscriber(env: Env, id: u32, rx: BRx) {
    match rx {
        BRx::B1(r) => {
            kit::spawn(subscriber::<1>(env, id, r));
        }
        BRx::B2(r) => {
            kit::spawn(subscriber::<2>(env, id, r));
        }
    }
}

enum Src<const N: usize> {
    Plain(broadcast::Receiver<BVal, Codec, N>),
    Stream(ReceiverStream<BVal, Codec, N>),
}

async fn subscriber<const N: usize>(env: Env, id: u32, rx: broadcast::Receiver<BVal, Codec, N>) {
    let plan = env.w().subs[&id].plan.clone();
    if plan.mode == Mode::Stalled {
        let mut drain = env.drain.clone();
        if drain.wait_for(|d| *d).await.is_err() {
            return;
        }
        kit::probe("stalled_subscriber_drains");
    }
    let mut src = match plan.reader {
        Reader::Stream => Src::Stream(ReceiverStream::new(rx)),
        _ => Src::Plain(rx),
    };
    let mut n_events = 0u32;
    loop {
        if kit::is_aborted() {
            return;
        }
        let (ev, val) = match &mut src {
            Src::Plain(rx) => match plan.reader {
                Reader::TryRecv(us) => loop {
                    match rx.try_recv() {
                        Ok(v) => {
                            kit::probe("value_via_try_recv");
                            break (Ev::Ok(v.n), Some(v));
                        }
                        Err(TryRecvError::Empty) => tokio::time::sleep(Duration::from_micros(us as u64)).await,
                        Err(TryRecvError::Lagged) => break (Ev::Lagged, None),
                        Err(TryRecvError::Closed) => break (Ev::Closed, None),
                        Err(e) => break (Ev::Err(e.to_string()), None),
                    }
                    if kit::is_aborted() {
                        return;
                    }
                },
                _ => match rx.recv().await {
                    Ok(v) => (Ev::Ok(v.n), Some(v)),
                    Err(RecvError::Lagged) => (Ev::Lagged, None),
                    Err(RecvError::Closed) => (Ev::Closed, None),
                    Err(e) => (Ev::Err(e.to_string()), None),
                },
            },
            Src::Stream(s) => match s.next().await {
                Some(Ok(v)) => {
                    kit::probe("value_via_stream");
                    (Ev::Ok(v.n), Some(v))
                }
                Some(Err(StreamError::Lagged)) => (Ev::Lagged, None),
                Some(Err(e)) => (Ev::Err(e.to_string()), None),
                None => (Ev::Closed, None),
            },
        };
        n_events += 1;
        let fin = matches!(ev, Ev::Closed | Ev::Err(_));
        env.event(id, ev, val.as_ref());
        if fin {
            let mut w = env.w();
            let s = w.subs.get_mut(&id).unwrap();
            if s.state == SubState::Live {
                s.state = SubState::Ended;
            }
            return;
        }
        if plan.leave_after.is_some_and(|k| n_events >= k) {
            env.w().subs.get_mut(&id).unwrap().state = SubState::Left;
            kit::probe("subscriber_left");
            drop(src);
            env.notify.notify_waiters();
            kit::activity();
            return;
        }
        if let Mode::Slow(us) = plan.mode {
            tokio::time::sleep(Duration::from_micros(us as u64)).await;
        }
    }
}

fn do_subscribe(env: &Env, tx: &broadcast::Sender<BVal, Codec>, plan: SubPlan) {
    let rx = match plan.recv_buf {
        1 => BRx::B1(tx.subscribe::<1>(plan.send_buffer)),
        _ => BRx::B2(tx.subscribe::<2>(plan.send_buffer)),
    };
    let (id, mid_stream) = {
        let mut w = env.w();
        let id = w.next_id;
        w.next_id += 1;
        let join = w.next_n;
        let faulty = w.cut && plan.loc == D;
        let state = if plan.loc == A { SubState::Live } else { SubState::InFlight };
        w.subs.insert(id, Sub { plan: plan.clone(), join, events: Vec::new(), last_ok: None, state, faulty });
        (id, join > 0 && !w.ops.is_empty())
    };
    if mid_stream {
        kit::probe("joined_mid_stream");
    }
    if plan.loc == A {
        spawn_subscriber(env.clone(), id, rx);
    } else {
        // The transfer runs concurrently with further sends.
        let env2 = env.clone();
        kit::spawn(async move {
            if let Err(e) = route(&env2, A, Msg { dest: plan.loc as u8, id, rx }).await {
                transfer_failed(&env2, id, e);
            }
        });
    }
}

fn do_send(env: &Env, tx: &broadcast::Sender<BVal, Codec>) -> u64 {
    let (n, v) = {
        let mut w = env.w();
        let n = w.next_n;
        w.next_n += 1;
        (n, make_val(n, w.pad_mode))
    };
    let s0 = kit::seq();
    let res = tx.send(v);
    let s1 = kit::seq();
    let mut w = env.w();
    if s1 != s0 + 1 {
        kit::class_violation("c16", "send-not-synchronous", "c16:send-not-synchronous", format!("event sequence advanced by {} during send({n})", s1 - s0));
    }
    kit::probe("value_sent");
    match res {
        Ok(_) => {
            w.send_log.push(format!("{n}:ok"));
            if w.subs.values().any(|s| s.faulty && s.state == SubState::Lost || s.faulty && s.events.iter().any(|e| matches!(e, Ev::Err(_) | Ev::Closed))) {
                kit::probe("send_ok_despite_failed_subscriber");
            }
        }
        Err(e) => {
            let e = e.without_item();
            w.send_log.push(format!("{n}:{e}"));
            kit::probe("send_returned_error");
            let live = w.healthy_live();
            if live > 0 {
                let who: Vec<String> =
                    w.subs.iter().filter(|(_, s)| !s.faulty && matches!(s.state, SubState::Live | SubState::InFlight)).map(|(id, _)| w.describe(*id)).collect();
                kit::class_violation(
                    "c16",
                    "send-failed-with-live-subscribers",
                    "c16:send-failed-with-live-subscribers",
                    format!("send({n}) returned `{e}` although {live} subscriber(s) on healthy paths exist: {}", who.join(" | ")),
                );
            }
        }
    }
    n
}

async fn wait_lockstep(env: &Env, n: u64) {
    loop {
        let notified = env.notify.notified();
        tokio::pin!(notified);
        notified.as_mut().enable();
        {
            let mut w = env.w();
            if w.lockstep_satisfied(n) {
                w.sender_waiting_for = None;
                return;
            }
            w.sender_waiting_for = Some(n);
        }
        if kit::is_aborted() {
            return;
        }
        notified.await;
    }
}

async fn sender_actor(env: Env, tx: broadcast::Sender<BVal, Codec>) {
    let tx2 = tx.clone();
    let mut flip = false;
    loop {
        if kit::is_aborted() {
            return;
        }
        let op = env.w().ops.pop_front();
        let Some(op) = op else { break };
        match op {
            SOp::Send => {
                flip = !flip;
                let n = do_send(&env, if flip { &tx } else { &tx2 });
                wait_lockstep(&env, n).await;
            }
            SOp::Burst(k) => {
                for _ in 0..k {
                    let n = do_send(&env, &tx);
                    wait_lockstep(&env, n).await;
                }
                kit::probe("burst_sent");
            }
            SOp::Pause(us) => tokio::time::sleep(Duration::from_micros(us as u64)).await,
            SOp::Subscribe(plan) => do_subscribe(&env, &tx, plan),
        }
        kit::activity();
    }
    let mut w = env.w();
    w.parked_tx.push(tx);
    w.parked_tx.push(tx2);
    w.sender_done = true;
    kit::activity();
}

async fn router(env: Env, here: usize, link: usize, mut rx: base::Receiver<Msg>) {
    loop {
        if kit::is_aborted() {
            return;
        }
        let res = rx.recv().await;
        kit::activity();
        match res {
            Ok(Some(msg)) => {
                let expected = env.w().inflight.entry(link).or_default().pop_front();
                if expected != Some(msg.id) {
                    kit::abort_run(format!("link {link}: received transfer {} but expected {expected:?}", msg.id));
                    return;
                }
                if msg.dest as usize == here {
                    env.w().subs.get_mut(&msg.id).unwrap().state = SubState::Live;
                    kit::probe("remote_subscriber_arrived");
                    if here == C {
                        kit::probe("remote_subscriber_arrived_over_2_hops");
                    }
                    spawn_subscriber(env.clone(), msg.id, msg.rx);
                } else {
                    let id = msg.id;
                    if let Err(e) = route(&env, here, msg).await {
                        transfer_failed(&env, id, e);
                    }
                }
            }
            Ok(None) => return,
            Err(e) if e.is_final() => return,
            Err(e) => {
                kit::abort_run(format!("link {link}: unexpected non-final receive error {e}"));
                return;
            }
        }
    }
}

#[derive(Clone, Copy)]
struct Opts {
    cut: bool,
}

async fn run(opts: Opts) {
    kit::draw_sched_policy();
    kit::set_port_space(if kit::coin(1, 2) { 0 } else { 256 });
    let pad_mode = kit::pick(&[0u32, 0, 0, 1, 2]);
    let with_c = kit::coin(1, 2);
    let with_d = opts.cut || kit::coin(1, 4);

    let mut links = Links { ab: None, ad: None, bc: None };
    let mut routers = Vec::new();
    let mut conns = Vec::new();
    let mut ctls: BTreeMap<&'static str, LinkCtl> = BTreeMap::new();
    let mut cfg_txt = Vec::new();
    let mut spare = Vec::new();
    for (name, on, far) in [("AB", true, B), ("BC", with_c, C), ("AD", with_d, D)] {
        if !on {
            continue;
        }
        let mut cfg_a = mux::draw_cfg(CfgProfile::Tiny);
        let mut cfg_b = if kit::coin(1, 3) { mux::draw_cfg(CfgProfile::Tiny) } else { cfg_a.clone() };
        for c in [&mut cfg_a, &mut cfg_b] {
            c.max_ports = c.max_ports.max(16);
            c.max_received_ports = c.max_received_ports.max(4);
            c.connection_timeout = None;
        }
        let link_cfg = LinkCfg::draw();
        cfg_txt.push(json!({"link": name, "cfg_near": format!("{cfg_a:?}"), "cfg_far": format!("{cfg_b:?}"), "net": format!("{link_cfg:?}")}));
        let pair = match mux::connect_rch::<Msg, Msg>(name, cfg_a, cfg_b, link_cfg, MonitorMode::Full).await {
            Ok(p) => p,
            Err(e) => {
                kit::abort_run(format!("setup failed: {e}"));
                return;
            }
        };
        let mux::RchPair { a_tx, a_rx, b_tx, b_rx, conn_a, conn_b, ctl } = pair;
        let tx = Some(Arc::new(AsyncMutex::new(a_tx)));
        let link = match name {
            "AB" => {
                links.ab = tx;
                0
            }
            "BC" => {
                links.bc = tx;
                1
            }
            _ => {
                links.ad = tx;
                2
            }
        };
        routers.push((far, link, b_rx));
        spare.push((b_tx, a_rx));
        conns.push(conn_a);
        conns.push(conn_b);
        ctls.insert(name, ctl);
    }
    let mut locs = vec![A, A, B, B];
    if with_c {
        locs.extend([C, C]);
    }
    if with_d {
        locs.extend([D, D]);
    }

    // Plan: one or two subscribers up front, then sends interleaved with further joins.
    let mut ops = std::collections::VecDeque::new();
    let mut n_subs = 0;
    for _ in 0..kit::draw_range(1, 2) {
        ops.push_back(SOp::Subscribe(draw_sub_plan(&locs, opts.cut)));
        n_subs += 1;
    }
    if opts.cut {
        // Make sure a healthy subscriber and one behind the faulty link exist.
        let mut p = draw_sub_plan(&[D], true);
        p.leave_after = None;
        ops.push_back(SOp::Subscribe(p));
        let mut p = draw_sub_plan(&[A, B], true);
        p.leave_after = None;
        ops.push_back(SOp::Subscribe(p));
        n_subs += 2;
    }
    let mut values = 0u64;
    for _ in 0..kit::draw_range(2, 16) {
        let op = match kit::draw(10) {
            0..=4 => SOp::Send,
            5 | 6 => SOp::Burst(kit::draw_range(2, 8)),
            7 | 8 => SOp::Pause(kit::pick(&[10u32, 300, 3_000, 30_000])),
            _ => {
                if n_subs >= 4 {
                    SOp::Send
                } else {
                    n_subs += 1;
                    SOp::Subscribe(draw_sub_plan(&locs, opts.cut))
                }
            }
        };
        let add = match &op {
            SOp::Send => 1,
            SOp::Burst(k) => *k as u64,
            _ => 0,
        };
        if values + add > MAX_VALUES {
            continue;
        }
        values += add;
        ops.push_back(op);
    }
    let drain_first = kit::coin(1, 2);

    let mut fault_txt = String::from("none");
    if opts.cut {
        let ctl = &ctls["AD"];
        let dir = kit::draw(2) as usize;
        let at = ctl.sent(dir) + kit::draw(80) as u64;
        let kind = kit::pick(&[FaultKind::Eof, FaultKind::SinkError, FaultKind::StreamError]);
        ctl.add_fault(Fault { dir, at, kind, heal_after_us: None });
        fault_txt = format!("link AD dir {dir} frame {at}: {kind:?}");
    } else if kit::coin(1, 4) {
        let name = kit::pick(&ctls.keys().copied().collect::<Vec<_>>());
        let dir = kit::draw(2) as usize;
        let after_us = kit::pick(&[0u64, 200, 5_000, 40_000]);
        let dur_us = kit::pick(&[1_000u64, 30_000, 400_000]);
        let ctl = ctls[name].clone();
        fault_txt = format!("link {name} dir {dir}: stall after {after_us}us for {dur_us}us");
        kit::spawn(async move {
            tokio::time::sleep(Duration::from_micros(after_us)).await;
            ctl.stall_now(dir, Some(Duration::from_micros(dur_us)));
        });
    }

    kit::set_sample(json!({
        "pad_mode": pad_mode, "links": cfg_txt, "fault": fault_txt,
        "plan": ops.iter().map(|o| format!("{o:?}")).collect::<Vec<_>>(),
        "final_phase": if drain_first { "stalled subscribers drain, then the sender is dropped" } else { "the sender is dropped, then stalled subscribers drain" },
    }));
    kit::mix_plan(kit::hash_str(&format!("{ops:?}{drain_first}{fault_txt}{pad_mode}")));

    let world = World {
        cut: opts.cut,
        pad_mode,
        next_n: 0,
        sender_dropped: false,
        sender_done: false,
        sender_waiting_for: None,
        ops,
        subs: BTreeMap::new(),
        next_id: 1,
        parked_tx: Vec::new(),
        inflight: BTreeMap::new(),
        send_log: Vec::new(),
    };
    let (drain_tx, drain_rx) = tokio::sync::watch::channel(false);
    let env = Env { world: Arc::new(Mutex::new(world)), links: Arc::new(links), notify: Arc::new(Notify::new()), drain: drain_rx };
    let mut router_handles = Vec::new();
    for (here, link, rx) in routers {
        router_handles.push(kit::spawn(router(env.clone(), here, link, rx)));
    }
    let tx = broadcast::Sender::<BVal, Codec>::new();
    kit::spawn(sender_actor(env.clone(), tx));

    // Phase 1: the plan runs until quiescence.
    kit::settle().await;
    if kit::is_aborted() {
        return;
    }
    {
        let w = env.w();
        if !w.sender_done {
            if let Some(n) = w.sender_waiting_for {
                let who: Vec<String> = w
                    .subs
                    .iter()
                    .filter(|(_, s)| s.plan.mode == Mode::LockStep && s.join <= n && !s.last_ok.is_some_and(|a| a >= n))
                    .map(|(id, _)| w.describe(*id))
                    .collect();
                kit::class_violation(
                    "c16",
                    "lockstep-subscriber-missed-value",
                    "c16:lockstep-subscriber-missed-value",
                    format!("at quiescence value {n} has not reached the lock-step subscriber(s): {}", who.join(" | ")),
                );
            } else {
                kit::abort_run("sender actor not finished at quiescence");
                return;
            }
        }
        if let Some((id, _)) = w.subs.iter().find(|(_, s)| !s.faulty && s.state == SubState::InFlight) {
            kit::abort_run(format!("subscriber #{id} still in flight at quiescence on healthy links"));
            return;
        }
        if w.next_n >= 4 && w.subs.len() >= 2 {
            kit::set_nontrivial();
        }
        if !kit::has_violation() {
            for (id, s) in &w.subs {
                if s.plan.mode != Mode::Stalled {
                    w.tail_check(*id, false, "after the plan");
                }
            }
        }
    }

    // Phase 2: drain the stalled subscribers and drop the sender, in drawn order.
    if !kit::has_violation() {
        for step in 0..2 {
            if (step == 0) == drain_first {
                let _ = drain_tx.send(true);
            } else {
                let txs = std::mem::take(&mut env.w().parked_tx);
                env.w().sender_dropped = true;
                drop(txs);
                kit::probe("sender_dropped");
            }
            kit::settle().await;
            if kit::is_aborted() {
                return;
            }
            if step == 0 && drain_first && !kit::has_violation() {
                let w = env.w();
                for id in w.subs.keys() {
                    w.tail_check(*id, false, "after draining");
                }
            }
        }
        if !kit::has_violation() {
            let w = env.w();
            for id in w.subs.keys() {
                w.tail_check(*id, true, "after the sender was dropped");
            }
            if w.subs.values().any(|s| !s.faulty && matches!(s.events.last(), Some(Ev::Closed))) {
                kit::probe("closed_at_end");
            }
        }
    }

    drop(spare);
    for h in router_handles {
        h.abort();
    }
    for c in conns {
        c.abort();
    }
}

fn sc_healthy() -> ScenarioFuture {
    Box::pin(run(Opts { cut: false }))
}

fn sc_cut() -> ScenarioFuture {
    Box::pin(run(Opts { cut: true }))
}


pub fn checks() -> Vec<Check> {
    vec![Check {
        id: "C16",
        level: "exploration",
        classes: vec!["c16"],
        scenarios: vec![
            Scenario { name: "broadcast-healthy", weight: 3, max_polls: 400_000, max_virtual_secs: 48 * 3600, run: sc_healthy },
            Scenario { name: "broadcast-failed-subscriber", weight: 1, max_polls: 400_000, max_virtual_secs: 48 * 3600, run: sc_cut },
        ],
        quick: (5_000, 50),
        thorough: (300_000, 600),
        rule: "each evaluation is one seeded run: sender endpoint A plus up to three remote endpoints (drawn configurations, link profiles, scheduler policy), \
one broadcast sender (and a clone) sending up to 30 values 0,1,2,.. singly or in bursts with pauses, 1..4 subscribers (local, 1 hop, 2 hops forwarded, behind the link that is cut) \
with send_buffer 1..3 or roomy, RECEIVE_BUFFER 1..2, reading by recv / try_recv / stream, lock-step / eager / slow / stalled, joining mid-stream, leaving after k events; \
final phase drains the stalled subscribers and drops the sender in drawn order; non-trivial = at least 4 values and 2 subscribers; distinct = distinct (plan hash, poll-order hash) pairs",
        assumptions: vec![
            "values are numbered by the send call, so gaps are decidable from consecutive values and the join index",
            "lock-step = the sender issues the next value only after the subscriber recorded the previous one; roomy = send_buffer larger than the number of values",
            "liveness (tail delivered or Lagged, Closed after drop) is judged only after kit::settle() and only for subscribers on healthy paths",
            "'at most one Lagged per gap' follows from the reserved slot on re-admission (sender.rs) and is checked in addition to the stated iff",
        ],
        required_probes: vec![
            "lagged_observed",
            "lagged_observed_remote",
            "readmitted_after_lag",
            "tail_lagged",
            "lockstep_saw_all",
            "roomy_saw_all",
            "remote_subscriber_arrived",
            "remote_subscriber_arrived_over_2_hops",
            "joined_mid_stream",
            "stalled_subscriber_drains",
            "subscriber_left",
            "value_via_try_recv",
            "value_via_stream",
            "send_ok_despite_failed_subscriber",
            "closed_at_end",
        ],
        real_components: "remoc::rch::broadcast (Sender incl. lag/re-admission tasks, Receiver, ReceiverStream), remoc::rch::mpsc (local queue, remote forwarding), remoc::rch::base, default codec, remoc::chmux, Connect::framed, tokio::sync",
        stub_components: STUB_NET,
    }]
}
