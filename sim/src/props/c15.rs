//! C15 — watch channels converge to the latest value and never go backwards.
//!
//! A chain of 2..4 real endpoints E0 – E1 – E2 – E3 (one `remoc::Connect::framed` connection per
//! link). A watch channel is created at E0. A sender actor executes a drawn plan (send /
//! send_replace / send_modify, bursts, pauses, `subscribe`, moving the sender half one hop to the
//! right, finally dropping the sender right after the last send or holding it). Observer actors
//! own one receiver each and execute drawn op lists (borrow, borrow_and_update, has_changed,
//! changed, wait_for, stream, clone, sending the receiver or a clone to any other endpoint – one to
//! three hops, forwards and backwards –, leaving). Every observation goes through `World::observe`.
//!
//! Oracle (see `World::observe`, `World::closed`, `converge_check`, `closure_check`):
//!  * every observed value was sent (byte-exact), per receiver lineage the values never decrease –
//!    also across clone and across a transfer to another endpoint;
//!  * a receiver that shares the sender's cell observes exactly the last value sent;
//!  * at quiescence on healthy links every live receiver shows the last value sent (for a value
//!    that cannot be deserialised: the matching non-final receive error), including a value sent
//!    in the same poll in which the sender is dropped;
//!  * `changed()` / `wait_for()` / the stream report closure only after the sender was dropped and
//!    only with the last value visible; after the sender is gone closure reaches every receiver;
//!  * `send` fails only when no receiver handle exists any more (healthy scenario).

use std::{
    collections::{BTreeMap, BTreeSet, VecDeque},
    future::Future,
    pin::Pin,
    sync::{Arc, Mutex, MutexGuard},
    time::Duration,
};

use futures::StreamExt;
use remoc::rch::{
    base,
    watch::{self, ReceiverStream},
};
use serde::{Deserialize, Deserializer, Serialize, Serializer, de};
use serde_json::json;
use tokio::sync::Mutex as AsyncMutex;

use crate::{
    harness::{Check, Scenario, ScenarioFuture},
    kit,
    mux::{self, CfgProfile},
    net::{Fault, FaultKind, LinkCfg, LinkCtl},
    proto::MonitorMode,
    props::STUB_NET,
};

const LINK_NAMES: [&str; 3] = ["L0", "L1", "L2"];
const SENDER_TAG: u32 = u32::MAX;
const MAX_VALUES: u64 = 20;

// ------------------------------------------------------------------------------------------
// Value type
// ------------------------------------------------------------------------------------------

/// Watched value. `poison` values serialise fine but fail to deserialise (non-final receive error).
#[derive(Clone, Debug, PartialEq)]
pub struct Val {
    pub n: u64,
    pub poison: bool,
    pub pad: Vec<u8>,
}

impl Serialize for Val {
    fn serialize<S: Serializer>(&self, s: S) -> Result<S::Ok, S::Error> {
        (self.n, self.poison, &self.pad).serialize(s)
    }
}

impl<'de> Deserialize<'de> for Val {
    fn deserialize<D: Deserializer<'de>>(d: D) -> Result<Self, D::Error> {
        let (n, poison, pad) = <(u64, bool, Vec<u8>)>::deserialize(d)?;
        if poison {
            return Err(de::Error::custom("injected deserialization failure (poison value)"));
        }
        Ok(Val { n, poison, pad })
    }
}

fn make_val(n: u64, poison: bool, pad_mode: u32) -> Val {
    let len = match pad_mode {
        0 => 0,
        1 => (n % 4) as usize * 9,
        _ => 40 + (n % 3) as usize * 30,
    };
    Val { n, poison, pad: mux::payload(15, n as u32, len) }
}

#[derive(Serialize, Deserialize)]
enum Payload {
    Rx(watch::Receiver<Val>),
    Tx(watch::Sender<Val>),
}

#[derive(Serialize, Deserialize)]
struct Msg {
    dest: u8,
    tag: u32,
    payload: Payload,
}

// ------------------------------------------------------------------------------------------
// Plans
// ------------------------------------------------------------------------------------------

#[derive(Clone, Copy, Debug, PartialEq)]
enum SendKind {
    Send,
    Replace,
    Modify,
}

#[derive(Clone, Debug)]
enum SOp {
    Send(SendKind, bool),
    Burst(u32),
    Pause(u32),
    Subscribe,
    Move,
}

#[derive(Clone, Debug)]
enum ObsOp {
    Borrow,
    BorrowUpdate,
    HasChanged,
    Changed(u32),
    ChangedLoop(u32, u32),
    WaitFor(u64, u32),
    Stream(u32, u32),
    Pause(u32),
    Clone,
    Send { raw: u32, clone: bool },
    Leave,
}

fn draw_timeout_ms() -> u32 {
    kit::pick(&[1u32, 20, 200])
}

fn draw_obs_ops() -> VecDeque<ObsOp> {
    let n = kit::draw_range(1, 6);
    (0..n)
        .map(|_| match kit::draw(13) {
            0 => ObsOp::Borrow,
            1 => ObsOp::BorrowUpdate,
            2 => ObsOp::Changed(draw_timeout_ms()),
            3 => ObsOp::ChangedLoop(kit::draw_range(2, 6), draw_timeout_ms()),
            4 => ObsOp::WaitFor(kit::draw_range(1, 4) as u64, draw_timeout_ms()),
            5 => ObsOp::Stream(kit::draw_range(1, 5), draw_timeout_ms()),
            6 => ObsOp::Pause(kit::pick(&[10u32, 500, 5_000, 50_000])),
            7 => ObsOp::HasChanged,
            8 => ObsOp::Clone,
            9..=11 => ObsOp::Send { raw: kit::draw(6), clone: kit::coin(1, 2) },
            _ => {
                if kit::coin(1, 3) {
                    ObsOp::Leave
                } else {
                    ObsOp::Borrow
                }
            }
        })
        .collect()
}

fn draw_sender_plan(poison: bool) -> (VecDeque<SOp>, bool) {
    let n = kit::draw_range(2, 14);
    let mut values = 0u64;
    let mut ops = VecDeque::new();
    let kind = || kit::pick(&[SendKind::Send, SendKind::Send, SendKind::Replace, SendKind::Modify]);
    for _ in 0..n {
        let op = match kit::draw(10) {
            0..=4 => SOp::Send(kind(), poison && kit::coin(1, 4)),
            5 => SOp::Burst(kit::draw_range(2, 5)),
            6 | 7 => SOp::Pause(kit::pick(&[10u32, 300, 3_000, 30_000])),
            8 => SOp::Subscribe,
            _ => SOp::Move,
        };
        let add = match &op {
            SOp::Send(..) => 1,
            SOp::Burst(k) => *k as u64,
            _ => 0,
        };
        if values + add + 1 > MAX_VALUES {
            continue;
        }
        values += add;
        ops.push_back(op);
    }
    // Frequently end with a send so that "drop right after send" is raced.
    if kit::coin(2, 3) {
        ops.push_back(SOp::Send(kind(), false));
    }
    let drop_now = kit::coin(1, 2);
    (ops, drop_now)
}

// ------------------------------------------------------------------------------------------
// Model
// ------------------------------------------------------------------------------------------

#[derive(Clone, Copy, Debug, PartialEq)]
enum ObsState {
    Running,
    InFlight,
    Parked,
    Left,
    Lost,
}

struct Obs {
    loc: usize,
    /// Cell on the sender's path this lineage was taken from.
    anchor: usize,
    /// Links crossed by transfers of this lineage.
    extra: BTreeSet<usize>,
    floor: u64,
    ops: VecDeque<ObsOp>,
    state: ObsState,
    closed_seen: bool,
    hist: Vec<String>,
}

#[derive(Clone, Copy)]
struct Opts {
    poison: bool,
    cut: bool,
}

struct World {
    opts: Opts,
    hops: usize,
    pad_mode: u32,
    sent: BTreeMap<u64, Val>,
    last: u64,
    next_n: u64,
    poison_sent: bool,
    /// Endpoint of the sender half; for a sender in flight the destination.
    sender_pos: usize,
    sender_in_flight: bool,
    sender_dropped: bool,
    sender_done: bool,
    sender_ops: VecDeque<SOp>,
    drop_now: bool,
    parked_tx: Option<watch::Sender<Val>>,
    obs: BTreeMap<u32, Obs>,
    next_id: u32,
    parked: BTreeMap<u32, watch::Receiver<Val>>,
    cut: Vec<bool>,
    inflight: BTreeMap<(usize, bool), VecDeque<u32>>,
    transfers_left: u32,
    observers_left: u32,
    transfers_done: u32,
}

impl World {
    fn deps(&self, o: &Obs) -> BTreeSet<usize> {
        let mut d = o.extra.clone();
        for j in o.anchor..self.sender_pos {
            d.insert(j);
        }
        d
    }

    fn affected(&self, o: &Obs) -> bool {
        self.deps(o).iter().any(|j| self.cut[*j])
    }

    /// No link between the sender's cell and this receiver.
    fn pathless(&self, o: &Obs) -> bool {
        o.extra.is_empty() && o.anchor >= self.sender_pos
    }

    fn live(&self) -> usize {
        self.obs.values().filter(|o| matches!(o.state, ObsState::Running | ObsState::InFlight | ObsState::Parked)).count()
    }

    fn describe(&self, id: u32) -> String {
        let o = &self.obs[&id];
        format!(
            "receiver #{id} at E{} (anchor cell E{}, transfer links {:?}, sender at E{}{}, sender dropped {}, last sent {}{}); recent: [{}]",
            o.loc,
            o.anchor,
            o.extra,
            self.sender_pos,
            if self.sender_in_flight { " (in flight)" } else { "" },
            self.sender_dropped,
            self.last,
            if self.sent[&self.last].poison { " (poison)" } else { "" },
            o.hist.iter().rev().take(14).rev().cloned().collect::<Vec<_>>().join(", ")
        )
    }

    fn new_obs(&mut self, loc: usize, anchor: usize, extra: BTreeSet<usize>, floor: u64, ops: VecDeque<ObsOp>, state: ObsState) -> u32 {
        let id = self.next_id;
        self.next_id += 1;
        self.obs.insert(id, Obs { loc, anchor, extra, floor, ops, state, closed_seen: false, hist: Vec::new() });
        id
    }

    /// Judges one observation of receiver `id`.
    fn observe(&mut self, id: u32, res: &Result<Val, watch::RecvError>, how: &'static str) {
        let (affected, pathless) = {
            let o = &self.obs[&id];
            (self.affected(o), self.pathless(o))
        };
        let floor = self.obs[&id].floor;
        {
            let o = self.obs.get_mut(&id).unwrap();
            let txt = match res {
                Ok(v) => format!("{how}={}", v.n),
                Err(e) => format!("{how}=Err({e})"),
            };
            if o.hist.len() < 200 {
                o.hist.push(txt);
            }
        }
        match res {
            Ok(v) => {
                match self.sent.get(&v.n) {
                    None => {
                        let d = format!("observed value {} which was never sent; {}", v.n, self.describe(id));
                        kit::class_violation("c15", "phantom-value", "c15:phantom-value", d);
                        return;
                    }
                    Some(s) if s != v => {
                        let d = format!("observed value {} differs from the value sent; {}", v.n, self.describe(id));
                        kit::class_violation("c15", "corrupt-value", "c15:corrupt-value", d);
                        return;
                    }
                    _ => {}
                }
                if v.n < floor {
                    let d = format!("observed {} after {} (via {how}); {}", v.n, floor, self.describe(id));
                    kit::class_violation("c15", "went-backwards", "c15:went-backwards", d);
                    return;
                }
                if pathless && v.n != self.last {
                    let d = format!("receiver in the sender's cell observed {} but last sent is {}; {}", v.n, self.last, self.describe(id));
                    kit::class_violation("c15", "stale-value", "c15:local-not-latest", d);
                    return;
                }
                if v.n > floor + 1 {
                    kit::probe("intermediate_values_skipped");
                }
                if !pathless && v.n > floor {
                    kit::probe("remote_update_observed");
                }
                self.obs.get_mut(&id).unwrap().floor = v.n;
            }
            Err(e) => {
                if affected {
                    kit::probe("error_value_after_link_failure");
                } else if !pathless
                    && self.poison_sent
                    && matches!(e, watch::RecvError::RemoteReceive(be) if !be.is_final())
                {
                    kit::probe("non_final_error_value_observed");
                } else {
                    let d = format!("receiver holds error value {e} on healthy links; {}", self.describe(id));
                    kit::class_violation("c15", "unexpected-error-value", "c15:unexpected-error-value", d);
                }
            }
        }
    }

    /// What a receiver must show once everything sent has arrived.
    fn matches_final(&self, id: u32, cur: &Result<Val, watch::RecvError>) -> bool {
        let o = &self.obs[&id];
        let last = &self.sent[&self.last];
        if last.poison && !self.pathless(o) {
            matches!(cur, Err(watch::RecvError::RemoteReceive(be)) if !be.is_final())
        } else {
            matches!(cur, Ok(v) if v == last)
        }
    }

    /// Receiver `id` was told that the channel is closed while holding `cur`.
    fn closed(&mut self, id: u32, cur: &Result<Val, watch::RecvError>, how: &'static str) {
        self.observe(id, cur, how);
        kit::probe("closed_observed");
        let affected = self.affected(&self.obs[&id]);
        self.obs.get_mut(&id).unwrap().closed_seen = true;
        if affected {
            return;
        }
        if !self.sender_dropped {
            let d = format!("closure reported ({how}) although the sender is alive; {}", self.describe(id));
            kit::class_violation("c15", "closed-while-sender-alive", "c15:closed-while-sender-alive", d);
        } else if !self.matches_final(id, cur) {
            let d = format!("closure reported ({how}) before the last value was visible; {}", self.describe(id));
            kit::class_violation("c15", "closed-before-last-value", "c15:closed-before-last-value", d);
        } else {
            kit::probe("closed_after_last_value");
        }
    }
}

struct Ep {
    left: Option<Arc<AsyncMutex<base::Sender<Msg>>>>,
    right: Option<Arc<AsyncMutex<base::Sender<Msg>>>>,
}

#[derive(Clone)]
struct Env {
    world: Arc<Mutex<World>>,
    eps: Arc<Vec<Ep>>,
}

impl Env {
    fn w(&self) -> MutexGuard<'_, World> {
        self.world.lock().unwrap_or_else(|e| e.into_inner())
    }
}

fn links_between(a: usize, b: usize) -> impl Iterator<Item = usize> {
    a.min(b)..a.max(b)
}

/// Sends a message one hop towards its destination.
async fn route(env: &Env, from: usize, msg: Msg) -> Result<(), String> {
    let right = msg.dest as usize > from;
    let link = if right { from } else { from - 1 };
    let tx = if right { env.eps[from].right.clone() } else { env.eps[from].left.clone() };
    let Some(tx) = tx else { return Err("no such link".into()) };
    let mut g = tx.lock().await;
    env.w().inflight.entry((link, right)).or_default().push_back(msg.tag);
    match g.send(msg).await {
        Ok(()) => {
            kit::activity();
            Ok(())
        }
        Err(e) => Err(format!("{:?}", e.kind)),
    }
}

type BoxFut = Pin<Box<dyn Future<Output = ()> + Send>>;

fn spawn_observer(env: Env, id: u32, rx: watch::Receiver<Val>) {
    let fut: BoxFut = Box::pin(observer(env, id, rx));
    kit::spawn(fut);
}

fn spawn_sender(env: Env, tx: watch::Sender<Val>, loc: usize) {
    let fut: BoxFut = Box::pin(sender_actor(env, tx, loc));
    kit::spawn(fut);
}

fn cur(rx: &watch::Receiver<Val>) -> Result<Val, watch::RecvError> {
    rx.borrow().map(|r| (*r).clone())
}

fn ms(t: u32) -> Duration {
    Duration::from_millis(t as u64)
}

/// One `changed()` step of a consumer loop. Returns false when the loop should stop.
async fn changed_step(env: &Env, id: u32, rx: &mut watch::Receiver<Val>, t: u32) -> bool {
    match kit::within(ms(t), rx.changed()).await {
        None => {
            kit::probe("changed_timed_out");
            false
        }
        Some(Ok(())) => {
            let r = rx.borrow_and_update().map(|r| (*r).clone());
            env.w().observe(id, &r, "changed");
            kit::probe("observed_via_changed");
            true
        }
        Some(Err(_)) => {
            let r = cur(rx);
            env.w().closed(id, &r, "changed->closed");
            false
        }
    }
}

async fn observer(env: Env, id: u32, mut rx: watch::Receiver<Val>) {
    loop {
        if kit::is_aborted() {
            return;
        }
        let (op, loc) = {
            let mut w = env.w();
            let o = w.obs.get_mut(&id).unwrap();
            (o.ops.pop_front(), o.loc)
        };
        let Some(op) = op else {
            let mut w = env.w();
            w.obs.get_mut(&id).unwrap().state = ObsState::Parked;
            w.parked.insert(id, rx);
            kit::activity();
            return;
        };
        match op {
            ObsOp::Borrow => {
                let r = cur(&rx);
                env.w().observe(id, &r, "borrow");
            }
            ObsOp::BorrowUpdate => {
                let r = rx.borrow_and_update().map(|r| (*r).clone());
                env.w().observe(id, &r, "borrow_and_update");
            }
            ObsOp::HasChanged => {
                // `has_changed` reports closure before an unseen value (tokio semantics): no oracle.
                let _ = rx.has_changed();
            }
            ObsOp::Changed(t) => {
                changed_step(&env, id, &mut rx, t).await;
            }
            ObsOp::ChangedLoop(k, t) => {
                for _ in 0..k {
                    if !changed_step(&env, id, &mut rx, t).await {
                        break;
                    }
                }
            }
            ObsOp::WaitFor(delta, t) => {
                let target = env.w().obs[&id].floor + delta;
                let res = match kit::within(ms(t), rx.wait_for(|v| v.n >= target)).await {
                    None => None,
                    Some(Ok(r)) => Some(Ok((*r).clone())),
                    Some(Err(e)) => Some(Err(e)),
                };
                match res {
                    None => kit::probe("wait_for_timed_out"),
                    Some(Ok(v)) => {
                        kit::probe("observed_via_wait_for");
                        if v.n < target {
                            let d = format!("wait_for(n >= {target}) returned {}; {}", v.n, env.w().describe(id));
                            kit::class_violation("c15", "wait-for-unsatisfied", "c15:wait-for-unsatisfied", d);
                        }
                        env.w().observe(id, &Ok(v), "wait_for");
                    }
                    Some(Err(watch::WaitForError::Recv(e))) => env.w().observe(id, &Err(e), "wait_for"),
                    Some(Err(watch::WaitForError::Closed)) => {
                        let r = cur(&rx);
                        env.w().closed(id, &r, "wait_for->closed");
                    }
                }
            }
            ObsOp::Stream(k, t) => {
                let mut s = ReceiverStream::new(rx.clone());
                for _ in 0..k {
                    match kit::within(ms(t), s.next()).await {
                        None => break,
                        Some(Some(r)) => {
                            kit::probe("observed_via_stream");
                            env.w().observe(id, &r, "stream");
                        }
                        Some(None) => {
                            let r = cur(&rx);
                            env.w().closed(id, &r, "stream->end");
                            break;
                        }
                    }
                }
            }
            ObsOp::Pause(us) => tokio::time::sleep(Duration::from_micros(us as u64)).await,
            ObsOp::Clone => {
                let child = {
                    let mut w = env.w();
                    if w.observers_left == 0 {
                        None
                    } else {
                        w.observers_left -= 1;
                        let (anchor, extra, floor) = {
                            let o = &w.obs[&id];
                            (o.anchor, o.extra.clone(), o.floor)
                        };
                        Some((anchor, extra, floor))
                    }
                };
                if let Some((anchor, extra, floor)) = child {
                    let ops = draw_obs_ops();
                    let cid = env.w().new_obs(loc, anchor, extra, floor, ops, ObsState::Running);
                    kit::probe("receiver_cloned");
                    spawn_observer(env.clone(), cid, rx.clone());
                }
            }
            ObsOp::Send { raw, clone } => {
                let hops = env.w().hops;
                let candidates: Vec<usize> = (0..=hops).filter(|e| *e != loc).collect();
                let dest = candidates[raw as usize % candidates.len()];
                let ok = {
                    let mut w = env.w();
                    if w.transfers_left == 0 || (clone && w.observers_left == 0) {
                        false
                    } else {
                        w.transfers_left -= 1;
                        if clone {
                            w.observers_left -= 1;
                        }
                        true
                    }
                };
                if !ok {
                    continue;
                }
                let updates_pending = {
                    let w = env.w();
                    !w.sender_done && !w.sender_dropped
                };
                if updates_pending {
                    kit::probe("receiver_sent_while_updates_in_flight");
                }
                if clone {
                    let ops = draw_obs_ops();
                    let cid = {
                        let mut w = env.w();
                        let (anchor, mut extra, floor) = {
                            let o = &w.obs[&id];
                            (o.anchor, o.extra.clone(), o.floor)
                        };
                        extra.extend(links_between(loc, dest));
                        w.new_obs(dest, anchor, extra, floor, ops, ObsState::InFlight)
                    };
                    let msg = Msg { dest: dest as u8, tag: cid, payload: Payload::Rx(rx.clone()) };
                    if let Err(e) = route(&env, loc, msg).await {
                        transfer_failed(&env, cid, loc, e);
                    }
                } else {
                    {
                        let mut w = env.w();
                        let o = w.obs.get_mut(&id).unwrap();
                        o.extra.extend(links_between(loc, dest));
                        o.state = ObsState::InFlight;
                        o.loc = dest;
                    }
                    let msg = Msg { dest: dest as u8, tag: id, payload: Payload::Rx(rx) };
                    if let Err(e) = route(&env, loc, msg).await {
                        transfer_failed(&env, id, loc, e);
                    }
                    return;
                }
            }
            ObsOp::Leave => {
                env.w().obs.get_mut(&id).unwrap().state = ObsState::Left;
                kit::probe("receiver_left");
                drop(rx);
                kit::activity();
                return;
            }
        }
        kit::activity();
    }
}

fn transfer_failed(env: &Env, id: u32, from: usize, e: String) {
    let mut w = env.w();
    if id != SENDER_TAG {
        w.obs.get_mut(&id).unwrap().state = ObsState::Lost;
    }
    if !w.opts.cut {
        kit::abort_run(format!("sending a channel half from E{from} failed on a healthy link: {e}"));
    } else {
        kit::probe("transfer_failed_after_link_failure");
    }
}

fn do_send(env: &Env, tx: &watch::Sender<Val>, kind: SendKind, poison: bool) {
    let (v, prev_expected) = {
        let mut w = env.w();
        let n = w.next_n;
        w.next_n += 1;
        (make_val(n, poison, w.pad_mode), w.sent[&w.last].clone())
    };
    let ok = match kind {
        SendKind::Send => tx.send(v.clone()).is_ok(),
        SendKind::Replace => {
            let prev = tx.send_replace(v.clone());
            if prev != prev_expected {
                kit::class_violation(
                    "c15",
                    "send-replace-previous",
                    "c15:send-replace-previous",
                    format!("send_replace returned {} but the previous value sent was {}", prev.n, prev_expected.n),
                );
            }
            true
        }
        SendKind::Modify => {
            tx.send_modify(|x| *x = v.clone());
            true
        }
    };
    let mut w = env.w();
    if ok {
        if poison {
            w.poison_sent = true;
            kit::probe("poison_value_sent");
        }
        w.last = v.n;
        w.sent.insert(v.n, v);
        kit::probe("value_sent");
    } else {
        kit::probe("send_returned_closed");
        if !w.opts.cut && !w.opts.poison && w.live() > 0 {
            let d = format!("send({}) failed although {} receiver handle(s) exist on healthy links", v.n, w.live());
            kit::class_violation("c15", "send-failed-with-live-receivers", "c15:send-failed-with-live-receivers", d);
        }
    }
}

async fn sender_actor(env: Env, tx: watch::Sender<Val>, loc: usize) {
    loop {
        if kit::is_aborted() {
            return;
        }
        let op = env.w().sender_ops.pop_front();
        let Some(op) = op else { break };
        match op {
            SOp::Send(kind, poison) => do_send(&env, &tx, kind, poison),
            SOp::Burst(k) => {
                for _ in 0..k {
                    do_send(&env, &tx, SendKind::Send, false);
                }
                kit::probe("burst_sent");
            }
            SOp::Pause(us) => tokio::time::sleep(Duration::from_micros(us as u64)).await,
            SOp::Subscribe => {
                let slot = {
                    let mut w = env.w();
                    if w.observers_left == 0 {
                        false
                    } else {
                        w.observers_left -= 1;
                        true
                    }
                };
                if slot {
                    let ops = draw_obs_ops();
                    let rx = tx.subscribe();
                    let id = {
                        let mut w = env.w();
                        let floor = w.last;
                        w.new_obs(loc, loc, BTreeSet::new(), floor, ops, ObsState::Running)
                    };
                    kit::probe(if loc > 0 { "subscribed_from_remote_sender" } else { "subscribed_from_sender" });
                    spawn_observer(env.clone(), id, rx);
                }
            }
            SOp::Move => {
                let go = {
                    let mut w = env.w();
                    // A poison snapshot would make the whole transfer message undecodable.
                    if loc < w.hops && !w.sent[&w.last].poison && w.transfers_left > 0 {
                        w.transfers_left -= 1;
                        w.sender_pos = loc + 1;
                        w.sender_in_flight = true;
                        true
                    } else {
                        false
                    }
                };
                if go {
                    kit::probe("sender_half_sent_away");
                    let msg = Msg { dest: (loc + 1) as u8, tag: SENDER_TAG, payload: Payload::Tx(tx) };
                    if let Err(e) = route(&env, loc, msg).await {
                        transfer_failed(&env, SENDER_TAG, loc, e);
                    }
                    return;
                }
            }
        }
        kit::activity();
    }
    // No await between the last op and this point: a final send is followed by the drop in the same poll.
    let mut w = env.w();
    if w.drop_now {
        w.sender_dropped = true;
        drop(w);
        drop(tx);
        kit::probe("sender_dropped_right_after_last_op");
        env.w().sender_done = true;
    } else {
        w.parked_tx = Some(tx);
        w.sender_done = true;
    }
    kit::activity();
}

async fn router(env: Env, here: usize, link: usize, rightwards: bool, mut rx: base::Receiver<Msg>) {
    loop {
        if kit::is_aborted() {
            return;
        }
        let res = rx.recv().await;
        kit::activity();
        match res {
            Ok(Some(msg)) => {
                let expected = env.w().inflight.entry((link, rightwards)).or_default().pop_front();
                if expected != Some(msg.tag) {
                    kit::abort_run(format!("link {link}: received transfer {} but expected {expected:?}", msg.tag));
                    return;
                }
                let Msg { dest, tag, payload } = msg;
                if dest as usize == here {
                    match payload {
                        Payload::Rx(r) => {
                            {
                                let mut w = env.w();
                                w.transfers_done += 1;
                                let o = w.obs.get_mut(&tag).unwrap();
                                o.state = ObsState::Running;
                                o.loc = here;
                                if o.extra.len() >= 2 {
                                    kit::probe("receiver_arrived_over_2_or_more_hops");
                                }
                            }
                            kit::probe("receiver_arrived");
                            spawn_observer(env.clone(), tag, r);
                        }
                        Payload::Tx(t) => {
                            {
                                let mut w = env.w();
                                w.transfers_done += 1;
                                w.sender_in_flight = false;
                            }
                            kit::probe("sender_arrived_remote");
                            spawn_sender(env.clone(), t, here);
                        }
                    }
                } else {
                    // Forward onwards; sometimes look at the value while passing through.
                    if let Payload::Rx(r) = &payload
                        && kit::coin(1, 3)
                    {
                        let c = cur(r);
                        env.w().observe(tag, &c, "peek-at-hop");
                    }
                    kit::probe("half_forwarded_at_intermediate_endpoint");
                    if let Err(e) = route(&env, here, Msg { dest, tag, payload }).await {
                        transfer_failed(&env, tag, here, e);
                    }
                }
            }
            Ok(None) => return,
            Err(e) if e.is_final() => return,
            Err(e) => {
                // The message could not be decoded: the snapshot in a transferred half was a poison value.
                let lost = env.w().inflight.entry((link, rightwards)).or_default().pop_front();
                let mut w = env.w();
                if !w.opts.poison {
                    kit::abort_run(format!("link {link}: unexpected non-final receive error {e}"));
                    return;
                }
                kit::probe("transfer_lost_poison_snapshot");
                match lost {
                    Some(SENDER_TAG) | None => {
                        kit::abort_run(format!("link {link}: undecodable message for {lost:?}: {e}"));
                        return;
                    }
                    Some(id) => w.obs.get_mut(&id).unwrap().state = ObsState::Lost,
                }
            }
        }
    }
}

/// After quiescence on healthy links every live receiver shows the last value sent.
fn converge_check(env: &Env, phase: &'static str) {
    let parked = std::mem::take(&mut env.w().parked);
    for (id, rx) in &parked {
        let c = cur(rx);
        let mut w = env.w();
        w.observe(*id, &c, "at-quiescence");
        if w.affected(&w.obs[id]) {
            continue;
        }
        if !w.matches_final(*id, &c) {
            let got = match &c {
                Ok(v) => format!("{}", v.n),
                Err(e) => format!("Err({e})"),
            };
            let d = format!("{phase}: receiver shows {got} at quiescence, not the last value sent; {}", w.describe(*id));
            kit::class_violation("c15", "stale-value", "c15:not-converged", d);
        } else {
            kit::probe("converged_to_last");
            if !w.pathless(&w.obs[id]) {
                kit::probe("remote_converged_to_last");
            }
        }
    }
    env.w().parked = parked;
}

/// After the sender is gone (or the link failed) and quiescence: closure has reached every receiver.
async fn closure_check(env: &Env) {
    let parked = std::mem::take(&mut env.w().parked);
    for (id, mut rx) in parked {
        for _ in 0..4 {
            match kit::cancel_after(rx.changed(), 1).await {
                None => {
                    let w = env.w();
                    let affected = w.affected(&w.obs[&id]);
                    if w.sender_dropped || affected {
                        let d = format!(
                            "changed() still pending at quiescence after {}; {}",
                            if w.sender_dropped { "the sender was dropped" } else { "the link failed" },
                            w.describe(id)
                        );
                        kit::class_violation("c15", "closure-not-propagated", "c15:closure-not-propagated", d);
                    }
                    break;
                }
                Some(Ok(())) => {
                    let r = rx.borrow_and_update().map(|r| (*r).clone());
                    env.w().observe(id, &r, "final-changed");
                }
                Some(Err(_)) => {
                    let r = cur(&rx);
                    env.w().closed(id, &r, "final-changed->closed");
                    break;
                }
            }
        }
    }
}

async fn run(opts: Opts) {
    kit::draw_sched_policy();
    kit::set_port_space(if kit::coin(1, 2) { 0 } else { 256 });
    let hops = kit::draw_range(1, 3) as usize;
    let pad_mode = kit::pick(&[0u32, 0, 0, 1, 2]);

    let mut eps: Vec<Ep> = (0..=hops).map(|_| Ep { left: None, right: None }).collect();
    let mut routers = Vec::new();
    let mut conns = Vec::new();
    let mut ctls: Vec<LinkCtl> = Vec::new();
    let mut cfg_txt = Vec::new();
    for j in 0..hops {
        let mut cfg_a = mux::draw_cfg(CfgProfile::Tiny);
        let mut cfg_b = if kit::coin(1, 3) { mux::draw_cfg(CfgProfile::Tiny) } else { cfg_a.clone() };
        for c in [&mut cfg_a, &mut cfg_b] {
            c.max_ports = c.max_ports.max(32);
            c.max_received_ports = c.max_received_ports.max(4);
            c.connection_timeout = None;
        }
        let link_cfg = LinkCfg::draw();
        cfg_txt.push(json!({"link": LINK_NAMES[j], "cfg_left": format!("{cfg_a:?}"), "cfg_right": format!("{cfg_b:?}"), "net": format!("{link_cfg:?}")}));
        let pair = match mux::connect_rch::<Msg, Msg>(LINK_NAMES[j], cfg_a, cfg_b, link_cfg, MonitorMode::Full).await {
            Ok(p) => p,
            Err(e) => {
                kit::abort_run(format!("setup failed: {e}"));
                return;
            }
        };
        let mux::RchPair { a_tx, a_rx, b_tx, b_rx, conn_a, conn_b, ctl } = pair;
        eps[j].right = Some(Arc::new(AsyncMutex::new(a_tx)));
        eps[j + 1].left = Some(Arc::new(AsyncMutex::new(b_tx)));
        routers.push((j + 1, j, true, b_rx));
        routers.push((j, j, false, a_rx));
        conns.push(conn_a);
        conns.push(conn_b);
        ctls.push(ctl);
    }

    let (sender_ops, drop_now) = draw_sender_plan(opts.poison);
    let n_initial = kit::draw_range(1, 3);
    let init = make_val(0, false, pad_mode);
    let mut world = World {
        opts,
        hops,
        pad_mode,
        sent: BTreeMap::from([(0, init.clone())]),
        last: 0,
        next_n: 1,
        poison_sent: false,
        sender_pos: 0,
        sender_in_flight: false,
        sender_dropped: false,
        sender_done: false,
        sender_ops: sender_ops.clone(),
        drop_now,
        parked_tx: None,
        obs: BTreeMap::new(),
        next_id: 1,
        parked: BTreeMap::new(),
        cut: vec![false; hops],
        inflight: BTreeMap::new(),
        transfers_left: 8,
        observers_left: 8,
        transfers_done: 0,
    };
    let mut initial = Vec::new();
    for _ in 0..n_initial {
        let ops = draw_obs_ops();
        let id = world.new_obs(0, 0, BTreeSet::new(), 0, ops.clone(), ObsState::Running);
        initial.push((id, ops));
    }

    // Faults.
    let mut fault_txt = String::from("none");
    if opts.cut {
        let j = kit::draw(hops as u32) as usize;
        world.cut[j] = true;
        let dir = kit::draw(2) as usize;
        let at = ctls[j].sent(dir) + kit::draw(120) as u64;
        let kind = kit::pick(&[FaultKind::Eof, FaultKind::SinkError, FaultKind::StreamError]);
        ctls[j].add_fault(Fault { dir, at, kind, heal_after_us: None });
        fault_txt = format!("link {} dir {dir} frame {at}: {kind:?}", LINK_NAMES[j]);
    } else if kit::coin(1, 4) {
        // Benign fault: a stall that heals. Convergence is still required.
        let j = kit::draw(hops as u32) as usize;
        let dir = kit::draw(2) as usize;
        let after_us = kit::pick(&[0u64, 200, 5_000, 40_000]);
        let dur_us = kit::pick(&[1_000u64, 30_000, 400_000]);
        let ctl = ctls[j].clone();
        fault_txt = format!("link {} dir {dir}: stall after {after_us}us for {dur_us}us", LINK_NAMES[j]);
        kit::spawn(async move {
            tokio::time::sleep(Duration::from_micros(after_us)).await;
            ctl.stall_now(dir, Some(Duration::from_micros(dur_us)));
        });
    }

    kit::set_sample(json!({
        "hops": hops, "pad_mode": pad_mode, "links": cfg_txt, "fault": fault_txt,
        "sender_plan": sender_ops.iter().map(|o| format!("{o:?}")).collect::<Vec<_>>(),
        "sender_end": if drop_now { "drop right after the last op" } else { "hold until quiescence, then drop" },
        "initial_receivers": initial.iter().map(|(id, ops)| json!({"id": id, "ops": ops.iter().map(|o| format!("{o:?}")).collect::<Vec<_>>()})).collect::<Vec<_>>(),
    }));
    kit::mix_plan(kit::hash_str(&format!("{sender_ops:?}{drop_now}{initial:?}{fault_txt}{hops}{pad_mode}")));

    let env = Env { world: Arc::new(Mutex::new(world)), eps: Arc::new(eps) };
    let mut router_handles = Vec::new();
    for (here, link, rightwards, rx) in routers {
        router_handles.push(kit::spawn(router(env.clone(), here, link, rightwards, rx)));
    }

    let (tx, rx0) = watch::channel::<Val, remoc::codec::Default>(init);
    for (i, (id, _)) in initial.iter().enumerate() {
        let rx = match i {
            0 => rx0.clone(),
            1 => tx.subscribe(),
            _ => rx0.clone(),
        };
        spawn_observer(env.clone(), *id, rx);
    }
    drop(rx0);
    spawn_sender(env.clone(), tx, 0);

    kit::settle().await;
    if kit::is_aborted() {
        return;
    }
    {
        let w = env.w();
        if !opts.cut {
            let stuck = if !w.sender_done {
                Some(format!("sender actor not finished at quiescence (in flight: {})", w.sender_in_flight))
            } else {
                w.obs
                    .iter()
                    .find(|(_, o)| matches!(o.state, ObsState::Running | ObsState::InFlight))
                    .map(|(id, o)| format!("receiver #{id} still {:?} at quiescence on healthy links", o.state))
            };
            if let Some(what) = stuck {
                kit::abort_run(what);
                return;
            }
        }
        if w.transfers_done >= 1 && w.sent.len() >= 3 {
            kit::set_nontrivial();
        }
    }
    if !kit::has_violation() {
        converge_check(&env, "before the sender is dropped");
    }
    if !kit::has_violation() {
        let tx = env.w().parked_tx.take();
        if let Some(tx) = tx {
            env.w().sender_dropped = true;
            drop(tx);
            kit::probe("sender_dropped_after_quiescence");
        }
        kit::settle().await;
        if kit::is_aborted() {
            return;
        }
        closure_check(&env).await;
    }

    for h in router_handles {
        h.abort();
    }
    for c in conns {
        c.abort();
    }
}

fn sc_healthy() -> ScenarioFuture {
    Box::pin(run(Opts { poison: false, cut: false }))
}

fn sc_poison() -> ScenarioFuture {
    Box::pin(run(Opts { poison: true, cut: false }))
}

fn sc_cut() -> ScenarioFuture {
    Box::pin(run(Opts { poison: false, cut: true }))
}


pub fn checks() -> Vec<Check> {
    vec![Check {
        id: "C15",
        level: "exploration",
        classes: vec!["c15"],
        scenarios: vec![
            Scenario { name: "watch-healthy", weight: 5, max_polls: 400_000, max_virtual_secs: 48 * 3600, run: sc_healthy },
            Scenario { name: "watch-nonfinal-errors", weight: 3, max_polls: 400_000, max_virtual_secs: 48 * 3600, run: sc_poison },
            Scenario { name: "watch-link-cut", weight: 2, max_polls: 400_000, max_virtual_secs: 48 * 3600, run: sc_cut },
        ],
        quick: (10_000, 50),
        thorough: (200_000, 600),
        rule: "each evaluation is one seeded run: chain of 2..4 endpoints (drawn configurations, link profiles, scheduler policy), one watch channel, \
a sender plan of up to 20 strictly increasing values (send/send_replace/send_modify, bursts, pauses, subscribe, moving the sender half to the next endpoint, \
drop right after the last send or after quiescence), up to 11 receivers executing drawn op lists (borrow, borrow_and_update, changed, wait_for, stream, clone, \
send the receiver or a clone 1..3 hops away, leave); variants with undeserialisable values and with a link cut; \
non-trivial = at least one half transferred and three values sent; distinct = distinct (plan hash, poll-order hash) pairs",
        assumptions: vec![
            "values are unique and strictly increasing, so 'older than' is decidable from the value alone",
            "a receiver lineage inherits its lower bound across clone and across a transfer (the snapshot is taken from the same cell)",
            "liveness (convergence, closure) is judged only after kit::settle() and only for receivers whose path to the sender crosses no cut link",
            "blocking receiver operations are bounded by virtual-time timeouts in the harness; a timeout is never an oracle input",
        ],
        required_probes: vec![
            "receiver_arrived",
            "receiver_arrived_over_2_or_more_hops",
            "receiver_sent_while_updates_in_flight",
            "sender_arrived_remote",
            "subscribed_from_remote_sender",
            "receiver_cloned",
            "sender_dropped_right_after_last_op",
            "intermediate_values_skipped",
            "remote_update_observed",
            "remote_converged_to_last",
            "closed_after_last_value",
            "observed_via_stream",
            "observed_via_wait_for",
            "non_final_error_value_observed",
        ],
        real_components: "remoc::rch::watch (Sender, Receiver, ReceiverStream, send_impl/recv_impl forwarding tasks, half transfer), remoc::rch::base, default codec, remoc::chmux, Connect::framed, tokio::sync::watch",
        stub_components: STUB_NET,
    }]
}
