//! C20 — handles and lazy values: confinement, type safety, fidelity, release.
//!
//! Three endpoints A, B, C connected by up to three links (AB, BC, CA), one `rch::base` channel
//! pair per link. A sequential director moves objects around (it awaits the send, the arrival is
//! awaited when the object is next used), a model predicts what every handle is allowed to do.
//!
//! Handles (`handles-*` scenarios): `Handle<Tracked>` with a drop counter outside the value.
//!  * confinement: a handle yields the value only on the creating endpoint and only if it was
//!    created there or came back over the connection it was sent on; everything else is an error;
//!  * type safety: at the cast type every access is an error;
//!  * no use after take, never another value (id, generation bumped through `as_mut`, payload);
//!  * documented success: a locally created handle and the first return of a sent handle work;
//!  * release: the drop counter is 0 while the model says the value must be stored (local handle,
//!    or live registration with remote handles), and 1 after `settle()` once all handles are gone
//!    or the provider was dropped and no local handle exists.
//!
//! Lazy values (`lazy-*`): `Lazy<Tracked>` / `LazyBlob` with sizes around chunk_size, max_data_size
//! and receive_buffer, forwarded over 0..2 links, fetched concurrently on any endpoint (`get` twice,
//! `into_inner`), providers kept / held / dropped, link cut during the fetch: fetched == provided or
//! an error, never a truncated or different value; fault-free fetches succeed and terminate.

use std::{
    sync::{
        Arc, Mutex,
        atomic::{AtomicUsize, Ordering},
    },
    time::Duration,
};

use bytes::Bytes;
use remoc::robj::{
    handle::{Handle, HandleError},
    lazy::{self, Lazy},
    lazy_blob::{self, LazyBlob},
};
use serde::{Deserialize, Serialize};
use serde_json::json;

use super::c17::mesh::{Mesh, Tagged};
use crate::{
    harness::{Check, Scenario, ScenarioFuture},
    kit,
    mux::{self, CfgProfile},
    net::{Fault, FaultKind, LinkCfg},
    props::STUB_NET,
};

const NAMES: [&str; 3] = ["A", "B", "C"];
const LINKS: [(&str, usize, usize); 3] = [("AB", 0, 1), ("BC", 1, 2), ("CA", 2, 0)];

// ------------------------------------------------------------------------------------------
// Values and messages
// ------------------------------------------------------------------------------------------

#[derive(Debug, Serialize, Deserialize)]
pub struct Tracked {
    id: u32,
    generation: u32,
    data: Vec<u8>,
    /// Present in the original only (copies made by (de)serialisation are not counted).
    #[serde(skip)]
    ctr: Option<Arc<AtomicUsize>>,
}

impl Clone for Tracked {
    fn clone(&self) -> Self {
        Self { id: self.id, generation: self.generation, data: self.data.clone(), ctr: None }
    }
}

impl Drop for Tracked {
    fn drop(&mut self) {
        if let Some(c) = &self.ctr {
            c.fetch_add(1, Ordering::SeqCst);
        }
    }
}

/// Public proxy type handles are cast to.
#[derive(Clone, Debug)]
pub struct Other;

#[derive(Serialize, Deserialize)]
enum Obj {
    H(Handle<Tracked>),
    HO(Handle<Other>),
    L(Lazy<Tracked>),
    B(LazyBlob),
}

#[derive(Serialize, Deserialize)]
struct Msg {
    tag: u32,
    obj: Obj,
}

impl Tagged for Msg {
    fn tag(&self) -> u32 {
        self.tag
    }
}

fn data_for(id: u32, len: usize) -> Vec<u8> {
    mux::payload(20, id, len)
}

async fn connect_mesh(n_links: usize, profile_tiny: bool) -> Option<(Mesh<Msg>, Vec<remoc::chmux::Cfg>, Vec<LinkCfg>)> {
    let mut cfgs = Vec::new();
    for _ in 0..3 {
        let mut c = mux::draw_cfg(if profile_tiny { CfgProfile::Tiny } else { CfgProfile::Roomy });
        c.max_ports = c.max_ports.max(1024);
        c.max_received_ports = c.max_received_ports.max(16);
        c.connection_timeout = None;
        // The request of a LazyBlob fetch (a few bytes) must fit into max_data_size: its Serialize impl
        // is single-shot, and base::Sender serializes an item a second time when it does not fit.
        c.max_data_size = c.max_data_size.max(33);
        cfgs.push(c);
    }
    let specs: Vec<(&'static str, usize, usize)> = LINKS[..n_links].to_vec();
    let link_cfgs: Vec<LinkCfg> = specs.iter().map(|_| LinkCfg::draw()).collect();
    match Mesh::connect(&specs, &cfgs, &link_cfgs).await {
        Ok(m) => Some((m, cfgs, link_cfgs)),
        Err(e) => {
            kit::abort_run(format!("setup failed: {e}"));
            None
        }
    }
}

// ------------------------------------------------------------------------------------------
// Handles: model
// ------------------------------------------------------------------------------------------

enum Prov {
    Kept,
    /// Held through the type-erased `remoc::Provider`.
    Alive(remoc::Provider),
    Dropped,
}

struct ValM {
    origin: usize,
    id: u32,
    data: Vec<u8>,
    generation: u32,
    ctr: Arc<AtomicUsize>,
    /// Value taken out by `into_inner` and still held by the harness.
    held: Option<Tracked>,
    taken: bool,
    /// Destroyed by the into_inner-at-wrong-type quirk (edge scenario only).
    destroyed: bool,
    provider: Prov,
}

struct RegM {
    val: usize,
    link: usize,
    consumed: bool,
}

#[derive(Clone, Copy, PartialEq, Eq, Debug)]
enum Kind {
    /// Created on this endpoint, never travelled.
    Created,
    /// Travelling / remote form carrying registration `r`.
    Carrier(usize),
    /// Came back to the origin over the registration's connection (first return).
    Received(usize),
}

enum Place {
    Held(Obj),
    Flight { to: usize, link: usize },
    Gone,
}

struct InstM {
    tag: u32,
    val: usize,
    loc: usize,
    other_ty: bool,
    kind: Kind,
    /// The local status (Created/Received) is certain, i.e. success is required.
    certain: bool,
    /// Arrived at the origin over the right connection, but the registration had been used up.
    second_return: bool,
    place: Place,
}

#[derive(Clone, Copy, Debug, PartialEq, Eq)]
enum AccOp {
    AsRef,
    AsMut,
    IntoInner,
}

enum AccRes {
    Ok { id: u32, generation: u32, data_ok: bool, value: Option<Tracked> },
    OkOther,
    Unknown,
    Mismatch,
}

struct HWorld {
    mesh: Mesh<Msg>,
    vals: Vec<ValM>,
    regs: Vec<RegM>,
    insts: Vec<InstM>,
    next_tag: u32,
    edge: bool,
    faulted: bool,
    cut_links: Vec<usize>,
    log: Vec<String>,
}

const Q_CONSUMED: &str = "handle.deserialize:id-consumed-by-first-return";
const Q_MISMATCH: &str = "handle.into_inner:mismatched-type-destroys-value";
const Q_LOCAL_BLOB: &str = "lazy_blob.fetch:never-sent-blob-cannot-be-fetched";

impl HWorld {
    fn viol(&self, kind: &'static str, sig: &str, detail: String) {
        kit::class_violation("c20", kind, sig.to_string(), format!("{detail}; script: {}", self.log.join(" | ")));
    }

    fn inst_name(&self, i: usize) -> String {
        let x = &self.insts[i];
        format!("h{}(v{} at {}{} {:?})", x.tag, x.val, NAMES[x.loc], if x.other_ty { " as Other" } else { "" }, x.kind)
    }

    fn provider_dropped(&self, v: usize) -> bool {
        matches!(self.vals[v].provider, Prov::Dropped)
    }

    /// Waits for an instance in flight.
    async fn arrive(&mut self, i: usize) {
        let Place::Flight { to, link } = self.insts[i].place else { return };
        let tag = self.insts[i].tag;
        match self.mesh.recv_tag(to, tag, Duration::from_secs(3600)).await {
            Some((via, msg)) => {
                debug_assert_eq!(via, link);
                self.insts[i].loc = to;
                self.insts[i].place = Place::Held(msg.obj);
                if let Kind::Received(_) = self.insts[i].kind {
                    let v = self.insts[i].val;
                    self.insts[i].certain = !self.provider_dropped(v) && !self.faulted;
                }
                kit::probe("handle_arrived");
            }
            None => {
                if !self.faulted {
                    self.viol("lost-in-transit", "c20:object-lost-in-transit", format!("{} never arrived at {}", self.inst_name(i), NAMES[to]));
                }
                self.insts[i].place = Place::Gone;
            }
        }
    }

    /// Sends the instance over the link to the other end of it.
    async fn send(&mut self, i: usize, link: usize) {
        self.arrive(i).await;
        let Place::Held(_) = self.insts[i].place else { return };
        let from = self.insts[i].loc;
        let ends = self.mesh.links[link].ends;
        let to = if ends[0] == from { ends[1] } else { ends[0] };
        let v = self.insts[i].val;
        let origin = self.vals[v].origin;
        let old_kind = self.insts[i].kind;
        let mut second_return = false;
        let new_kind = match old_kind {
            Kind::Created => {
                self.regs.push(RegM { val: v, link, consumed: false });
                kit::probe("handle_registered");
                Kind::Carrier(self.regs.len() - 1)
            }
            Kind::Carrier(r) | Kind::Received(r) => {
                if to == origin && self.regs[r].link == link {
                    if !self.regs[r].consumed {
                        self.regs[r].consumed = true;
                        kit::probe("handle_first_return");
                        Kind::Received(r)
                    } else {
                        second_return = true;
                        kit::probe("handle_second_return");
                        Kind::Carrier(r)
                    }
                } else {
                    if to == origin {
                        kit::probe("handle_returned_over_other_connection");
                    }
                    Kind::Carrier(r)
                }
            }
        };
        self.log.push(format!("send {} over {} to {}", self.inst_name(i), self.mesh.links[link].name, NAMES[to]));
        let Place::Held(obj) = std::mem::replace(&mut self.insts[i].place, Place::Gone) else { unreachable!() };
        let tag = self.insts[i].tag;
        let res = self.mesh.send(link, from, Msg { tag, obj }).await;
        kit::seq();
        match res {
            Ok(()) => {
                self.insts[i].kind = new_kind;
                self.insts[i].second_return = second_return;
                self.insts[i].certain = false;
                self.insts[i].place = Place::Flight { to, link };
                if matches!(old_kind, Kind::Received(_)) {
                    kit::probe("returned_handle_sent_again");
                    // Documented behaviour: handles are reference counted, the value lives as long
                    // as a handle exists. Observed: the id of a returned handle is not registered
                    // again, the value dies with the last local handle.
                    let val = &self.vals[v];
                    if self.edge && !val.taken && !val.destroyed && !self.provider_dropped(v) && val.ctr.load(Ordering::SeqCst) != 0 {
                        self.viol(
                            "value-dropped-prematurely",
                            Q_CONSUMED,
                            format!("value v{v} was dropped when the returned handle {} was sent to {} again, although that handle is still alive", self.inst_name(i), NAMES[to]),
                        );
                    }
                }
            }
            Err(e) => {
                if !self.faulted {
                    self.viol("send-failed", "c20:send-failed-on-healthy-connection", format!("sending {} failed: {e}", self.inst_name(i)));
                }
                // Roll back a registration consumed in the model only.
                if let (Kind::Received(r), true) = (new_kind, !matches!(old_kind, Kind::Received(_))) {
                    self.regs[r].consumed = false;
                }
            }
        }
    }

    async fn access(&mut self, i: usize, op: AccOp) {
        self.arrive(i).await;
        if !matches!(self.insts[i].place, Place::Held(_)) {
            return;
        }
        let name = self.inst_name(i);
        self.log.push(format!("{op:?} {name}"));
        fn snap(t: &Tracked) -> AccRes {
            AccRes::Ok { id: t.id, generation: t.generation, data_ok: t.data == data_for(t.id, t.data.len()), value: None }
        }
        fn err(e: HandleError) -> AccRes {
            match e {
                HandleError::Unknown => AccRes::Unknown,
                HandleError::MismatchedType(_) => AccRes::Mismatch,
            }
        }
        let res = match op {
            AccOp::AsRef => match &self.insts[i].place {
                Place::Held(Obj::H(h)) => h.as_ref().await.map(|r| snap(&r)).unwrap_or_else(err),
                Place::Held(Obj::HO(h)) => h.as_ref().await.map(|_| AccRes::OkOther).unwrap_or_else(err),
                _ => return,
            },
            AccOp::AsMut => match &mut self.insts[i].place {
                Place::Held(Obj::H(h)) => h
                    .as_mut()
                    .await
                    .map(|mut r| {
                        r.generation += 1;
                        snap(&r)
                    })
                    .unwrap_or_else(err),
                Place::Held(Obj::HO(h)) => h.as_mut().await.map(|_| AccRes::OkOther).unwrap_or_else(err),
                _ => return,
            },
            AccOp::IntoInner => match std::mem::replace(&mut self.insts[i].place, Place::Gone) {
                Place::Held(Obj::H(h)) => match h.into_inner().await {
                    Ok(t) => {
                        let AccRes::Ok { id, generation, data_ok, .. } = snap(&t) else { unreachable!() };
                        AccRes::Ok { id, generation, data_ok, value: Some(t) }
                    }
                    Err(e) => err(e),
                },
                Place::Held(Obj::HO(h)) => h.into_inner().await.map(|_| AccRes::OkOther).unwrap_or_else(err),
                _ => return,
            },
        };
        kit::seq();

        let x = &self.insts[i];
        let v = x.val;
        let at_origin = x.loc == self.vals[v].origin;
        let local_kind = matches!(x.kind, Kind::Created | Kind::Received(_));
        let may_be_local = at_origin && (local_kind || x.second_return);
        let (other_ty, certain, second_return) = (x.other_ty, x.certain, x.second_return);
        let alive = !self.vals[v].taken && !self.vals[v].destroyed;
        let prov_dropped = self.provider_dropped(v);

        match res {
            AccRes::OkOther => {
                self.viol("type-confusion", "c20:ok-at-wrong-type", format!("{op:?} on {name} succeeded at the cast type"));
            }
            AccRes::Ok { id, generation, data_ok, value } => {
                if !may_be_local {
                    self.viol(
                        "confinement",
                        "c20:value-through-foreign-handle",
                        format!("{op:?} on {name} returned value {id} although the handle is not local to the value's endpoint/connection"),
                    );
                } else if !alive {
                    self.viol("use-after-take", "c20:use-after-take", format!("{op:?} on {name} returned value {id} after the value had been taken"));
                } else {
                    let expect_gen = self.vals[v].generation + if op == AccOp::AsMut { 1 } else { 0 };
                    if id != self.vals[v].id || generation != expect_gen || !data_ok {
                        self.viol(
                            "wrong-value",
                            "c20:wrong-value",
                            format!("{op:?} on {name} returned value {id} generation {generation} (payload intact: {data_ok}), expected value {} generation {expect_gen}", self.vals[v].id),
                        );
                    }
                }
                kit::probe("handle_access_ok");
                if matches!(self.insts[i].kind, Kind::Received(_)) {
                    kit::probe("returned_handle_access_ok");
                }
                if op == AccOp::AsMut {
                    self.vals[v].generation += 1;
                }
                if let Some(t) = value {
                    self.vals[v].taken = true;
                    self.vals[v].held = Some(t);
                    kit::probe("handle_into_inner_ok");
                }
            }
            AccRes::Unknown | AccRes::Mismatch => {
                let mismatch = matches!(res, AccRes::Mismatch);
                kit::probe(if mismatch { "handle_error_mismatched_type" } else { "handle_error_unknown" });
                if !at_origin {
                    kit::probe("foreign_endpoint_access_refused");
                }
                if at_origin && !local_kind && !second_return {
                    kit::probe("foreign_connection_access_refused");
                }
                if local_kind && !alive {
                    kit::probe("access_after_take_refused");
                }
                if local_kind && certain && alive && !other_ty {
                    self.viol("spurious-error", "c20:local-handle-unusable", format!("{op:?} on {name} failed ({}) although the handle is local, typed correctly and the value was not taken", if mismatch { "mismatched type" } else { "unknown" }));
                }
                if local_kind && certain && alive && other_ty && !mismatch {
                    self.viol("wrong-error", "c20:wrong-error-kind", format!("{op:?} on {name} at the cast type reported Unknown instead of MismatchedType"));
                }
                if mismatch && !(may_be_local && other_ty) {
                    self.viol("wrong-error", "c20:wrong-error-kind", format!("{op:?} on {name} reported MismatchedType although the handle has its original type or is not local"));
                }
                if self.edge && second_return && at_origin && alive && !other_ty && !prov_dropped && !self.faulted {
                    self.viol(
                        "spurious-error",
                        Q_CONSUMED,
                        format!("{op:?} on {name} failed although the value is stored on this endpoint and the handle came back over the connection it was sent on (a clone of it or the handle itself had returned before)"),
                    );
                }
                if mismatch && op == AccOp::IntoInner && alive && ((local_kind && certain) || (second_return && at_origin)) {
                    // The failed call must not have destroyed the value.
                    let val = &self.vals[v];
                    if val.ctr.load(Ordering::SeqCst) != 0 {
                        kit::probe("mismatched_into_inner_destroyed_value");
                        self.vals[v].destroyed = true;
                        // Handles that should still be able to reach the value (the consumed one is gone).
                        let others = self
                            .insts
                            .iter()
                            .filter(|o| o.val == v && !matches!(o.place, Place::Gone))
                            .filter(|o| match o.kind {
                                Kind::Created => true,
                                // Once the provider is gone a handle that came back over a connection reaches
                                // the value only if it had arrived before; not counted (conservative).
                                Kind::Received(_) => !prov_dropped,
                                Kind::Carrier(r) => !self.regs[r].consumed && !prov_dropped && self.link_alive(self.regs[r].link),
                            })
                            .count();
                        if others == 0 {
                            // It was the last handle: releasing the value is legitimate.
                            return;
                        }
                        self.viol(
                            "value-dropped-prematurely",
                            Q_MISMATCH,
                            format!("into_inner on {name} returned MismatchedType and dropped the stored value v{v} although {others} other handle(s) to it exist"),
                        );
                    }
                }
            }
        }
        if op == AccOp::IntoInner {
            self.insts[i].place = Place::Gone;
        }
    }

    fn cast(&mut self, i: usize) {
        let Place::Held(obj) = std::mem::replace(&mut self.insts[i].place, Place::Gone) else { return };
        self.log.push(format!("cast {}", self.inst_name(i)));
        let obj = match obj {
            Obj::H(h) => Obj::HO(h.cast::<Other>()),
            Obj::HO(h) => Obj::H(h.cast::<Tracked>()),
            o => o,
        };
        self.insts[i].other_ty = !self.insts[i].other_ty;
        self.insts[i].place = Place::Held(obj);
        kit::probe("handle_cast");
    }

    fn clone_inst(&mut self, i: usize) {
        let Place::Held(obj) = &self.insts[i].place else { return };
        let obj = match obj {
            Obj::H(h) => Obj::H(h.clone()),
            Obj::HO(h) => Obj::HO(h.clone()),
            _ => return,
        };
        let x = &self.insts[i];
        let tag = self.next_tag;
        self.next_tag += 1;
        let n = InstM { tag, val: x.val, loc: x.loc, other_ty: x.other_ty, kind: x.kind, certain: x.certain, second_return: x.second_return, place: Place::Held(obj) };
        self.log.push(format!("clone {} -> h{tag}", self.inst_name(i)));
        self.insts.push(n);
        kit::probe("handle_cloned");
    }

    fn drop_inst(&mut self, i: usize) {
        if matches!(self.insts[i].place, Place::Held(_)) {
            self.log.push(format!("drop {}", self.inst_name(i)));
            self.insts[i].place = Place::Gone;
        }
    }

    fn link_alive(&self, link: usize) -> bool {
        !self.cut_links.contains(&link)
    }

    /// Model: must the value still be stored?
    fn must_be_alive(&self, v: usize) -> bool {
        let val = &self.vals[v];
        if val.taken || val.destroyed || self.faulted {
            return false;
        }
        let prov_dropped = self.provider_dropped(v);
        for x in self.insts.iter().filter(|x| x.val == v) {
            match (&x.place, x.kind) {
                (Place::Held(_), Kind::Created) => return true,
                (Place::Held(_), Kind::Received(_)) if x.certain => return true,
                (Place::Flight { .. }, Kind::Received(_)) if !prov_dropped => return true,
                (Place::Held(_) | Place::Flight { .. }, Kind::Carrier(r)) if !self.regs[r].consumed && !prov_dropped && self.link_alive(self.regs[r].link) => return true,
                _ => {}
            }
        }
        false
    }

    /// Model: must the value have been released (judged after `settle`, nothing in flight)?
    fn must_be_released(&self, v: usize) -> bool {
        let val = &self.vals[v];
        if val.held.is_some() || self.faulted {
            return false;
        }
        if val.taken {
            // Taken and dropped by the harness.
            return true;
        }
        let prov_dropped = self.provider_dropped(v);
        for x in self.insts.iter().filter(|x| x.val == v) {
            match (&x.place, x.kind) {
                (Place::Gone, _) => {}
                (Place::Flight { .. }, _) => return false,
                (Place::Held(_), Kind::Created | Kind::Received(_)) => return false,
                (Place::Held(_), Kind::Carrier(_)) => {
                    if x.second_return && x.loc == val.origin {
                        // May or may not be attached to the value (see Q_CONSUMED).
                        return false;
                    }
                    // "Released once every handle on every endpoint is gone or its provider is dropped":
                    // a remote handle excuses the value from being released unless the provider was dropped
                    // (whether its registration was used up by an earlier return does not matter here).
                    if !prov_dropped {
                        return false;
                    }
                }
            }
        }
        true
    }

    fn check_alive(&self, when: &str) {
        for v in 0..self.vals.len() {
            if self.must_be_alive(v) && self.vals[v].ctr.load(Ordering::SeqCst) != 0 {
                self.viol(
                    "value-dropped-prematurely",
                    "c20:value-dropped-prematurely",
                    format!("{when}: value v{v} was dropped although a local handle or a registered remote handle to it exists"),
                );
            }
        }
    }

    async fn settle_check(&mut self, when: &str) {
        for i in 0..self.insts.len() {
            self.arrive(i).await;
        }
        kit::settle().await;
        self.check_alive(when);
        for v in 0..self.vals.len() {
            let c = self.vals[v].ctr.load(Ordering::SeqCst);
            if self.must_be_released(v) {
                if c == 0 {
                    self.viol(
                        "value-leaked",
                        "c20:value-not-released",
                        format!(
                            "{when}: value v{v} is still stored at quiescence although no handle that could reach it exists{}",
                            if self.provider_dropped(v) { " (provider dropped)" } else { "" }
                        ),
                    );
                } else {
                    kit::probe("value_released");
                    if self.provider_dropped(v) && self.insts.iter().any(|x| x.val == v && matches!(x.place, Place::Held(_))) {
                        kit::probe("value_released_by_provider_drop_while_remote_handles_exist");
                    }
                }
            }
            if c > 1 {
                self.viol("double-drop", "c20:value-dropped-twice", format!("{when}: drop counter of v{v} is {c}"));
            }
        }
    }
}

#[derive(Clone, Copy)]
struct HOpts {
    edge: bool,
    cut: bool,
}

async fn run_handles(opts: HOpts) {
    kit::draw_sched_policy();
    kit::set_port_space(if kit::coin(1, 2) { 0 } else { 4096 });
    let n_links = kit::pick(&[1usize, 2, 3, 3]);
    let Some((mesh, _cfgs, link_cfgs)) = connect_mesh(n_links, kit::coin(1, 3)).await else { return };
    let mut w = HWorld { mesh, vals: Vec::new(), regs: Vec::new(), insts: Vec::new(), next_tag: 1, edge: opts.edge, faulted: false, cut_links: Vec::new(), log: Vec::new() };
    // Endpoints that take part: those touched by a link.
    let endpoints: Vec<usize> = match n_links {
        1 => vec![0, 1],
        _ => vec![0, 1, 2],
    };

    // Values.
    let n_vals = kit::pick(&[1usize, 1, 2, 3]);
    for v in 0..n_vals {
        let origin = if v == 0 { 0 } else { endpoints[kit::draw(endpoints.len() as u32) as usize] };
        let id = 500 + v as u32;
        let data = data_for(id, kit::pick(&[0usize, 5, 64]));
        let ctr = Arc::new(AtomicUsize::new(0));
        let t = Tracked { id, generation: 0, data: data.clone(), ctr: Some(ctr.clone()) };
        let (h, provider) = match kit::draw(3) {
            0 => (Handle::new(t), Prov::Kept),
            _ => {
                let (h, p) = Handle::provided(t);
                (h, Prov::Alive(remoc::Provider::from(p)))
            }
        };
        w.vals.push(ValM { origin, id, data, generation: 0, ctr, held: None, taken: false, destroyed: false, provider });
        let tag = w.next_tag;
        w.next_tag += 1;
        w.insts.push(InstM { tag, val: v, loc: origin, other_ty: false, kind: Kind::Created, certain: true, second_return: false, place: Place::Held(Obj::H(h)) });
        w.log.push(format!("v{v} created at {} ({})", NAMES[origin], if matches!(w.vals[v].provider, Prov::Kept) { "Handle::new" } else { "Handle::provided" }));
    }

    let n_steps = kit::draw_range(4, 18);
    let cut_at = if opts.cut { Some(kit::draw(n_steps)) } else { None };
    for step in 0..n_steps {
        if kit::is_aborted() || kit::has_violation() {
            break;
        }
        if cut_at == Some(step) {
            let l = kit::draw(n_links as u32) as usize;
            // Either cut now or at a frame sent soon.
            if kit::coin(1, 2) {
                w.mesh.links[l].ctl.cut_now();
            } else {
                let dir = kit::draw(2) as usize;
                let at = w.mesh.links[l].ctl.sent(dir) + kit::draw(6) as u64;
                w.mesh.links[l].ctl.add_fault(Fault { dir, at, kind: kit::pick(&[FaultKind::Eof, FaultKind::SinkError, FaultKind::StreamError]), heal_after_us: None });
            }
            w.faulted = true;
            w.cut_links.push(l);
            w.log.push(format!("cut {}", w.mesh.links[l].name));
        }
        let alive: Vec<usize> = (0..w.insts.len()).filter(|i| !matches!(w.insts[*i].place, Place::Gone)).collect();
        if alive.is_empty() {
            break;
        }
        let i = alive[kit::draw(alive.len() as u32) as usize];
        // 0 send, 1 access, 2 clone, 3 cast, 4 drop, 5 provider, 6 settle-check
        let choice = kit::pick(&[0u32, 0, 0, 0, 1, 1, 1, 2, 2, 3, 4, 5, 6]);
        match choice {
            0 => {
                // Send over a link attached to the current (or future) location.
                let loc = match w.insts[i].place {
                    Place::Flight { to, .. } => to,
                    _ => w.insts[i].loc,
                };
                let cands: Vec<usize> = (0..n_links).filter(|l| w.mesh.links[*l].ends.contains(&loc)).collect();
                if cands.is_empty() {
                    continue;
                }
                // Prefer the way home now and then (returns over the registering and over other connections).
                let origin = w.vals[w.insts[i].val].origin;
                let home: Vec<usize> = cands.iter().copied().filter(|l| w.mesh.links[*l].ends.contains(&origin) && loc != origin).collect();
                let l = if !home.is_empty() && kit::coin(1, 2) { home[kit::draw(home.len() as u32) as usize] } else { cands[kit::draw(cands.len() as u32) as usize] };
                w.arrive(i).await;
                if !opts.edge && matches!(w.insts[i].kind, Kind::Received(_)) {
                    // Sending a returned handle again is the trigger of Q_CONSUMED: edge scenario only.
                    kit::probe("skipped_resend_of_returned_handle");
                    continue;
                }
                w.send(i, l).await;
            }
            1 => {
                let op = kit::pick(&[AccOp::AsRef, AccOp::AsRef, AccOp::AsMut, AccOp::IntoInner]);
                w.arrive(i).await;
                let x = &w.insts[i];
                if !opts.edge && op == AccOp::IntoInner && x.other_ty && (matches!(x.kind, Kind::Created | Kind::Received(_)) || x.second_return) {
                    // into_inner at the cast type on a local handle is the trigger of Q_MISMATCH.
                    kit::probe("skipped_into_inner_at_cast_type");
                    w.access(i, AccOp::AsRef).await;
                } else {
                    w.access(i, op).await;
                }
            }
            2 => {
                if alive.len() < 6 {
                    w.arrive(i).await;
                    w.clone_inst(i);
                }
            }
            3 => {
                w.arrive(i).await;
                w.cast(i);
            }
            4 => {
                w.arrive(i).await;
                w.drop_inst(i);
            }
            5 => {
                let v = w.insts[i].val;
                match std::mem::replace(&mut w.vals[v].provider, Prov::Dropped) {
                    Prov::Alive(p) => {
                        if kit::coin(1, 2) {
                            p.keep();
                            w.vals[v].provider = Prov::Kept;
                            w.log.push(format!("keep provider of v{v}"));
                        } else {
                            drop(p);
                            kit::probe("handle_provider_dropped");
                            w.log.push(format!("drop provider of v{v}"));
                            // Returned handles in flight may or may not be attached any more.
                            for x in w.insts.iter_mut().filter(|x| x.val == v) {
                                if matches!((&x.place, x.kind), (Place::Flight { .. }, Kind::Received(_))) {
                                    x.certain = false;
                                }
                            }
                        }
                    }
                    other => w.vals[v].provider = other,
                }
            }
            _ => {
                w.log.push("settle".into());
                w.settle_check("mid-run").await;
            }
        }
        w.check_alive("after a step");
    }

    if kit::is_aborted() {
        return;
    }
    if w.vals.iter().any(|v| v.ctr.load(Ordering::SeqCst) == 0) && w.insts.iter().any(|x| !matches!(x.kind, Kind::Created)) {
        kit::set_nontrivial();
    }
    kit::mix_plan(kit::hash_str(&w.log.join("|")));
    kit::set_sample(json!({"links": LINKS[..n_links].iter().zip(&link_cfgs).map(|(l, c)| format!("{}: {c:?}", l.0)).collect::<Vec<_>>(), "script": w.log.clone()}));

    // Final phase: everything is dropped in a drawn order, then every value must be released.
    if !kit::has_violation() {
        for i in 0..w.insts.len() {
            w.arrive(i).await;
        }
        w.log.push("final drops".into());
        let mut order: Vec<usize> = (0..w.insts.len()).collect();
        while !order.is_empty() {
            let k = kit::draw(order.len() as u32) as usize;
            let i = order.remove(k);
            w.insts[i].place = Place::Gone;
            if kit::coin(1, 4) {
                kit::yield_now().await;
            }
        }
        for v in 0..w.vals.len() {
            if let Prov::Alive(p) = std::mem::replace(&mut w.vals[v].provider, Prov::Dropped) {
                if kit::coin(1, 2) {
                    p.keep();
                    w.vals[v].provider = Prov::Kept;
                }
            }
            if let Some(t) = w.vals[v].held.take() {
                let before = w.vals[v].ctr.load(Ordering::SeqCst);
                drop(t);
                if before != 0 || w.vals[v].ctr.load(Ordering::SeqCst) != 1 {
                    w.viol("double-drop", "c20:value-dropped-twice", format!("value v{v} taken by into_inner: drop counter {before} before the harness dropped it"));
                }
            }
        }
        w.settle_check("after all handles were dropped").await;
    }
    w.mesh.shutdown();
}

// ------------------------------------------------------------------------------------------
// Lazy values
// ------------------------------------------------------------------------------------------

#[derive(Clone, Copy, Debug, PartialEq, Eq)]
enum ProvMode {
    /// `new`: provider kept implicitly.
    New,
    /// `provided`, provider held by the harness until the end.
    Held,
    /// `provided`, `keep()` called before the fetch.
    KeepEarly,
    /// `provided`, provider dropped before the fetch starts.
    DropBefore,
}

enum LazyProv {
    None,
    /// Half of the providers are held through the type-erased `remoc::Provider`.
    Any(remoc::Provider),
    L(lazy::Provider),
    B(lazy_blob::Provider),
}

#[derive(Default)]
struct FetchRec {
    started: bool,
    done: bool,
    results: Vec<String>,
    bad: Option<(&'static str, String)>,
    ok: u32,
    errs: u32,
}

struct LazyPlan {
    blob: bool,
    origin: usize,
    size: usize,
    mode: ProvMode,
    /// Links travelled, in order.
    path: Vec<usize>,
    /// Additional clone of a blob fetched at the origin itself.
    local_clone: bool,
}

async fn fetch_actor(rec: Arc<Mutex<FetchRec>>, obj: Obj, expect_id: u32, expect: Vec<u8>, name: String) {
    rec.lock().unwrap().started = true;
    let note = |rec: &Arc<Mutex<FetchRec>>, what: &str, res: Result<(u32, Vec<u8>), String>| {
        kit::activity();
        kit::seq();
        let mut r = rec.lock().unwrap();
        match res {
            Ok((id, data)) => {
                r.ok += 1;
                if id != expect_id || data != expect {
                    let kind = if data.len() < expect.len() && expect.starts_with(&data) { "truncated-value" } else { "wrong-value" };
                    r.bad.get_or_insert((kind, format!("{name}: {what} returned {} bytes (id {id}), provided were {} bytes (id {expect_id})", data.len(), expect.len())));
                }
                r.results.push(format!("{what}: ok {} bytes", data.len()));
            }
            Err(e) => {
                r.errs += 1;
                r.results.push(format!("{what}: error {e}"));
            }
        }
    };
    match obj {
        Obj::L(lazy) => {
            let r1 = lazy.get().await.map(|r| (r.id, r.data.clone())).map_err(|e| e.to_string());
            let first_ok = r1.is_ok();
            note(&rec, "get", r1);
            let r2 = lazy.get().await.map(|r| (r.id, r.data.clone())).map_err(|e| e.to_string());
            if r2.is_ok() != first_ok {
                rec.lock().unwrap().bad.get_or_insert(("unstable-result", format!("{name}: first get ok={first_ok}, second get ok={}", r2.is_ok())));
            }
            note(&rec, "get again", r2);
            let r3 = lazy.into_inner().await.map(|t| (t.id, t.data.clone())).map_err(|e| e.to_string());
            note(&rec, "into_inner", r3);
        }
        Obj::B(blob) => {
            match blob.len() {
                Ok(n) if n == expect.len() => {}
                other => {
                    rec.lock().unwrap().bad.get_or_insert(("wrong-length", format!("{name}: len() = {other:?}, provided were {} bytes", expect.len())));
                }
            }
            // A second holder on the same endpoint (clones share the fetched data).
            let second = if kit::coin(1, 2) { Some(blob.clone()) } else { None };
            let r1 = blob.get().await.map(|d| (expect_id, Vec::from(d))).map_err(|e| e.to_string());
            let first_ok = r1.is_ok();
            note(&rec, "get", r1);
            let r2 = blob.get().await.map(|d| (expect_id, Vec::from(d))).map_err(|e| e.to_string());
            if r2.is_ok() != first_ok {
                rec.lock().unwrap().bad.get_or_insert(("unstable-result", format!("{name}: first get ok={first_ok}, second get ok={}", r2.is_ok())));
            }
            note(&rec, "get again", r2);
            let r3 = blob.into_inner().await.map(|d| (expect_id, Vec::from(d))).map_err(|e| e.to_string());
            note(&rec, "into_inner", r3);
            if let Some(second) = second
                && first_ok
            {
                kit::probe("blob_second_holder_after_into_inner");
                let r4 = second.get().await.map(|d| (expect_id, Vec::from(d))).map_err(|e| e.to_string());
                note(&rec, "second holder get", r4);
                let r5 = second.into_inner().await.map(|d| (expect_id, Vec::from(d))).map_err(|e| e.to_string());
                note(&rec, "second holder into_inner", r5);
            }
        }
        _ => {}
    }
    rec.lock().unwrap().done = true;
    kit::activity();
}

async fn run_lazy(cut: bool, edge: bool) {
    kit::draw_sched_policy();
    kit::set_port_space(if kit::coin(1, 2) { 0 } else { 4096 });
    let n_links = kit::draw_range(1, 3) as usize;
    let Some((mut mesh, cfgs, link_cfgs)) = connect_mesh(n_links, kit::coin(2, 3)).await else { return };
    let endpoints: Vec<usize> = if n_links == 1 { vec![0, 1] } else { vec![0, 1, 2] };

    // ---- plan ----
    let n_obj = kit::draw_range(1, 3) as usize;
    let mut plans = Vec::new();
    for _ in 0..n_obj {
        let blob = kit::coin(1, 2);
        let origin = endpoints[kit::draw(endpoints.len() as u32) as usize];
        let c = &cfgs[origin];
        let (cs, mds, rb) = (c.chunk_size as usize, c.max_data_size, c.receive_buffer as usize);
        let sizes = [0usize, 1, cs.saturating_sub(1), cs, cs + 1, mds.saturating_sub(1), mds, mds + 1, rb.saturating_sub(1), rb, rb + 1, 2 * rb + 3, 3 * cs + 2, 1500, 4000];
        let mut size = kit::pick(&sizes).min(if blob { 6000 } else { 700 });
        if kit::coin(1, 5) {
            size = kit::draw(if blob { 3000 } else { 500 }) as usize;
        }
        // A blob that never left its endpoint cannot be fetched (Q_LOCAL_BLOB): edge scenario only.
        let hops = if blob && !edge { kit::pick(&[1usize, 1, 2, 2]) } else { kit::pick(&[0usize, 1, 1, 2, 2]) };
        let mut path = Vec::new();
        let mut loc = origin;
        for _ in 0..hops {
            let cands: Vec<usize> = (0..n_links).filter(|l| mesh.links[*l].ends.contains(&loc)).collect();
            if cands.is_empty() {
                break;
            }
            let l = cands[kit::draw(cands.len() as u32) as usize];
            let e = mesh.links[l].ends;
            loc = if e[0] == loc { e[1] } else { e[0] };
            path.push(l);
        }
        let mode = kit::pick(&[ProvMode::New, ProvMode::New, ProvMode::Held, ProvMode::KeepEarly, ProvMode::DropBefore]);
        plans.push(LazyPlan { blob, origin, size, mode, path, local_clone: blob && edge && kit::coin(1, 2) });
    }

    // ---- create and move ----
    let idle = Duration::from_secs(3600);
    let mut providers: Vec<LazyProv> = Vec::new();
    let mut ctrs: Vec<Option<Arc<AtomicUsize>>> = Vec::new();
    let mut fetchers: Vec<(usize, bool, String, Arc<Mutex<FetchRec>>, Obj, u32, Vec<u8>)> = Vec::new();
    let mut desc = Vec::new();
    for (k, p) in plans.iter().enumerate() {
        let id = 900 + k as u32;
        let data = data_for(id, p.size);
        let (mut obj, prov, ctr) = if p.blob {
            let bytes = Bytes::from(data.clone());
            match p.mode {
                ProvMode::New => (Obj::B(LazyBlob::new(bytes)), LazyProv::None, None),
                _ => {
                    let (b, pr) = LazyBlob::provided(bytes);
                    (Obj::B(b), if kit::coin(1, 2) { LazyProv::Any(pr.into()) } else { LazyProv::B(pr) }, None)
                }
            }
        } else {
            let ctr = Arc::new(AtomicUsize::new(0));
            let t = Tracked { id, generation: 0, data: data.clone(), ctr: Some(ctr.clone()) };
            match p.mode {
                ProvMode::New => (Obj::L(Lazy::new(t)), LazyProv::None, Some(ctr)),
                _ => {
                    let (l, pr) = Lazy::provided(t);
                    (Obj::L(l), if kit::coin(1, 2) { LazyProv::Any(pr.into()) } else { LazyProv::L(pr) }, Some(ctr))
                }
            }
        };
        ctrs.push(ctr);
        if p.local_clone
            && let Obj::B(b) = &obj
        {
            fetchers.push((k, true, format!("blob{k} clone at origin {}", NAMES[p.origin]), Arc::new(Mutex::new(FetchRec::default())), Obj::B(b.clone()), id, data.clone()));
        }
        let mut loc = p.origin;
        let mut lost = false;
        for (hop, l) in p.path.iter().enumerate() {
            let e = mesh.links[*l].ends;
            let to = if e[0] == loc { e[1] } else { e[0] };
            let tag = (k * 10 + hop) as u32 + 1;
            if let Err(e) = mesh.send(*l, loc, Msg { tag, obj }).await {
                kit::class_violation("c20", "send-failed", "c20:send-failed-on-healthy-connection", format!("sending lazy object {k} failed: {e}"));
                mesh.shutdown();
                return;
            }
            match mesh.recv_tag(to, tag, idle).await {
                Some((_, m)) => obj = m.obj,
                None => {
                    kit::class_violation("c20", "lost-in-transit", "c20:object-lost-in-transit", format!("lazy object {k} never arrived at {}", NAMES[to]));
                    lost = true;
                    obj = Obj::B(LazyBlob::new(Bytes::new()));
                    break;
                }
            }
            loc = to;
            kit::probe("lazy_forwarded");
        }
        if lost {
            mesh.shutdown();
            return;
        }
        if p.path.len() == 2 {
            kit::probe("lazy_forwarded_twice");
        }
        let prov = match (p.mode, prov) {
            (ProvMode::KeepEarly, LazyProv::L(pr)) => {
                pr.keep();
                LazyProv::None
            }
            (ProvMode::KeepEarly, LazyProv::B(pr)) => {
                pr.keep();
                LazyProv::None
            }
            (ProvMode::KeepEarly, LazyProv::Any(pr)) => {
                pr.keep();
                LazyProv::None
            }
            (ProvMode::DropBefore, _) => {
                kit::probe("lazy_provider_dropped_before_fetch");
                LazyProv::None
            }
            (_, pr) => pr,
        };
        providers.push(prov);
        desc.push(format!(
            "{}{k}: {} bytes, origin {}, path [{}], provider {:?}{}",
            if p.blob { "blob" } else { "lazy" },
            p.size,
            NAMES[p.origin],
            p.path.iter().map(|l| mesh.links[*l].name).collect::<Vec<_>>().join(","),
            p.mode,
            if p.local_clone { ", clone fetched at origin" } else { "" }
        ));
        fetchers.push((k, p.blob && p.path.is_empty(), format!("{}{k} at {}", if p.blob { "blob" } else { "lazy" }, NAMES[loc]), Arc::new(Mutex::new(FetchRec::default())), obj, id, data));
    }
    kit::mix_plan(kit::hash_str(&desc.join("|")));
    kit::set_sample(json!({"objects": desc, "cfgs": cfgs.iter().map(|c| format!("chunk {} mds {} rb {}", c.chunk_size, c.max_data_size, c.receive_buffer)).collect::<Vec<_>>(),
        "links": LINKS[..n_links].iter().zip(&link_cfgs).map(|(l, c)| format!("{}: {c:?}", l.0)).collect::<Vec<_>>()}));

    // A settle between DropBefore and the fetch makes the drop effective in some runs.
    if kit::coin(1, 2) {
        kit::settle().await;
    }

    // ---- fault ----
    let mut cut_link = None;
    if cut {
        let l = kit::draw(n_links as u32) as usize;
        cut_link = Some(l);
        let dir = kit::draw(2) as usize;
        let at = mesh.links[l].ctl.sent(dir) + kit::draw(40) as u64;
        mesh.links[l].ctl.add_fault(Fault { dir, at, kind: kit::pick(&[FaultKind::Eof, FaultKind::SinkError, FaultKind::StreamError]), heal_after_us: None });
    }

    // ---- fetch concurrently ----
    let mut recs = Vec::new();
    let mut tasks = Vec::new();
    for (k, never_sent, name, rec, obj, id, data) in fetchers {
        recs.push((k, never_sent, name.clone(), rec.clone()));
        tasks.push(kit::spawn(fetch_actor(rec, obj, id, data, name)));
        if kit::coin(1, 3) {
            kit::yield_now().await;
        }
    }
    kit::settle().await;
    if kit::is_aborted() {
        return;
    }
    let cut_fired = cut_link.map(|l| mesh.links[l].conns.iter().any(|c| c.is_finished())).unwrap_or(false);

    // ---- judge ----
    for (k, never_sent, name, rec) in &recs {
        let r = rec.lock().unwrap();
        let p = &plans[*k];
        if let Some((kind, d)) = &r.bad {
            kit::class_violation("c20", *kind, format!("c20:lazy-{kind}"), format!("{d}; results: {:?}", r.results));
        }
        let on_cut_path = cut_fired;
        if !r.done {
            kit::probe("fetch_pending_at_quiescence");
            kit::class_violation(
                "c20",
                "fetch-hangs",
                if on_cut_path { "c20:fetch-hangs-after-link-cut" } else { "c20:fetch-hangs" },
                format!("{name} ({} bytes, path {:?}, provider {:?}): fetch still pending at quiescence; results so far {:?}", p.size, p.path, p.mode, r.results),
            );
            continue;
        }
        if r.ok > 0 {
            kit::probe(if p.blob { "blob_fetched" } else { "lazy_fetched" });
            if p.path.len() >= 2 {
                kit::probe("fetched_through_forwarder");
            }
            if p.size > cfgs[p.origin].max_data_size {
                kit::probe("fetched_value_larger_than_max_data_size");
            }
            kit::set_nontrivial();
        }
        if r.errs > 0 {
            kit::probe("fetch_error");
            if p.mode == ProvMode::DropBefore && !cut_fired {
                kit::probe("fetch_refused_after_provider_drop");
            }
            if cut_fired {
                kit::probe("fetch_error_after_link_cut");
            }
            if !cut_fired && p.mode != ProvMode::DropBefore {
                if *never_sent {
                    kit::probe("never_sent_blob_fetch_failed");
                }
                kit::class_violation(
                    "c20",
                    "fetch-failed",
                    if *never_sent { Q_LOCAL_BLOB } else { "c20:fetch-failed-on-healthy-connection" },
                    format!("{name} ({} bytes, path {:?}, provider {:?}): {:?}", p.size, p.path, p.mode, r.results),
                );
            }
        }
    }

    // ---- release of the originals of Lazy<T> ----
    for t in tasks {
        t.abort();
    }
    drop(providers);
    kit::settle().await;
    if !cut_fired && !kit::has_violation() {
        for (k, c) in ctrs.iter().enumerate() {
            if let Some(c) = c {
                let n = c.load(Ordering::SeqCst);
                if n != 1 {
                    kit::class_violation(
                        "c20",
                        if n == 0 { "value-leaked" } else { "double-drop" },
                        "c20:lazy-original-not-released",
                        format!("lazy{k}: drop counter of the provided value is {n} after the lazy value and its provider are gone"),
                    );
                } else {
                    kit::probe("lazy_original_released");
                }
            }
        }
    }
    mesh.shutdown();
}

fn sc_handles() -> ScenarioFuture {
    Box::pin(run_handles(HOpts { edge: false, cut: false }))
}

fn sc_handles_edge() -> ScenarioFuture {
    Box::pin(run_handles(HOpts { edge: true, cut: false }))
}

fn sc_handles_cut() -> ScenarioFuture {
    Box::pin(run_handles(HOpts { edge: false, cut: true }))
}

fn sc_lazy() -> ScenarioFuture {
    Box::pin(run_lazy(false, false))
}

fn sc_lazy_cut() -> ScenarioFuture {
    Box::pin(run_lazy(true, false))
}

fn sc_lazy_edge() -> ScenarioFuture {
    Box::pin(run_lazy(false, true))
}

pub fn checks() -> Vec<Check> {
    vec![Check {
        id: "C20",
        level: "exploration",
        classes: vec!["c20"],
        scenarios: vec![
            Scenario { name: "handles", weight: 5, max_polls: 400_000, max_virtual_secs: 48 * 3600, run: sc_handles },
            Scenario { name: "handles-link-cut", weight: 2, max_polls: 400_000, max_virtual_secs: 48 * 3600, run: sc_handles_cut },
            Scenario { name: "handles-edge", weight: 1, max_polls: 400_000, max_virtual_secs: 48 * 3600, run: sc_handles_edge },
            Scenario { name: "lazy", weight: 4, max_polls: 400_000, max_virtual_secs: 48 * 3600, run: sc_lazy },
            Scenario { name: "lazy-link-cut", weight: 2, max_polls: 400_000, max_virtual_secs: 48 * 3600, run: sc_lazy_cut },
            Scenario { name: "lazy-edge", weight: 1, max_polls: 400_000, max_virtual_secs: 48 * 3600, run: sc_lazy_edge },
        ],
        quick: (20_000, 50),
        thorough: (400_000, 600),
        rule: "each evaluation is one seeded run over 2-3 endpoints and 1-3 links: either a script of 4..16 handle steps (send over a link, as_ref/as_mut/into_inner, clone, cast, drop, provider keep/drop, settle-and-check) on 1..3 drop-counted values \
and up to 6 live handles, or 1..3 lazy values / blobs (sizes around chunk_size, max_data_size, receive_buffer) forwarded over 0..2 links and fetched concurrently; optional link cut; scheduler policy and link profiles drawn; \
non-trivial = a handle travelled while its value was alive, or a lazy fetch returned data; distinct = distinct (script/plan hash, poll-order hash) pairs",
        assumptions: vec![
            "handle model: sending a locally created handle registers it with the connection; the first handle that returns to the origin over that connection re-attaches to the value; returns over other connections must fail (documented confinement)",
            "what a second return of the same registration yields is not specified by the property (observed: Unknown); it is accepted either way outside the `handles-edge` scenario",
            "a local handle keeps the value alive even after its provider was dropped (providers guard against remote holders); release after a provider drop is required only when no local handle exists",
            "after a link cut only the safety rules (confinement, type, no use after take, no other value, fetched == provided or error) are judged",
        ],
        required_probes: vec![
            "handle_first_return",
            "returned_handle_access_ok",
            "handle_returned_over_other_connection",
            "foreign_connection_access_refused",
            "foreign_endpoint_access_refused",
            "handle_error_mismatched_type",
            "access_after_take_refused",
            "value_released",
            "value_released_by_provider_drop_while_remote_handles_exist",
            "lazy_fetched",
            "blob_fetched",
            "fetched_through_forwarder",
            "fetched_value_larger_than_max_data_size",
            "fetch_error_after_link_cut",
            "fetch_refused_after_provider_drop",
            "lazy_original_released",
        ],
        real_components: "remoc::robj::{handle, lazy, lazy_blob}, chmux::AnyStorage, remoc::rch::{base, mpsc, oneshot, bin} incl. port forwarding and streamed (de)serialisation, remoc::chmux, Connect::framed",
        stub_components: STUB_NET,
    }]
}
