//! C14 — mirrors and subscriptions never diverge silently.
//!
//! Fast mutator against event buffers of 1..3 events, slow / remote / cut-off mirrors and raw
//! subscriptions, subscriptions held for a while before use, small `mirror(max_size)`, the observable
//! dropped before `done()`, link faults at a drawn frame; append-only lists under back-pressure.
//!
//! Oracle (see `robs_common.rs`): the harness keeps the state after every expected event S0..Sn.
//! Every `borrow`/`borrow_and_update` that returns Ok equals some S_j, j non-decreasing per mirror (or is
//! a part of the snapshot while an incremental subscription is incomplete); an error is sticky, must be
//! explained (Lagged only if more events than the buffer holds were emitted, Closed only if the
//! collection was dropped before done, MaxSizeExceeded(n) only with n == max_size and a larger state,
//! Remote* only after a link fault, InvalidIndex never); an Ok view above max_size that an event produced
//! is a violation whatever the event kind; `detach()` yields an S_j; a raw subscription replayed onto its
//! initial value equals S_{sub+k} after its k-th event until its first error; at quiescence a subscriber
//! without error equals the final state and has Done iff done() was called — a dropped collection or dead
//! link must have produced an error. Lists: every subscriber gets every element once, in order, then Done.

use remoc::robs::{hash_map::ObservableHashMap, hash_set::ObservableHashSet, list::ObservableList, vec::ObservableVec, vec_deque::ObservableVecDeque};

use super::{
    robs_colls::Key,
    robs_common::{GenOpts, Opts, run},
};
use crate::{
    harness::{Check, Scenario, ScenarioFuture},
    props::STUB_NET,
};

#[derive(Clone, Copy)]
enum Mode {
    /// Subscribers join mirrors at any time (also while another reader holds a view of the mirror).
    Join,
    /// Like Join, and the collection may be dropped before done (trigger of the known finding
    /// "subscribers of a mirror are not told when the mirror loses its upstream").
    JoinDrop,
    Lag,
    MaxSize { avoid_f8: bool },
    Cut,
}

fn opts(mode: Mode, hash: bool) -> Opts {
    let (small_max_size, grow_only_push, cut) = match mode {
        Mode::Lag | Mode::Join | Mode::JoinDrop => (false, false, false),
        Mode::MaxSize { avoid_f8 } => (true, avoid_f8, false),
        Mode::Cut => (false, false, true),
    };
    Opts {
        class: "c14",
        genr: GenOpts { retain_mutates: false, set_tags: false, grow_only_push, max_len: 16 },
        small_buffers: !matches!(mode, Mode::MaxSize { .. } | Mode::Join | Mode::JoinDrop),
        small_max_size,
        remote: true,
        cut,
        drop_before_done: !matches!(mode, Mode::Join),
        resub: matches!(mode, Mode::Join | Mode::JoinDrop),
        exact: true,
        max_steps: 40,
        hash_order_on_wire: hash,
        incremental_after_done: false,
        resub_incomplete_remote: false,
    }
}

macro_rules! scen {
    ($f:ident, $t:ty, $mode:expr, $hash:expr) => {
        fn $f() -> ScenarioFuture {
            Box::pin(run::<$t>(opts($mode, $hash)))
        }
    };
}

scen!(join_vec, ObservableVec<u16>, Mode::Join, true);
scen!(join_deque, ObservableVecDeque<u16>, Mode::Join, true);
scen!(join_map, ObservableHashMap<Key, u16>, Mode::Join, true);
scen!(join_set, ObservableHashSet<Key>, Mode::Join, true);
scen!(join_drop_vec, ObservableVec<u16>, Mode::JoinDrop, true);
scen!(join_drop_map, ObservableHashMap<Key, u16>, Mode::JoinDrop, true);
scen!(lag_vec, ObservableVec<u16>, Mode::Lag, true);
scen!(lag_deque, ObservableVecDeque<u16>, Mode::Lag, true);
scen!(lag_map, ObservableHashMap<Key, u16>, Mode::Lag, true);
scen!(lag_set, ObservableHashSet<Key>, Mode::Lag, true);
scen!(max_vec, ObservableVec<u16>, Mode::MaxSize { avoid_f8: false }, true);
scen!(max_deque, ObservableVecDeque<u16>, Mode::MaxSize { avoid_f8: false }, true);
scen!(max_vec_push, ObservableVec<u16>, Mode::MaxSize { avoid_f8: true }, true);
scen!(max_deque_push, ObservableVecDeque<u16>, Mode::MaxSize { avoid_f8: true }, true);
scen!(max_map, ObservableHashMap<Key, u16>, Mode::MaxSize { avoid_f8: false }, true);
scen!(max_set, ObservableHashSet<Key>, Mode::MaxSize { avoid_f8: false }, true);
scen!(max_list, ObservableList<u16>, Mode::MaxSize { avoid_f8: false }, false);
scen!(cut_vec, ObservableVec<u16>, Mode::Cut, true);
scen!(cut_deque, ObservableVecDeque<u16>, Mode::Cut, true);
scen!(cut_map, ObservableHashMap<Key, u16>, Mode::Cut, true);
scen!(cut_set, ObservableHashSet<Key>, Mode::Cut, true);
scen!(list_bp, ObservableList<u16>, Mode::Lag, false);
scen!(list_cut, ObservableList<u16>, Mode::Cut, false);

pub fn checks() -> Vec<Check> {
    let sc = |name, weight, run| Scenario { name, weight, max_polls: 600_000, max_virtual_secs: 48 * 3600, run };
    vec![Check {
        id: "C14",
        level: "exploration",
        classes: vec!["c14"],
        scenarios: vec![
            sc("join-mirror-vec", 2, join_vec),
            sc("join-mirror-vec-deque", 1, join_deque),
            sc("join-mirror-hash-map", 1, join_map),
            sc("join-mirror-hash-set", 1, join_set),
            sc("join-mirror-upstream-lost-vec", 1, join_drop_vec),
            sc("join-mirror-upstream-lost-hash-map", 1, join_drop_map),
            sc("lag-vec", 4, lag_vec),
            sc("lag-vec-deque", 3, lag_deque),
            sc("lag-hash-map", 3, lag_map),
            sc("lag-hash-set", 2, lag_set),
            sc("max-size-vec", 1, max_vec),
            sc("max-size-vec-deque", 1, max_deque),
            sc("max-size-vec-push-only", 2, max_vec_push),
            sc("max-size-vec-deque-push-only", 2, max_deque_push),
            sc("max-size-hash-map", 2, max_map),
            sc("max-size-hash-set", 1, max_set),
            sc("max-size-list", 1, max_list),
            sc("cut-vec", 2, cut_vec),
            sc("cut-vec-deque", 1, cut_deque),
            sc("cut-hash-map", 2, cut_map),
            sc("cut-hash-set", 1, cut_set),
            sc("list-back-pressure", 4, list_bp),
            sc("list-cut", 2, list_cut),
        ],
        quick: (30_000, 50),
        thorough: (300_000, 600),
        rule: "each evaluation is one seeded run: one collection type, 3..40 steps of a (mostly bursty) mutator, up to 5 subscribers joining at any step (mirrors and raw \
subscriptions; local, held before use, or 1-2 connections away; slow consumers; event buffers 1..3 or mirror max_size 0..8), borrow / borrow_and_update peeks at any step, \
ending by done(), drop without done(), done()+drop or keep-alive, optional link fault at a drawn frame; non-trivial = at least one subscriber and two events; \
distinct = distinct (plan hash, poll-order hash) pairs",
        assumptions: vec![
            "one reference state per expected event (the per-call event order of hash containers is read off the observable's own iteration order)",
            "an initial snapshot that is already larger than max_size is not required to fail (no event was applied); growth by an applied event is",
            "after a link fault a remote subscriber must end with an error unless it had received Done; Closed is accepted only for a collection dropped before done()",
            "the scenarios max-size-vec and max-size-vec-deque contain the trigger of known finding F8; the *-push-only variants avoid it",
        ],
        required_probes: vec![
            "mirror_lagged", "raw_lagged", "mirror_closed", "raw_closed", "mirror_max_size_exceeded", "mirror_remote_error", "raw_remote_error",
            "dropped_before_done", "link_fault_armed", "subscription_held_before_use", "peek_ok", "peek_err", "mirror_detached",
            "mirror_remote_1hop", "mirror_remote_2hop", "hand_consumer_remote", "list.push", "settle_check", "mirror_resubscribed", "resubscribed_while_mirror_view_held",
        ],
        real_components: "remoc::robs::{vec,vec_deque,hash_map,hash_set,list} observables, subscriptions, mirror tasks; remoc::rch::broadcast lag path; remoc::rch::{mpsc,base}; remoc::chmux; default codec",
        stub_components: STUB_NET,
    }]
}
