//! C05, additional scenario — a half that came back from a failed send is still wired one-to-one.
//!
//! A value carrying one half of a channel (bin, lr, mpsc, oneshot) is sent over a base channel and
//! the send fails *after* the half was serialised: the value exceeds the sender's max_item_size, a
//! later field fails to serialise, or the other halves in it need more ports than are free. The
//! value comes back inside the error. The application then sends the same half again, or the
//! opposite half instead, in a value that fits. Whichever half arrives must be wired to the half
//! that stayed, and to nothing else: the channel carries its own sequence completely, nobody is
//! left pending, and nothing is refused (an lr channel whose first half never left is not "already
//! sent").

use std::{
    sync::{Arc, Mutex},
    time::Duration,
};

use bytes::Bytes;
use remoc::rch::{base, bin, lr, mpsc, oneshot};
use serde::{Deserialize, Serialize};
use serde_json::json;

use crate::{
    harness::ScenarioFuture,
    kit,
    mux::{self, CfgProfile},
    net::LinkCfg,
    proto::MonitorMode,
};

type V = u32;

#[derive(Serialize, Deserialize)]
enum H {
    BinTx(bin::Sender),
    BinRx(bin::Receiver),
    LrTx(lr::Sender<V>),
    LrRx(lr::Receiver<V>),
    MpscTx(mpsc::Sender<V>),
    MpscRx(mpsc::Receiver<V>),
    OneTx(oneshot::Sender<V>),
    OneRx(oneshot::Receiver<V>),
}

impl H {
    fn name(&self) -> &'static str {
        match self {
            H::BinTx(_) => "bin-tx",
            H::BinRx(_) => "bin-rx",
            H::LrTx(_) => "lr-tx",
            H::LrRx(_) => "lr-rx",
            H::MpscTx(_) => "mpsc-tx",
            H::MpscRx(_) => "mpsc-rx",
            H::OneTx(_) => "oneshot-tx",
            H::OneRx(_) => "oneshot-rx",
        }
    }
    fn is_tx(&self) -> bool {
        matches!(self, H::BinTx(_) | H::LrTx(_) | H::MpscTx(_) | H::OneTx(_))
    }
}

/// Fails to serialise (never deserialised).
#[derive(Deserialize)]
struct Bad(u8);

impl Serialize for Bad {
    fn serialize<S: serde::Serializer>(&self, _s: S) -> Result<S::Ok, S::Error> {
        Err(serde::ser::Error::custom("injected serialisation failure"))
    }
}

#[derive(Serialize, Deserialize)]
struct Msg {
    label: u32,
    halves: Vec<H>,
    /// More halves (of throw-away channels) that use up ports.
    extra: Vec<mpsc::Receiver<V>>,
    pad: Vec<u8>,
    bad: Option<Bad>,
}

fn viol(kind: &str, detail: String) {
    kit::class_violation("c05", kind.to_string(), format!("c05:retry:{kind}"), detail);
}

const N: u32 = 3;

/// Sends the channel's sequence through a sending half.
async fn drive_tx(h: H, label: u32, log: Arc<Mutex<Vec<String>>>) {
    let note = |s: String| log.lock().unwrap().push(s);
    match h {
        H::BinTx(tx) => match tx.into_inner().await {
            Ok(mut tx) => {
                for i in 0..N {
                    if let Err(e) = tx.send(Bytes::from((label * 16 + i).to_le_bytes().to_vec())).await {
                        note(format!("tx error: bin send: {e}"));
                        return;
                    }
                }
                note("tx done".into());
            }
            Err(e) => note(format!("tx error: bin connect: {e}")),
        },
        H::LrTx(mut tx) => {
            for i in 0..N {
                if let Err(e) = tx.send(label * 16 + i).await {
                    note(format!("tx error: lr send: {}", e.kind));
                    return;
                }
            }
            note("tx done".into());
        }
        H::MpscTx(tx) => {
            for i in 0..N {
                if let Err(e) = tx.send(label * 16 + i).await {
                    note(format!("tx error: mpsc send: {e}"));
                    return;
                }
            }
            note("tx done".into());
        }
        H::OneTx(tx) => match tx.send(label * 16) {
            Ok(_sending) => note("tx done".into()),
            Err(_) => note("tx error: oneshot send".into()),
        },
        _ => {}
    }
    kit::activity();
}

/// Receives through a receiving half until the channel ends.
async fn drive_rx(h: H, got: Arc<Mutex<Vec<V>>>, log: Arc<Mutex<Vec<String>>>) {
    let note = |s: String| log.lock().unwrap().push(s);
    match h {
        H::BinRx(rx) => match rx.into_inner().await {
            Ok(mut rx) => loop {
                match rx.recv().await {
                    Ok(Some(d)) => {
                        let v = Vec::from(d);
                        got.lock().unwrap().push(u32::from_le_bytes(v.get(..4).and_then(|b| b.try_into().ok()).unwrap_or([0xff; 4])));
                        kit::activity();
                    }
                    Ok(None) => {
                        note("rx end".into());
                        break;
                    }
                    Err(e) => {
                        note(format!("rx error: bin recv: {e}"));
                        break;
                    }
                }
            },
            Err(e) => note(format!("rx error: bin connect: {e}")),
        },
        H::LrRx(mut rx) => loop {
            match rx.recv().await {
                Ok(Some(v)) => {
                    got.lock().unwrap().push(v);
                    kit::activity();
                }
                Ok(None) => {
                    note("rx end".into());
                    break;
                }
                Err(e) => {
                    note(format!("rx error: lr recv: {e}"));
                    break;
                }
            }
        },
        H::MpscRx(mut rx) => loop {
            match rx.recv().await {
                Ok(Some(v)) => {
                    got.lock().unwrap().push(v);
                    kit::activity();
                }
                Ok(None) => {
                    note("rx end".into());
                    break;
                }
                Err(e) => {
                    note(format!("rx error: mpsc recv: {e}"));
                    if e.is_final() {
                        break;
                    }
                }
            }
        },
        H::OneRx(rx) => match rx.await {
            Ok(v) => {
                got.lock().unwrap().push(v);
                note("rx end".into());
            }
            Err(e) => note(format!("rx error: oneshot recv: {e}")),
        },
        _ => {}
    }
    kit::activity();
}

async fn run() {
    kit::draw_sched_policy();
    kit::set_port_space(kit::pick(&[0u32, 64]));
    let mut cfg_a = mux::draw_cfg(CfgProfile::Roomy);
    let mut cfg_b = mux::draw_cfg(CfgProfile::Roomy);
    let scarce = kit::coin(1, 3);
    for c in [&mut cfg_a, &mut cfg_b] {
        c.connection_timeout = None;
        c.max_ports = if scarce { 6 } else { 64 };
    }
    let link_cfg = LinkCfg::draw();
    let pair = match mux::connect_rch::<Msg, ()>("AB", cfg_a.clone(), cfg_b.clone(), link_cfg, MonitorMode::Full).await {
        Ok(p) => p,
        Err(e) => return kit::abort_run(e),
    };
    let mux::RchPair { mut a_tx, a_rx: _a_rx, b_tx: _b_tx, mut b_rx, conn_a, conn_b, ctl: _ctl } = pair;
    // B receives all the time (a streamed value that fails half-way shows up as a non-final error).
    let inbox: Arc<Mutex<Vec<Msg>>> = Arc::new(Mutex::new(Vec::new()));
    let inbox_b = inbox.clone();
    let b_task = kit::spawn(async move {
        loop {
            match b_rx.recv().await {
                Ok(Some(m)) => {
                    inbox_b.lock().unwrap().push(m);
                    kit::activity();
                }
                Ok(None) => break,
                Err(e) if e.is_final() => break,
                Err(_) => {
                    kit::probe("retry_receiver_saw_failed_item");
                    if kit::spinning() {
                        break;
                    }
                }
            }
        }
    });

    let kind = kit::draw(4);
    let label = 40 + kind;
    let (txh, rxh) = match kind {
        0 => {
            let (t, r) = bin::channel();
            (H::BinTx(t), H::BinRx(r))
        }
        1 => {
            let (t, r) = lr::channel::<V, remoc::codec::Default>();
            (H::LrTx(t), H::LrRx(r))
        }
        2 => {
            let (t, r) = mpsc::channel::<V, remoc::codec::Default>(2);
            (H::MpscTx(t), H::MpscRx(r))
        }
        _ => {
            let (t, r) = oneshot::channel::<V, remoc::codec::Default>();
            (H::OneTx(t), H::OneRx(r))
        }
    };
    // Which half travels in the failing send, and what is sent afterwards.
    let first_is_tx = kit::coin(1, 2);
    let (first, other) = if first_is_tx { (txh, rxh) } else { (rxh, txh) };
    let failure = if scarce { kit::draw(3) } else { kit::draw(2) };
    let second_same = kit::coin(1, 2);
    kit::mix_plan(kit::hash_str(&format!("{kind}{first_is_tx}{failure}{second_same}{scarce}")));
    let failure_name = ["max_item_size", "serialize error in a later field", "ports exhausted by later halves"][failure as usize];
    kit::set_sample(json!({"channel": first.name(), "failure": failure_name,
        "then": if second_same { "same half again" } else { "opposite half instead" }, "cfg_a": format!("{cfg_a:?}")}));

    // ---- the failing send ----
    let mut keep_extra = Vec::new();
    let msg = match failure {
        0 => {
            a_tx.set_max_item_size(kit::pick(&[64usize, 200]));
            Msg { label, halves: vec![first], extra: vec![], pad: vec![7; kit::pick(&[300usize, 5000, 70_000])], bad: None }
        }
        1 => Msg { label, halves: vec![first], extra: vec![], pad: vec![1; kit::pick(&[0usize, 100, 70_000])], bad: Some(Bad(0)) },
        _ => {
            let mut extra = Vec::new();
            for _ in 0..8 {
                let (t, r) = mpsc::channel::<V, remoc::codec::Default>(1);
                keep_extra.push(t);
                extra.push(r);
            }
            Msg { label, halves: vec![first], extra, pad: vec![], bad: None }
        }
    };
    let back = match kit::within(Duration::from_secs(3600), a_tx.send(msg)).await {
        Some(Err(e)) => {
            kit::probe(match failure {
                0 => "failed_send_max_item_size",
                1 => "failed_send_serialize_error",
                _ => "failed_send_ports_exhausted",
            });
            if e.kind.is_final() {
                // The base channel itself broke (not the subject here).
                kit::probe("retry_base_channel_broke");
                conn_a.abort();
                conn_b.abort();
                return;
            }
            e.item
        }
        Some(Ok(())) => {
            // The send went through after all (e.g. enough ports): the halves are gone; nothing to retry.
            kit::probe("retry_first_send_succeeded");
            conn_a.abort();
            conn_b.abort();
            return;
        }
        None => {
            viol("failing-send-hangs", format!("a send that must fail ({failure}) is still pending after an hour of virtual time"));
            return;
        }
    };
    drop(keep_extra);
    let Msg { halves, .. } = back;
    let Some(first) = halves.into_iter().next() else { return kit::abort_run("half not returned") };
    a_tx.set_max_item_size(usize::MAX / 4);

    // ---- the second send ----
    let (travels, stays) = if second_same { (first, other) } else { (other, first) };
    let travels_name = travels.name();
    let msg = Msg { label, halves: vec![travels], extra: vec![], pad: vec![], bad: None };
    match kit::within(Duration::from_secs(3600), a_tx.send(msg)).await {
        Some(Ok(())) => kit::probe("retry_second_send_ok"),
        Some(Err(e)) => {
            viol(
                "half-refused-after-failed-send",
                format!("after a failed send of a value holding one half of a {} channel, sending {} was refused: {}", stays.name().split('-').next().unwrap_or(""), if second_same { "the same half again" } else { "the opposite half" }, e.kind),
            );
            return;
        }
        None => {
            viol("second-send-hangs", format!("sending {travels_name} after the failed send is still pending after an hour of virtual time"));
            return;
        }
    }
    kit::settle().await;
    let got_msg = match inbox.lock().unwrap().pop() {
        Some(m) => m,
        None => {
            viol("value-not-received", format!("the value carrying {travels_name} was sent successfully but did not arrive"));
            return;
        }
    };
    let Some(arrived) = got_msg.halves.into_iter().next() else { return kit::abort_run("no half in received value") };

    // ---- use the channel ----
    let got = Arc::new(Mutex::new(Vec::new()));
    let log = Arc::new(Mutex::new(Vec::new()));
    let (tx_half, rx_half) = if arrived.is_tx() { (arrived, stays) } else { (stays, arrived) };
    let t1 = kit::spawn(drive_tx(tx_half, label, log.clone()));
    let t2 = kit::spawn(drive_rx(rx_half, got.clone(), log.clone()));
    kit::settle().await;
    if kit::is_aborted() {
        return;
    }
    let want: Vec<V> = (0..if kind == 3 { 1 } else { N }).map(|i| label * 16 + i).collect();
    let got = got.lock().unwrap().clone();
    let log = log.lock().unwrap().clone();
    if !t1.is_finished() || !t2.is_finished() {
        viol(
            "end-pending",
            format!(
                "after a failed send and re-sending {} the two ends of the channel are not connected to each other: sender finished {}, receiver finished {}, received {:?}, events {:?}",
                travels_name,
                t1.is_finished(),
                t2.is_finished(),
                got,
                log
            ),
        );
        t1.abort();
        t2.abort();
    } else if got != want || log.iter().any(|l| l.contains("error")) {
        viol("wrong-or-missing-values", format!("channel re-sent after a failed send ({travels_name} travelled): received {got:?}, expected {want:?}, events {log:?}"));
    } else {
        kit::probe("retry_channel_ok");
        kit::set_nontrivial();
    }
    b_task.abort();
    conn_a.abort();
    conn_b.abort();
}

pub fn sc_retry() -> ScenarioFuture {
    Box::pin(run())
}
