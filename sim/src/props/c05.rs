//! C05 — channel halves embedded in values are wired one-to-one to their counterparts.
//!
//! 2..4 real endpoints on a line ("AB", "BC", "CD"). Endpoint 0 creates up to 8 channels of all
//! remote channel types, embeds one (or both) halves of each, tagged with the channel's label, at
//! drawn nesting positions of one or two generated values (vectors, options, tuples, maps, enums,
//! padding that pushes the value over `max_data_size`, i.e. streamed serialisation) and sends the
//! values over the base channel (or over an `rch::mpsc` channel whose receiver was shipped first) to
//! the next endpoint. Intermediate endpoints are real receivers that send the received value onward
//! (1..3 hops). Items may already be queued when a receiving half is handed over.
//!
//! Every channel has exactly one *source* actor (sends the channel's own sequence
//! `label*16 + 0, label*16 + 1, ..`) and one *sink* actor (receives until the channel ends), each
//! living at endpoint 0 (counterpart kept) or at the destination (half delivered).
//!
//! Oracle
//!  * safety, at every receive: a sink only ever sees values of its own channel, in order, no
//!    duplicates (watch / broadcast: an increasing subsequence) — never a foreign label;
//!  * completeness: without link faults, if both actors of a channel exist (the half arrived at its
//!    destination), the sink receives the whole sequence and then the end of the channel, and the
//!    source sees no error — however scarce ports and credits are;
//!  * liveness: after `settle()` no actor is pending: an end whose counterpart could not be
//!    connected (value refused for lack of ports, lost, link cut) has terminated with an error or the
//!    end of the channel;
//!  * with ample ports nothing may be refused or lost.

use std::{
    collections::BTreeMap,
    sync::{Arc, Mutex},
    time::Duration,
};

use bytes::{Buf, Bytes};
use remoc::{
    codec,
    rch::{DEFAULT_BUFFER, base, bin, broadcast, lr, mpsc, oneshot, watch},
};
use serde::{Deserialize, Serialize};
use serde_json::json;

use crate::{
    harness::{Check, Scenario, ScenarioFuture},
    kit,
    mux::{self, CfgProfile},
    net::{Fault, FaultKind, LinkCfg, LinkCtl},
    proto::MonitorMode,
    props::STUB_NET,
};

type V = u32;
type BcastRx = broadcast::Receiver<V, codec::Default, DEFAULT_BUFFER>;

#[derive(Serialize, Deserialize)]
enum Half {
    MpscTx(mpsc::Sender<V>),
    MpscRx(mpsc::Receiver<V>),
    OneTx(oneshot::Sender<V>),
    OneRx(oneshot::Receiver<V>),
    WatchTx(watch::Sender<V>),
    WatchRx(watch::Receiver<V>),
    BcastRx(BcastRx),
    BinTx(bin::Sender),
    BinRx(bin::Receiver),
    LrTx(lr::Sender<V>),
    LrRx(lr::Receiver<V>),
}

impl Half {
    fn name(&self) -> &'static str {
        match self {
            Half::MpscTx(_) => "mpsc-tx",
            Half::MpscRx(_) => "mpsc-rx",
            Half::OneTx(_) => "oneshot-tx",
            Half::OneRx(_) => "oneshot-rx",
            Half::WatchTx(_) => "watch-tx",
            Half::WatchRx(_) => "watch-rx",
            Half::BcastRx(_) => "broadcast-rx",
            Half::BinTx(_) => "bin-tx",
            Half::BinRx(_) => "bin-rx",
            Half::LrTx(_) => "lr-tx",
            Half::LrRx(_) => "lr-rx",
        }
    }
}

#[derive(Serialize, Deserialize)]
enum Var {
    Unit,
    New(Shape),
    Tuple(Shape, u16, Shape),
    Struct { a: Shape, pad: Vec<u8>, b: Option<Shape> },
}

#[derive(Serialize, Deserialize)]
enum Shape {
    /// A channel half tagged with the label of its channel; `from` is the index of the first value a
    /// delivered sending half has to send.
    Leaf { label: u32, from: u8, half: Half },
    Seq(Vec<Shape>),
    Opt(Option<Box<Shape>>),
    Pair(Box<(Shape, Shape)>),
    Map(BTreeMap<u32, Shape>),
    Variant(Box<Var>),
    Pad(Vec<u8>),
}

impl Shape {
    fn leaves(self, out: &mut Vec<(u32, u8, Half)>) {
        match self {
            Shape::Leaf { label, from, half } => out.push((label, from, half)),
            Shape::Seq(v) => v.into_iter().for_each(|s| s.leaves(out)),
            Shape::Opt(o) => {
                if let Some(s) = o {
                    s.leaves(out)
                }
            }
            Shape::Pair(p) => {
                let (a, b) = *p;
                a.leaves(out);
                b.leaves(out);
            }
            Shape::Map(m) => m.into_values().for_each(|s| s.leaves(out)),
            Shape::Variant(v) => match *v {
                Var::Unit => {}
                Var::New(s) => s.leaves(out),
                Var::Tuple(a, _, b) => {
                    a.leaves(out);
                    b.leaves(out);
                }
                Var::Struct { a, b, .. } => {
                    a.leaves(out);
                    if let Some(b) = b {
                        b.leaves(out);
                    }
                }
            },
            Shape::Pad(_) => {}
        }
    }

    fn describe(&self) -> String {
        match self {
            Shape::Leaf { label, half, .. } => format!("{}#{label}", half.name()),
            Shape::Seq(v) => format!("[{}]", v.iter().map(|s| s.describe()).collect::<Vec<_>>().join(",")),
            Shape::Opt(None) => "None".into(),
            Shape::Opt(Some(s)) => format!("Some({})", s.describe()),
            Shape::Pair(p) => format!("({},{})", p.0.describe(), p.1.describe()),
            Shape::Map(m) => format!("{{{}}}", m.iter().map(|(k, s)| format!("{k}:{}", s.describe())).collect::<Vec<_>>().join(",")),
            Shape::Variant(v) => match &**v {
                Var::Unit => "E::Unit".into(),
                Var::New(s) => format!("E::New({})", s.describe()),
                Var::Tuple(a, _, b) => format!("E::Tuple({},_,{})", a.describe(), b.describe()),
                Var::Struct { a, pad, b } => format!("E::Struct{{a:{},pad:{}B,b:{}}}", a.describe(), pad.len(), b.as_ref().map(|b| b.describe()).unwrap_or("None".into())),
            },
            Shape::Pad(p) => format!("pad{}B", p.len()),
        }
    }
}

/// Builds a nested value around the given items.
fn build_shape(mut items: Vec<Shape>) -> Shape {
    let mut rounds = 0;
    while rounds < 10 && (items.len() > 1 || (rounds == 0 && kit::coin(1, 2))) {
        rounds += 1;
        if items.is_empty() {
            items.push(match kit::draw(3) {
                0 => Shape::Opt(None),
                1 => Shape::Variant(Box::new(Var::Unit)),
                _ => Shape::Seq(Vec::new()),
            });
            continue;
        }
        let n = kit::draw_range(1, items.len().min(3) as u32) as usize;
        let at = kit::draw((items.len() - n + 1) as u32) as usize;
        let mut taken: Vec<Shape> = items.drain(at..at + n).collect();
        let wrapped = match (kit::draw(5), n) {
            (0, _) => Shape::Seq(taken),
            (1, 1) => Shape::Opt(Some(Box::new(taken.pop().unwrap()))),
            (1, 2) | (2, 2) => {
                let b = taken.pop().unwrap();
                let a = taken.pop().unwrap();
                Shape::Pair(Box::new((a, b)))
            }
            (3, _) | (1, _) => {
                let mut m = BTreeMap::new();
                // Keys in descending order of insertion: the map orders them, the halves must follow.
                for (i, s) in taken.into_iter().enumerate() {
                    m.insert(1000 - 7 * i as u32 + kit::draw(5), s);
                }
                Shape::Map(m)
            }
            (_, 1) => Shape::Variant(Box::new(Var::New(taken.pop().unwrap()))),
            (_, 2) => {
                let b = taken.pop().unwrap();
                let a = taken.pop().unwrap();
                Shape::Variant(Box::new(Var::Tuple(a, 0xBEEF, b)))
            }
            _ => {
                let c = taken.pop().unwrap();
                let b = taken.pop().unwrap();
                let a = taken.pop().unwrap();
                Shape::Variant(Box::new(Var::Struct { a: Shape::Seq(vec![a, b]), pad: vec![7; kit::draw(9) as usize], b: Some(c) }))
            }
        };
        let pos = kit::draw(items.len() as u32 + 1) as usize;
        items.insert(pos, wrapped);
    }
    match items.len() {
        1 => items.pop().unwrap(),
        _ => Shape::Seq(items),
    }
}

#[derive(Serialize, Deserialize)]
struct Carrier {
    id: u32,
    dest: u8,
    shape: Shape,
}

#[derive(Serialize, Deserialize)]
enum Wire {
    Carrier(Carrier),
    /// The receiver of an mpsc channel that carries the values of this hop from now on.
    CarrierChannel(mpsc::Receiver<Carrier>),
    /// The receiving half of a bin channel that is handed on to endpoint `dest`; endpoint 0 layers a base
    /// channel over it, so that values (and the port requests of their halves) pass through the chmux
    /// forwarders of the endpoints in between.
    Tunnel { dest: u8, rx: bin::Receiver },
}

// ------------------------------------------------------------------------------------------
// Channel bookkeeping
// ------------------------------------------------------------------------------------------

#[derive(Clone, Copy, Debug, PartialEq, Eq)]
enum Kind {
    MpscTx,
    MpscRx,
    MpscBoth,
    OneTx,
    OneRx,
    OneBoth,
    WatchTx,
    WatchRx,
    WatchBoth,
    BcastRx,
    BinTx,
    BinRx,
    /// Both halves of a bin channel leave endpoint 0: the second one is forwarded.
    BinBoth,
    LrTx,
    LrRx,
}

#[derive(Clone, Debug, PartialEq)]
enum Outcome {
    /// Source: everything sent (and acknowledged where the channel type acknowledges). Sink: end of channel.
    Done,
    Err(String),
}

#[derive(Default, Clone, Debug)]
struct Actor {
    started: bool,
    at_dest: bool,
    outcome: Option<Outcome>,
}

struct Chan {
    label: u32,
    kind: Kind,
    /// The channel's own value sequence.
    seq: Vec<V>,
    /// Gaps are legal (watch, broadcast with lag).
    gaps_ok: bool,
    /// Only the last value is guaranteed (watch).
    last_only: bool,
    received: Vec<V>,
    /// Values queued by endpoint 0 before the halves left.
    pre: usize,
    src: Actor,
    snk: Actor,
    lagged: bool,
}

struct World {
    chans: Mutex<BTreeMap<u32, Chan>>,
    /// Per carrier id: what happened to it.
    carriers: Mutex<BTreeMap<u32, Vec<String>>>,
    delivered: Mutex<Vec<u32>>,
    cut: bool,
    ample_ports: bool,
}

fn viol(kind: &'static str, detail: String) {
    kit::class_violation("c05", kind, format!("c05:{kind}"), detail);
}

fn chan_desc(c: &Chan) -> String {
    format!(
        "channel #{} {:?} sequence {:?} received {:?} source(started {}, at destination {}, {:?}) sink(started {}, at destination {}, {:?})",
        c.label, c.kind, c.seq, c.received, c.src.started, c.src.at_dest, c.src.outcome, c.snk.started, c.snk.at_dest, c.snk.outcome
    )
}

impl World {
    fn start(&self, label: u32, source: bool, at_dest: bool) {
        let mut chans = self.chans.lock().unwrap();
        let Some(c) = chans.get_mut(&label) else {
            viol("unknown-label", format!("a half tagged with unknown label {label} was delivered"));
            return;
        };
        let a = if source { &mut c.src } else { &mut c.snk };
        if a.started {
            viol("half-duplicated", format!("{} half of channel #{label} was started twice", if source { "sending" } else { "receiving" }));
        }
        a.started = true;
        a.at_dest = at_dest;
        kit::activity();
    }

    fn finish(&self, label: u32, source: bool, outcome: Outcome) {
        let mut chans = self.chans.lock().unwrap();
        if let Some(c) = chans.get_mut(&label) {
            let a = if source { &mut c.src } else { &mut c.snk };
            if matches!(outcome, Outcome::Err(_)) {
                kit::probe(if source { "source_error" } else { "sink_error" });
            }
            a.outcome = Some(outcome);
        }
        kit::activity();
    }

    /// Safety oracle: called by a sink for every value it obtains.
    fn received(&self, label: u32, v: V) -> bool {
        kit::seq();
        kit::activity();
        let mut chans = self.chans.lock().unwrap();
        let c = chans.get_mut(&label).unwrap();
        let pos = c.seq.iter().position(|x| *x == v);
        let next = c.received.len();
        let ok = match pos {
            None => false,
            Some(p) if c.gaps_ok => c.received.last().map(|l| c.seq.iter().position(|x| x == l).unwrap() < p).unwrap_or(true),
            Some(p) => p == next,
        };
        if !ok {
            let kind = if v / 16 != label {
                "foreign-label"
            } else if c.received.contains(&v) {
                "duplicate-value"
            } else {
                "out-of-order-or-gap"
            };
            let d = chan_desc(c);
            viol(kind, format!("sink of channel #{label} obtained {v} (= label {} index {}); {d}", v / 16, v % 16));
            return false;
        }
        c.received.push(v);
        true
    }

    fn note_carrier(&self, id: u32, what: String) {
        self.carriers.lock().unwrap().entry(id).or_default().push(what);
        kit::activity();
    }
}

// ------------------------------------------------------------------------------------------
// Source and sink actors
// ------------------------------------------------------------------------------------------

enum Src {
    Mpsc(mpsc::Sender<V>),
    One(oneshot::Sender<V>),
    Watch(watch::Sender<V>),
    Bcast(broadcast::Sender<V>),
    Bin(bin::Sender),
    Lr(lr::Sender<V>),
}

enum Snk {
    Mpsc(mpsc::Receiver<V>),
    One(oneshot::Receiver<V>),
    Watch(watch::Receiver<V>),
    Bcast(BcastRx),
    Bin(bin::Receiver),
    Lr(lr::Receiver<V>),
}

async fn source(world: Arc<World>, label: u32, from: usize, half: Src, at_dest: bool) {
    world.start(label, true, at_dest);
    let values: Vec<V> = {
        let chans = world.chans.lock().unwrap();
        chans.get(&label).map(|c| c.seq[from.min(c.seq.len())..].to_vec()).unwrap_or_default()
    };
    let outcome = 'run: {
        match half {
            Src::Mpsc(tx) => {
                let mut pending = Vec::new();
                for v in values {
                    match tx.send(v).await {
                        Ok(s) => pending.push(s),
                        Err(e) => break 'run Outcome::Err(format!("mpsc send: {e}")),
                    }
                    kit::activity();
                }
                for s in pending {
                    if let Err(e) = s.await {
                        break 'run Outcome::Err(format!("mpsc sending: {e}"));
                    }
                }
                Outcome::Done
            }
            Src::One(tx) => match values.first() {
                Some(v) => match tx.send(*v) {
                    Ok(s) => match s.await {
                        Ok(()) => Outcome::Done,
                        Err(e) => Outcome::Err(format!("oneshot sending: {e}")),
                    },
                    Err(e) => Outcome::Err(format!("oneshot send: {e}")),
                },
                None => Outcome::Done,
            },
            Src::Watch(tx) => {
                for v in values {
                    if let Err(e) = tx.send(v) {
                        break 'run Outcome::Err(format!("watch send: {e}"));
                    }
                    kit::activity();
                    tokio::time::sleep(Duration::from_micros(300)).await;
                }
                match tx.error() {
                    Some(e) => Outcome::Err(format!("watch sender error: {e}")),
                    None => Outcome::Done,
                }
            }
            Src::Bcast(tx) => {
                for v in values {
                    if let Err(e) = tx.send(v) {
                        break 'run Outcome::Err(format!("broadcast send: {e}"));
                    }
                    kit::activity();
                    tokio::time::sleep(Duration::from_micros(300)).await;
                }
                Outcome::Done
            }
            Src::Bin(tx) => match tx.into_inner().await {
                Ok(mut raw) => {
                    for v in values {
                        if let Err(e) = raw.send(Bytes::copy_from_slice(&v.to_le_bytes())).await {
                            break 'run Outcome::Err(format!("bin send: {e}"));
                        }
                        kit::activity();
                    }
                    Outcome::Done
                }
                Err(e) => Outcome::Err(format!("bin connect: {e}")),
            },
            Src::Lr(mut tx) => {
                for v in values {
                    if let Err(e) = tx.send(v).await {
                        break 'run Outcome::Err(format!("lr send: {e}"));
                    }
                    kit::activity();
                }
                Outcome::Done
            }
        }
    };
    world.finish(label, true, outcome);
}

async fn sink(world: Arc<World>, label: u32, half: Snk, at_dest: bool) {
    world.start(label, false, at_dest);
    let outcome = 'run: {
        match half {
            Snk::Mpsc(mut rx) => loop {
                match rx.recv().await {
                    Ok(Some(v)) => {
                        if !world.received(label, v) {
                            break 'run Outcome::Err("oracle".into());
                        }
                    }
                    Ok(None) => break 'run Outcome::Done,
                    Err(e) if e.is_final() => break 'run Outcome::Err(format!("mpsc recv: {e}")),
                    Err(e) => {
                        kit::note(format!("sink #{label}: non-final {e}"));
                    }
                }
            },
            Snk::One(rx) => match rx.await {
                Ok(v) => {
                    if world.received(label, v) {
                        Outcome::Done
                    } else {
                        Outcome::Err("oracle".into())
                    }
                }
                Err(e) => Outcome::Err(format!("oneshot recv: {e}")),
            },
            Snk::Watch(mut rx) => {
                // The value present on arrival may be any value of the sequence.
                match rx.borrow_and_update() {
                    Ok(v) => {
                        let v = *v;
                        if !world.received(label, v) {
                            break 'run Outcome::Err("oracle".into());
                        }
                    }
                    Err(e) => break 'run Outcome::Err(format!("watch borrow: {e}")),
                }
                loop {
                    match rx.changed().await {
                        Ok(()) => match rx.borrow_and_update() {
                            Ok(v) => {
                                let v = *v;
                                if !world.received(label, v) {
                                    break 'run Outcome::Err("oracle".into());
                                }
                            }
                            Err(e) => break 'run Outcome::Err(format!("watch borrow: {e}")),
                        },
                        // A ChangedError always means that the sender is gone.
                        Err(_) => break 'run Outcome::Done,
                    }
                }
            }
            Snk::Bcast(mut rx) => loop {
                match rx.recv().await {
                    Ok(v) => {
                        if !world.received(label, v) {
                            break 'run Outcome::Err("oracle".into());
                        }
                    }
                    Err(e) if e.is_lagged() => {
                        kit::probe("broadcast_lagged");
                        if let Some(c) = world.chans.lock().unwrap().get_mut(&label) {
                            c.lagged = true;
                        }
                    }
                    Err(e) if e.is_closed() => break 'run Outcome::Done,
                    Err(e) if e.is_final() => break 'run Outcome::Err(format!("broadcast recv: {e}")),
                    Err(e) => kit::note(format!("sink #{label}: non-final {e}")),
                }
            },
            Snk::Bin(rx) => match rx.into_inner().await {
                Ok(mut raw) => loop {
                    match raw.recv().await {
                        Ok(Some(mut data)) => {
                            if data.remaining() != 4 {
                                viol("corrupt-value", format!("bin sink #{label} obtained a message of {} bytes", data.remaining()));
                                break 'run Outcome::Err("oracle".into());
                            }
                            let v = data.get_u32_le();
                            if !world.received(label, v) {
                                break 'run Outcome::Err("oracle".into());
                            }
                        }
                        Ok(None) => break 'run Outcome::Done,
                        Err(e) => break 'run Outcome::Err(format!("bin recv: {e}")),
                    }
                },
                Err(e) => Outcome::Err(format!("bin connect: {e}")),
            },
            Snk::Lr(mut rx) => loop {
                match rx.recv().await {
                    Ok(Some(v)) => {
                        if !world.received(label, v) {
                            break 'run Outcome::Err("oracle".into());
                        }
                    }
                    Ok(None) => break 'run Outcome::Done,
                    Err(e) if e.is_final() => break 'run Outcome::Err(format!("lr recv: {e}")),
                    Err(e) => kit::note(format!("sink #{label}: non-final {e}")),
                }
            },
        }
    };
    world.finish(label, false, outcome);
}

/// Starts the actor of a half that arrived at its destination.
fn start_delivered(world: &Arc<World>, label: u32, from: u8, half: Half) {
    let w = world.clone();
    let from = from as usize;
    match half {
        Half::MpscTx(tx) => drop(kit::spawn(source(w, label, from, Src::Mpsc(tx), true))),
        Half::OneTx(tx) => drop(kit::spawn(source(w, label, from, Src::One(tx), true))),
        Half::WatchTx(tx) => drop(kit::spawn(source(w, label, from, Src::Watch(tx), true))),
        Half::BinTx(tx) => drop(kit::spawn(source(w, label, from, Src::Bin(tx), true))),
        Half::LrTx(tx) => drop(kit::spawn(source(w, label, from, Src::Lr(tx), true))),
        Half::MpscRx(rx) => drop(kit::spawn(sink(w, label, Snk::Mpsc(rx), true))),
        Half::OneRx(rx) => drop(kit::spawn(sink(w, label, Snk::One(rx), true))),
        Half::WatchRx(rx) => drop(kit::spawn(sink(w, label, Snk::Watch(rx), true))),
        Half::BcastRx(rx) => drop(kit::spawn(sink(w, label, Snk::Bcast(rx), true))),
        Half::BinRx(rx) => drop(kit::spawn(sink(w, label, Snk::Bin(rx), true))),
        Half::LrRx(rx) => drop(kit::spawn(sink(w, label, Snk::Lr(rx), true))),
    }
}

// ------------------------------------------------------------------------------------------
// Endpoints
// ------------------------------------------------------------------------------------------

/// Outgoing carrier channel of an endpoint: the base channel of the hop, and optionally an mpsc channel
/// (shipped over the base channel) that carries the values as long as it works. By design an mpsc
/// channel is finished after the first value it could not serialise; the base channel takes over then.
struct Out {
    base: base::Sender<Wire>,
    mpsc: Option<mpsc::Sender<Carrier>>,
    /// Endpoint 0 only: base channel layered over a forwarded bin channel to the given endpoint.
    tunnel: Option<(u8, base::Sender<Carrier>)>,
}

async fn make_out(btx: Option<base::Sender<Wire>>, use_mpsc: bool, buf: usize) -> Option<Out> {
    let mut btx = btx?;
    if !use_mpsc {
        return Some(Out { base: btx, mpsc: None, tunnel: None });
    }
    let (ctx, crx) = mpsc::channel::<Carrier, codec::Default>(buf);
    match btx.send(Wire::CarrierChannel(crx)).await {
        Ok(()) => {
            kit::probe("carrier_over_mpsc_channel");
            Some(Out { base: btx, mpsc: Some(ctx), tunnel: None })
        }
        Err(e) if e.is_item_specific() => {
            // No free port for it: the values travel over the base channel.
            kit::probe("carrier_channel_refused");
            Some(Out { base: btx, mpsc: None, tunnel: None })
        }
        Err(e) => {
            kit::note(format!("setup: cannot ship the carrier channel: {:?}", e.kind));
            None
        }
    }
}

/// One attempt to send a value; on failure returns the value (if it came back), whether the failure is
/// specific to the value, and the error text.
async fn send_once(out: &mut Out, carrier: Carrier) -> Result<(), (Option<Carrier>, bool, String)> {
    if let Some((dest, tx)) = &mut out.tunnel
        && *dest == carrier.dest
    {
        kit::probe("carrier_through_tunnel");
        return match tx.send(carrier).await {
            Ok(()) => Ok(()),
            Err(e) => {
                let text = format!("{:?}", e.kind);
                let specific = e.is_item_specific();
                Err((Some(e.item), specific, text))
            }
        };
    }
    if let Some(tx) = &out.mpsc {
        let res = match tx.send(carrier).await {
            Ok(sending) => match sending.await {
                Ok(()) => Ok(()),
                Err(remoc::rch::SendingError::Send(e)) => {
                    let text = format!("{:?}", e.kind);
                    let specific = e.is_item_specific();
                    Err((Some(e.item), specific, text))
                }
                Err(e) => Err((None, false, format!("{e}"))),
            },
            Err(e) => Err((None, false, format!("{e}"))),
        };
        if res.is_err() {
            // The mpsc channel is finished now; the receiving endpoint falls back to the base channel as well.
            kit::probe("mpsc_carrier_channel_finished");
            out.mpsc = None;
        }
        return res;
    }
    match out.base.send(Wire::Carrier(carrier)).await {
        Ok(()) => Ok(()),
        Err(e) => {
            let text = format!("{:?}", e.kind);
            let specific = e.is_item_specific();
            let Wire::Carrier(c) = e.item else { unreachable!() };
            Err((Some(c), specific, text))
        }
    }
}

/// Sends a carrier to the next endpoint; a refusal that is specific to the value (no free ports) is
/// retried a few times after a pause. Returns false if the value had to be given up.
async fn send_on(world: &Arc<World>, at: usize, out: &mut Out, mut carrier: Carrier) -> bool {
    let id = carrier.id;
    for attempt in 0..3 {
        if attempt > 0 {
            kit::probe("carrier_send_retried");
            tokio::time::sleep(Duration::from_millis(5)).await;
        }
        match send_once(out, carrier).await {
            Ok(()) => {
                world.note_carrier(id, format!("endpoint {at}: sent on"));
                return true;
            }
            Err((Some(c), true, text)) => {
                kit::probe("carrier_refused");
                world.note_carrier(id, format!("endpoint {at}: refused: {text}"));
                carrier = c;
            }
            Err((_, _, text)) => {
                world.note_carrier(id, format!("endpoint {at}: send failed for good: {text}"));
                return false;
            }
        }
    }
    kit::probe("carrier_given_up");
    world.note_carrier(id, format!("endpoint {at}: given up, value dropped"));
    false
}

fn deliver(world: &Arc<World>, at: usize, carrier: Carrier) {
    world.note_carrier(carrier.id, format!("endpoint {at}: delivered {}", carrier.shape.describe()));
    world.delivered.lock().unwrap().push(carrier.id);
    let mut leaves = Vec::new();
    carrier.shape.leaves(&mut leaves);
    for (label, from, half) in leaves {
        kit::probe("half_delivered");
        start_delivered(world, label, from, half);
    }
}

async fn handle(world: &Arc<World>, at: usize, out: &mut Option<Out>, carrier: Carrier) {
    if carrier.dest as usize == at {
        deliver(world, at, carrier);
    } else if let Some(out) = out {
        kit::probe("carrier_forwarded_by_endpoint");
        send_on(world, at, out, carrier).await;
    }
}

async fn endpoint(world: Arc<World>, at: usize, mut rx: base::Receiver<Wire>, btx: Option<base::Sender<Wire>>, use_mpsc: bool, buf: usize) {
    let mut out = make_out(btx, use_mpsc, buf).await;
    let mut via: Option<mpsc::Receiver<Carrier>> = None;
    loop {
        if kit::is_aborted() {
            return;
        }
        enum In {
            Base(Result<Option<Wire>, base::RecvError>),
            Via(Result<Option<Carrier>, mpsc::RecvError>),
        }
        // Both inputs are served: set-up messages keep arriving over the base channel.
        let input = match &mut via {
            None => In::Base(rx.recv().await),
            Some(ch) => tokio::select! {
                biased;
                r = rx.recv() => In::Base(r),
                r = ch.recv() => In::Via(r),
            },
        };
        let carrier = match input {
            In::Base(Ok(Some(Wire::Carrier(c)))) => c,
            In::Base(Ok(Some(Wire::CarrierChannel(ch)))) => {
                via = Some(ch);
                continue;
            }
            In::Base(Ok(Some(Wire::Tunnel { dest, rx }))) => {
                if dest as usize == at {
                    kit::spawn(tunnel_exit(world.clone(), at, rx));
                } else if let Some(out) = &mut out {
                    kit::probe("tunnel_receiver_forwarded");
                    if let Err(e) = out.base.send(Wire::Tunnel { dest, rx }).await {
                        world.note_carrier(u32::MAX, format!("endpoint {at}: tunnel could not be handed on: {:?}", e.kind));
                    }
                }
                continue;
            }
            In::Base(Ok(None)) => return,
            In::Base(Err(e)) if e.is_final() => return,
            In::Via(Ok(Some(c))) => c,
            In::Via(Ok(None)) => {
                via = None;
                continue;
            }
            In::Via(Err(e)) if e.is_final() => {
                via = None;
                continue;
            }
            In::Base(Err(e)) => {
                kit::probe("carrier_lost_at_receiver");
                world.note_carrier(u32::MAX, format!("endpoint {at}: value lost: {e}"));
                continue;
            }
            In::Via(Err(e)) => {
                kit::probe("carrier_lost_at_receiver");
                world.note_carrier(u32::MAX, format!("endpoint {at}: value lost: {e}"));
                continue;
            }
        };
        kit::activity();
        handle(&world, at, &mut out, carrier).await;
    }
}

/// Far end of the tunnel: a base receiver layered over the forwarded bin channel.
async fn tunnel_exit(world: Arc<World>, at: usize, rx: bin::Receiver) {
    let raw = match rx.into_inner().await {
        Ok(raw) => raw,
        Err(e) => {
            world.note_carrier(u32::MAX, format!("endpoint {at}: tunnel not connected: {e}"));
            return;
        }
    };
    let mut rx = base::Receiver::<Carrier>::new(raw);
    loop {
        if kit::is_aborted() {
            return;
        }
        match rx.recv().await {
            Ok(Some(c)) => {
                kit::activity();
                if c.dest as usize == at {
                    deliver(&world, at, c);
                }
            }
            Ok(None) => return,
            Err(e) if e.is_final() => return,
            Err(e) => {
                kit::probe("carrier_lost_at_receiver");
                world.note_carrier(u32::MAX, format!("endpoint {at}: value lost in the tunnel: {e}"));
            }
        }
    }
}

// ------------------------------------------------------------------------------------------
// Scenario
// ------------------------------------------------------------------------------------------

#[derive(Clone, Copy)]
struct Opts {
    /// Small `max_ports`: refusals and lost values occur.
    scarce: bool,
    cut: bool,
    /// All halves travel through a forwarded bin channel over connections that have exactly as many free
    /// ports as the value has halves (plus 0..1): enough for a correct forwarder, never a permanent shortage.
    tight_tunnel: bool,
}

struct PlanChan {
    label: u32,
    kind: Kind,
    /// lr: after the first half was sent, try to send the kept half as well (must be refused).
    try_second: bool,
    len: usize,
    pre: usize,
    buf: usize,
    carrier: [usize; 2],
}

async fn run(opts: Opts) {
    kit::draw_sched_policy();
    kit::set_port_space(if kit::coin(1, 2) { 0 } else { 256 });
    let n_ep = if opts.tight_tunnel { kit::draw_range(3, 4) } else { kit::draw_range(2, 4) } as usize;
    let n_ch_tight = kit::draw_range(1, 4);
    let mut cfgs = Vec::new();
    for _ in 0..n_ep {
        let mut c = mux::draw_cfg(CfgProfile::Tiny);
        c.max_data_size = kit::pick(&[64usize, 256, 2048, 65536]);
        c.max_ports = if opts.tight_tunnel {
            // 2 ports of the base channels + 1 of the tunnel + one per half.
            3 + n_ch_tight + kit::draw(2)
        } else if opts.scarce {
            kit::pick(&[2u32, 3, 4, 5, 6, 8])
        } else {
            kit::pick(&[64u32, 256])
        };
        c.max_received_ports = 128;
        c.connection_timeout = None;
        cfgs.push(c);
    }
    let mut ctls: Vec<LinkCtl> = Vec::new();
    let mut conns = Vec::new();
    let mut links = Vec::new();
    let mut txs: Vec<Option<base::Sender<Wire>>> = Vec::new();
    let mut rxs: Vec<Option<base::Receiver<Wire>>> = vec![None];
    let mut keep = Vec::new();
    for l in 0..n_ep - 1 {
        let link_cfg = LinkCfg::draw();
        links.push(format!("{link_cfg:?}"));
        let name = ["AB", "BC", "CD"][l];
        let pair = match mux::connect_rch::<Wire, Wire>(name, cfgs[l].clone(), cfgs[l + 1].clone(), link_cfg, MonitorMode::Full).await {
            Ok(p) => p,
            Err(e) => {
                kit::abort_run(format!("setup failed: {e}"));
                return;
            }
        };
        let mux::RchPair { a_tx, a_rx, b_tx, b_rx, conn_a, conn_b, ctl } = pair;
        txs.push(Some(a_tx));
        rxs.push(Some(b_rx));
        keep.push((a_rx, b_tx));
        conns.push(kit::spawn(conn_a));
        conns.push(kit::spawn(conn_b));
        if std::env::var_os("SIM_TRACE").is_some() {
            ctl.enable_trace();
        }
        ctls.push(ctl);
    }
    txs.push(None);

    // Plan: channels.
    let n_ch = if opts.tight_tunnel { n_ch_tight } else { kit::draw(9) } as usize;
    let n_car = if !opts.tight_tunnel && n_ch >= 2 && kit::coin(1, 3) { 2 } else { 1 };
    let dests: Vec<usize> =
        (0..n_car).map(|_| kit::draw_range(if opts.tight_tunnel { 2 } else { 1 }, n_ep as u32 - 1) as usize).collect();
    let kinds_all = [
        Kind::MpscTx,
        Kind::MpscRx,
        Kind::OneTx,
        Kind::OneRx,
        Kind::WatchTx,
        Kind::WatchRx,
        Kind::BcastRx,
        Kind::BinTx,
        Kind::BinRx,
        Kind::LrTx,
        Kind::LrRx,
        Kind::MpscBoth,
        Kind::OneBoth,
        Kind::WatchBoth,
        Kind::BinBoth,
    ];
    let mut plan: Vec<PlanChan> = Vec::new();
    for i in 0..n_ch {
        let label = i as u32 + 1;
        let car = kit::draw(n_car as u32) as usize;
        // One half (= one port per connection) per channel in the tight scenario.
        let mut kind = if opts.tight_tunnel { kit::pick(&kinds_all[..11]) } else { kit::pick(&kinds_all) };
        if matches!(kind, Kind::LrTx | Kind::LrRx) && dests[car] != 1 {
            // lr halves cannot be forwarded by design.
            kind = if kind == Kind::LrTx { Kind::BinTx } else { Kind::BinRx };
        }
        let both = matches!(kind, Kind::MpscBoth | Kind::OneBoth | Kind::WatchBoth | Kind::BinBoth);
        let car2 = if both { kit::draw(n_car as u32) as usize } else { car };
        let len = match kind {
            Kind::OneTx | Kind::OneRx | Kind::OneBoth => 1,
            _ => kit::draw_range(1, 4) as usize,
        };
        let buf = kit::pick(&[1usize, 2, 4]);
        let pre = match kind {
            Kind::MpscRx | Kind::MpscBoth | Kind::BcastRx => kit::draw(len.min(buf) as u32 + 1) as usize,
            Kind::OneRx | Kind::OneBoth => kit::draw(2) as usize,
            Kind::WatchRx | Kind::WatchBoth => kit::draw(len as u32) as usize,
            _ => 0,
        };
        let try_second = matches!(kind, Kind::LrTx | Kind::LrRx) && kit::coin(1, 2);
        plan.push(PlanChan { label, kind, try_second, len, pre, buf, carrier: [car, car2] });
    }
    let use_mpsc_carrier = !opts.tight_tunnel && kit::coin(1, 4);
    // Values for one destination at least two hops away may travel through a forwarded bin channel.
    // Only with ample ports: a chmux forwarder waits for a free port by design (`wait`), so a permanent
    // shortage at a forwarder is a permanent wait, not an error.
    let tunnel_to = dests.iter().copied().find(|d| *d >= 2).filter(|_| opts.tight_tunnel || (!opts.scarce && kit::coin(1, 2)));
    let pad_len = kit::pick(&[0usize, 0, 0, 40, 300, 1500]);

    let world = Arc::new(World {
        chans: Mutex::new(BTreeMap::new()),
        carriers: Mutex::new(BTreeMap::new()),
        delivered: Mutex::new(Vec::new()),
        cut: opts.cut,
        ample_ports: !opts.scarce,
    });

    // Create the channels; keep the counterparts at endpoint 0.
    let mut leaves: Vec<Vec<Shape>> = (0..n_car).map(|_| Vec::new()).collect();
    let mut local: Vec<(u32, Option<Src>, Option<Snk>, usize)> = Vec::new();
    let mut second: Vec<(u32, usize, Half)> = Vec::new();
    let mut plan_desc = Vec::new();
    for p in &plan {
        let seq: Vec<V> = (0..p.len as u32).map(|i| p.label * 16 + i).collect();
        let (gaps_ok, last_only) = match p.kind {
            Kind::WatchTx | Kind::WatchRx | Kind::WatchBoth => (true, true),
            Kind::BcastRx => (true, false),
            _ => (false, false),
        };
        world.chans.lock().unwrap().insert(
            p.label,
            Chan { label: p.label, kind: p.kind, seq: seq.clone(), gaps_ok, last_only, received: Vec::new(), pre: p.pre, src: Actor::default(), snk: Actor::default(), lagged: false },
        );
        plan_desc.push(format!("#{} {:?} len {} pre {} buf {} -> carrier {:?}", p.label, p.kind, p.len, p.pre, p.buf, p.carrier));
        let label = p.label;
        let mut push = |car: usize, from: usize, half: Half| leaves[car].push(Shape::Leaf { label, from: from as u8, half });
        match p.kind {
            Kind::MpscTx | Kind::MpscRx | Kind::MpscBoth => {
                let (tx, rx) = mpsc::channel::<V, codec::Default>(p.buf);
                let mut queued = 0;
                for v in seq.iter().take(p.pre) {
                    if tx.try_send(*v).is_ok() {
                        queued += 1;
                    } else {
                        break;
                    }
                }
                if queued > 0 {
                    kit::probe("items_queued_at_hand_over");
                }
                match p.kind {
                    Kind::MpscTx => {
                        push(p.carrier[0], queued, Half::MpscTx(tx));
                        local.push((label, None, Some(Snk::Mpsc(rx)), 0));
                    }
                    Kind::MpscRx => {
                        push(p.carrier[0], 0, Half::MpscRx(rx));
                        local.push((label, Some(Src::Mpsc(tx)), None, queued));
                    }
                    _ => {
                        push(p.carrier[0], queued, Half::MpscTx(tx));
                        push(p.carrier[1], 0, Half::MpscRx(rx));
                    }
                }
            }
            Kind::OneTx | Kind::OneRx | Kind::OneBoth => {
                let (tx, rx) = oneshot::channel::<V, codec::Default>();
                match p.kind {
                    Kind::OneTx => {
                        push(p.carrier[0], 0, Half::OneTx(tx));
                        local.push((label, None, Some(Snk::One(rx)), 0));
                    }
                    Kind::OneRx => {
                        push(p.carrier[0], 0, Half::OneRx(rx));
                        if p.pre > 0 {
                            // The value is already queued when the receiver is handed over.
                            kit::probe("items_queued_at_hand_over");
                            world.start(label, true, false);
                            let out = match tx.send(seq[0]) {
                                Ok(_) => Outcome::Done,
                                Err(e) => Outcome::Err(format!("oneshot send: {e}")),
                            };
                            world.finish(label, true, out);
                        } else {
                            local.push((label, Some(Src::One(tx)), None, 0));
                        }
                    }
                    _ => {
                        push(p.carrier[0], 0, Half::OneTx(tx));
                        push(p.carrier[1], 0, Half::OneRx(rx));
                    }
                }
            }
            Kind::WatchTx | Kind::WatchRx | Kind::WatchBoth => {
                let (tx, rx) = watch::channel::<V, codec::Default>(seq[0]);
                let mut from = 1;
                for v in seq.iter().skip(1).take(p.pre) {
                    let _ = tx.send(*v);
                    from += 1;
                }
                match p.kind {
                    Kind::WatchTx => {
                        push(p.carrier[0], from, Half::WatchTx(tx));
                        local.push((label, None, Some(Snk::Watch(rx)), 0));
                    }
                    Kind::WatchRx => {
                        push(p.carrier[0], 0, Half::WatchRx(rx));
                        local.push((label, Some(Src::Watch(tx)), None, from));
                    }
                    _ => {
                        push(p.carrier[0], from, Half::WatchTx(tx));
                        push(p.carrier[1], 0, Half::WatchRx(rx));
                    }
                }
            }
            Kind::BcastRx => {
                let (tx, rx) = broadcast::channel::<V, codec::Default, DEFAULT_BUFFER>(p.buf.max(p.pre).max(1));
                let mut queued = 0;
                for v in seq.iter().take(p.pre) {
                    if tx.send(*v).is_ok() {
                        queued += 1;
                    }
                }
                if queued > 0 {
                    kit::probe("items_queued_at_hand_over");
                }
                push(p.carrier[0], 0, Half::BcastRx(rx));
                local.push((label, Some(Src::Bcast(tx)), None, queued));
            }
            Kind::BinTx | Kind::BinRx | Kind::BinBoth => {
                let (tx, rx) = bin::channel();
                if p.kind == Kind::BinBoth {
                    kit::probe("both_bin_halves_sent");
                    if kit::coin(1, 2) {
                        push(p.carrier[0], 0, Half::BinTx(tx));
                        push(p.carrier[1], 0, Half::BinRx(rx));
                    } else {
                        push(p.carrier[1], 0, Half::BinRx(rx));
                        push(p.carrier[0], 0, Half::BinTx(tx));
                    }
                } else if p.kind == Kind::BinTx {
                    push(p.carrier[0], 0, Half::BinTx(tx));
                    local.push((label, None, Some(Snk::Bin(rx)), 0));
                } else {
                    push(p.carrier[0], 0, Half::BinRx(rx));
                    local.push((label, Some(Src::Bin(tx)), None, 0));
                }
            }
            Kind::LrTx | Kind::LrRx => {
                let (tx, rx) = lr::channel::<V, codec::Default>();
                if p.kind == Kind::LrTx {
                    push(p.carrier[0], 0, Half::LrTx(tx));
                    if p.try_second {
                        second.push((label, p.carrier[0], Half::LrRx(rx)));
                    } else {
                        local.push((label, None, Some(Snk::Lr(rx)), 0));
                    }
                } else {
                    push(p.carrier[0], 0, Half::LrRx(rx));
                    if p.try_second {
                        second.push((label, p.carrier[0], Half::LrTx(tx)));
                    } else {
                        local.push((label, Some(Src::Lr(tx)), None, 0));
                    }
                }
            }
        }
    }

    // Build the values.
    let mut carriers = Vec::new();
    for (i, mut items) in leaves.into_iter().enumerate() {
        if pad_len > 0 && (i == 0 || kit::coin(1, 2)) {
            let at = kit::draw(items.len() as u32 + 1) as usize;
            items.insert(at, Shape::Pad(mux::payload(5, i as u32, pad_len)));
        }
        let shape = build_shape(items);
        carriers.push(Carrier { id: i as u32, dest: dests[i] as u8, shape });
    }
    let sample = json!({
        "endpoints": n_ep, "destinations": dests, "carrier_over_mpsc": use_mpsc_carrier, "tunnel_to": tunnel_to,
        "values": carriers.iter().map(|c| c.shape.describe()).collect::<Vec<_>>(),
        "channels": plan_desc,
        "cfgs": cfgs.iter().map(|c| format!("max_ports {} max_data_size {} chunk_size {} receive_buffer {}", c.max_ports, c.max_data_size, c.chunk_size, c.receive_buffer)).collect::<Vec<_>>(),
        "links": links, "cut": opts.cut,
    });
    kit::mix_plan(kit::hash_str(&sample.to_string()));
    kit::set_sample(sample);

    // Every endpoint first sets up its outgoing carrier channel (optionally an mpsc channel whose receiver is
    // shipped over the base channel), then serves.
    let car_buf = kit::pick(&[1usize, 2]);
    let mut eps = Vec::new();
    let mut tx0 = None;
    for (e, (rx, tx)) in rxs.into_iter().zip(txs).enumerate() {
        match rx {
            None => tx0 = tx,
            Some(rx) => eps.push(kit::spawn(endpoint(world.clone(), e, rx, tx, use_mpsc_carrier, car_buf))),
        }
    }
    let Some(mut out0) = make_out(tx0, use_mpsc_carrier, car_buf).await else {
        kit::abort_run("setup: endpoint 0 has no outgoing channel");
        return;
    };
    if let Some(dest) = tunnel_to {
        let (ttx, trx) = bin::channel();
        match out0.base.send(Wire::Tunnel { dest: dest as u8, rx: trx }).await {
            Ok(()) => match ttx.into_inner().await {
                Ok(raw) => {
                    kit::probe("tunnel_established");
                    out0.tunnel = Some((dest as u8, base::Sender::new(raw)));
                }
                Err(e) => kit::note(format!("tunnel not connected: {e}")),
            },
            Err(e) => kit::note(format!("tunnel not sent: {:?}", e.kind)),
        }
    }

    if opts.cut {
        let l = kit::draw(ctls.len() as u32) as usize;
        let dir = kit::draw(2) as usize;
        let at = ctls[l].sent(dir) + kit::draw(60) as u64;
        let kind = kit::pick(&[FaultKind::SinkError, FaultKind::StreamError, FaultKind::Eof]);
        ctls[l].add_fault(Fault { dir, at, kind, heal_after_us: None });
    }

    // Counterparts at endpoint 0 start right away: items flow while the halves are handed over.
    for (label, src, snk, from) in local {
        if let Some(s) = src {
            kit::spawn(source(world.clone(), label, from, s, false));
        }
        if let Some(s) = snk {
            kit::spawn(sink(world.clone(), label, s, false));
        }
    }
    // Send the values.
    let mut sent = Vec::new();
    for c in carriers {
        let ok = send_on(&world, 0, &mut out0, c).await;
        if !ok {
            kit::probe("carrier_not_sent");
        }
        sent.push(ok);
        if kit::coin(1, 4) {
            tokio::time::sleep(Duration::from_micros(kit::pick(&[100u64, 4000]))).await;
        }
    }
    // Interlock: once one half of an lr channel has been sent, sending the other half is refused with a
    // serialisation error, and the refused half keeps working as the local counterpart.
    for (label, car, half) in second {
        let mut half = Some(half);
        if sent[car] && !opts.cut {
            let c = Carrier { id: 100 + label, dest: 1, shape: Shape::Seq(vec![Shape::Leaf { label, from: 0, half: half.take().unwrap() }]) };
            match send_once(&mut out0, c).await {
                Ok(()) => {
                    viol("second-lr-half-accepted", format!("the second half of lr channel #{label} was accepted for sending although the first half had been sent before"));
                }
                Err((Some(c), true, text)) if text.contains("Serialize") => {
                    kit::probe("second_lr_half_refused");
                    let mut l = Vec::new();
                    c.shape.leaves(&mut l);
                    half = l.pop().map(|(_, _, h)| h);
                }
                Err((_, _, text)) => {
                    viol("second-lr-half-error", format!("sending the second half of lr channel #{label} failed with {text} instead of a serialisation error"));
                }
            }
        }
        match half {
            Some(Half::LrRx(rx)) => drop(kit::spawn(sink(world.clone(), label, Snk::Lr(rx), false))),
            Some(Half::LrTx(tx)) => drop(kit::spawn(source(world.clone(), label, 0, Src::Lr(tx), false))),
            _ => {}
        }
    }

    kit::settle().await;
    if kit::is_aborted() {
        return;
    }

    // Judgement.
    {
        let chans = world.chans.lock().unwrap();
        let carriers = world.carriers.lock().unwrap();
        let delivered = world.delivered.lock().unwrap().clone();
        let history = || carriers.iter().map(|(id, h)| format!("value {id}: {}", h.join("; "))).collect::<Vec<_>>().join(" | ");
        let conn_down = conns.iter().any(|c| c.is_finished());
        let healthy = !world.cut && !conn_down;
        if world.cut && conn_down {
            kit::probe("link_cut_took_effect");
        }
        let mut complete = 0;
        'judge: {
            if healthy && world.ample_ports {
                let refused = carriers.values().flatten().any(|h| h.contains("refused") || h.contains("lost") || h.contains("given up") || h.contains("failed"));
                if refused || delivered.len() != n_car {
                    viol("value-not-transferred", format!("with ample ports a value was refused or lost: {}", history()));
                    break 'judge;
                }
            }
            for c in chans.values() {
                for (a, what) in [(&c.src, "source"), (&c.snk, "sink")] {
                    if a.started && a.outcome.is_none() {
                        kit::probe("actor_pending");
                        viol(
                            if what == "source" { "sending-end-hangs" } else { "receiving-end-hangs" },
                            format!("{what} of a channel is still pending at quiescence; {}; {}", chan_desc(c), history()),
                        );
                        break 'judge;
                    }
                }
                if !healthy {
                    continue;
                }
                if c.src.started && c.snk.started {
                    kit::probe("channel_with_both_ends");
                    let got_all = if c.last_only {
                        c.received.last() == c.seq.last()
                    } else if c.gaps_ok && c.lagged {
                        true
                    } else {
                        c.received == c.seq
                    };
                    if !got_all || c.snk.outcome != Some(Outcome::Done) {
                        let kind = if c.received.is_empty() { "half-not-connected" } else { "values-lost" };
                        viol(kind, format!("both halves of the channel are in place on a healthy connection but the sink did not obtain the sequence and the end of the channel; {}; {}", chan_desc(c), history()));
                        break 'judge;
                    }
                    if c.src.outcome != Some(Outcome::Done) {
                        viol("source-failed", format!("both halves of the channel are in place on a healthy connection but the source failed; {}; {}", chan_desc(c), history()));
                        break 'judge;
                    }
                    complete += 1;
                } else if c.src.started || c.snk.started {
                    kit::probe("channel_with_one_end");
                    // The other half never arrived: this end must not have seen a successful, complete exchange.
                    if c.snk.started && c.received.len() > c.pre {
                        let pre_ok = matches!(c.kind, Kind::WatchTx | Kind::WatchRx | Kind::WatchBoth);
                        if !pre_ok {
                            viol("values-from-nowhere", format!("a sink obtained values although the sending half never arrived anywhere; {}; {}", chan_desc(c), history()));
                            break 'judge;
                        }
                    }
                }
            }
        }
        if complete >= 1 {
            kit::set_nontrivial();
        }
        kit::probe_n("channels_complete", complete);
    }

    if std::env::var_os("SIM_TRACE").is_some() {
        for (i, ctl) in ctls.iter().enumerate() {
            ctl.with(|l| {
                let mut after_data = false;
                for (dir, idx, data) in l.trace.as_deref().unwrap_or(&[]) {
                    if after_data {
                        after_data = false;
                        continue;
                    }
                    let d = crate::proto::decode(data);
                    match d {
                        Ok(crate::proto::Frame::Data { .. }) => {
                            after_data = true;
                            continue;
                        }
                        Ok(crate::proto::Frame::PortCredits { .. }) | Ok(crate::proto::Frame::Ping) => continue,
                        _ => {}
                    }
                    kit::note(format!("link {i} dir {dir} #{idx}: {:?}", d));
                }
            });
        }
    }
    drop(keep);
    for e in eps {
        e.abort();
    }
    for c in conns {
        c.abort();
    }
}

const BASE: Opts = Opts { scarce: false, cut: false, tight_tunnel: false };

fn sc_ample() -> ScenarioFuture {
    Box::pin(run(BASE))
}

fn sc_scarce() -> ScenarioFuture {
    Box::pin(run(Opts { scarce: true, ..BASE }))
}

fn sc_tight_tunnel() -> ScenarioFuture {
    Box::pin(run(Opts { tight_tunnel: true, ..BASE }))
}

fn sc_cut() -> ScenarioFuture {
    Box::pin(async {
        let scarce = kit::coin(1, 3);
        run(Opts { scarce, cut: true, ..BASE }).await
    })
}

pub fn checks() -> Vec<Check> {
    vec![Check {
        id: "C05",
        level: "exploration",
        classes: vec!["c05"],
        scenarios: vec![
            Scenario { name: "halves-ample-ports", weight: 4, max_polls: 600_000, max_virtual_secs: 48 * 3600, run: sc_ample },
            Scenario { name: "halves-scarce-ports", weight: 4, max_polls: 600_000, max_virtual_secs: 48 * 3600, run: sc_scarce },
            Scenario { name: "halves-link-cut", weight: 2, max_polls: 600_000, max_virtual_secs: 48 * 3600, run: sc_cut },
            Scenario { name: "halves-tunnel-tight-ports", weight: 1, max_polls: 600_000, max_virtual_secs: 48 * 3600, run: sc_tight_tunnel },
            Scenario { name: "half-resent-after-failed-send", weight: 2, max_polls: 600_000, max_virtual_secs: 48 * 3600, run: super::c05b::sc_retry },
        ],
        quick: (30_000, 50),
        thorough: (1_000_000, 600),
        rule: "each evaluation is one seeded run: 2..4 endpoints, drawn configurations (max_ports 2..8 in the scarce scenario), link profiles and scheduler policy; 0..8 channels of drawn types \
whose halves are embedded in one or two generated nested values sent over 1..3 hops through real forwarding endpoints, with items queued at hand-over; non-trivial = at least one channel exchanged its whole sequence; \
distinct = distinct (plan hash, poll-order hash) pairs",
        assumptions: vec![
            "labels travel next to the half inside the same value; every channel carries only values derived from its own label",
            "a value that is refused for lack of ports is retried up to twice and then dropped by the application; a value lost by a receiver (non-final error) is not re-sent",
            "lr halves are only sent over one hop (forwarding them is not supported by design)",
        ],
        required_probes: vec![
            "half_delivered",
            "channel_with_both_ends",
            "channel_with_one_end",
            "carrier_forwarded_by_endpoint",
            "carrier_refused",
            "items_queued_at_hand_over",
            "helper_thread_ran",
            "link_cut_took_effect",
            "second_lr_half_refused",
            "both_bin_halves_sent",
            "carrier_over_mpsc_channel",
            "carrier_lost_at_receiver",
            "carrier_through_tunnel",
            "failed_send_max_item_size",
            "failed_send_serialize_error",
            "failed_send_ports_exhausted",
            "retry_channel_ok",
        ],
        real_components: "remoc::rch::{base, mpsc, oneshot, watch, broadcast, bin, lr} incl. streamed (de)serialisation, chmux incl. port forwarding, Connect::framed, default codec",
        stub_components: STUB_NET,
    }]
}
