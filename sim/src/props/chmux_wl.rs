//! Shared chmux-level workload engine for C01 (delivery), C02 (flow-control safety, via the wire
//! monitor) and C03 (flow-control liveness).
//!
//! Two real endpoints, 1..3 ports, per port one or two flows. Each flow has a sender actor that
//! executes a drawn op list (send / try_send / chunked send / cancelled sends / port batches) and a
//! receiver actor that consumes with `recv_any` + `recv_chunk` or plain `recv`.

use std::{
    sync::{Arc, Mutex},
    time::Duration,
};

use bytes::Bytes;
use remoc::chmux::{self, PortReq, Received, RecvChunkError, RecvError, TrySendError};
use serde_json::json;
use tokio::sync::Notify;

use crate::{
    kit,
    mux::{self, CfgProfile},
    net::LinkCfg,
    proto::MonitorMode,
};

#[derive(Clone, Copy, Debug)]
pub struct WlOpts {
    pub profile: CfgProfile,
    pub cancel: bool,
    pub try_send: bool,
    pub chunks: bool,
    pub connect: bool,
    pub stalled_receiver: bool,
    pub asym_latency: bool,
    pub recv_cancel: bool,
    pub max_ops: u32,
}

impl WlOpts {
    pub fn full() -> Self {
        Self {
            profile: CfgProfile::Tiny,
            cancel: true,
            try_send: true,
            chunks: true,
            connect: true,
            stalled_receiver: false,
            asym_latency: false,
            recv_cancel: true,
            max_ops: 12,
        }
    }
}

#[derive(Clone, Debug)]
enum ChunkEnd {
    Finish,
    SendFinal,
    Drop,
}

#[derive(Clone, Debug)]
enum Op {
    Send(usize),
    TrySend(usize),
    Chunks(Vec<usize>, ChunkEnd),
    CancelSend(usize, u32),
    CancelChunks(Vec<usize>, u32),
    Connect(usize, bool),
    CancelConnect(usize, u32),
    Pause(u32),
}

#[derive(Clone, Debug, PartialEq)]
enum Rcv {
    Msg(Vec<u8>),
    Oversize,
}

#[derive(Default)]
struct Flow {
    id: u32,
    sent_ok: Vec<Vec<u8>>,
    received: Vec<Rcv>,
    pending: Option<String>,
    sender_done: bool,
    sender_error: Option<String>,
    receiver_end: Option<String>,
    stalled: bool,
    recv_mode_plain: bool,
    max_data_size: usize,
    requests_seen: usize,
    from_a: bool,
    /// Plain `recv()` mode: number of ExceedsMaxDataSize reports.
    oversize_reports: usize,
    /// Sends that did not complete (cancelled, dropped chunk stream, try_send Full): each may
    /// legitimately leave a partial transmission on the wire.
    incomplete_attempts: usize,
}

type FlowRef = Arc<Mutex<Flow>>;

fn draw_len(cs: usize, rb: usize, mds: usize) -> usize {
    let cands = [
        0,
        1,
        2,
        cs.saturating_sub(1),
        cs,
        cs + 1,
        2 * cs,
        2 * cs + 1,
        rb.saturating_sub(1),
        rb,
        rb + 1,
        mds.saturating_sub(1),
        mds,
        mds + 1,
        2 * mds + 3,
        3 * cs + 2,
    ];
    let v = if kit::coin(1, 4) { kit::draw((4 * mds + 1) as u32) as usize } else { kit::pick(&cands) };
    v.min(1024)
}

fn draw_ops(opts: &WlOpts, cs: usize, rb: usize, mds: usize, connect_ok: bool) -> Vec<Op> {
    let n = kit::draw_range(1, opts.max_ops);
    let mut ops = Vec::new();
    // Swarm: each run enables a random subset of op kinds.
    let en_try = opts.try_send && kit::coin(1, 2);
    let en_chunks = opts.chunks && kit::coin(2, 3);
    let en_cancel = opts.cancel && kit::coin(2, 3);
    let en_connect = opts.connect && connect_ok && kit::coin(1, 2);
    let en_pause = kit::coin(1, 3);
    for _ in 0..n {
        let mut kinds = vec![0u32, 0];
        if en_try {
            kinds.push(1);
        }
        if en_chunks {
            kinds.push(2);
        }
        if en_cancel {
            kinds.push(3);
            if en_chunks {
                kinds.push(4);
            }
        }
        if en_connect {
            kinds.push(5);
            if en_cancel {
                kinds.push(6);
            }
        }
        if en_pause {
            kinds.push(7);
        }
        let op = match kit::pick(&kinds) {
            0 => Op::Send(draw_len(cs, rb, mds)),
            1 => Op::TrySend(draw_len(cs, rb, mds).min(rb + 2)),
            2 | 4 => {
                let parts = kit::draw_range(1, 4);
                let sizes: Vec<usize> = (0..parts).map(|_| draw_len(cs, rb, mds).min(200)).collect();
                if kit::pick(&kinds) == 4 && en_cancel {
                    Op::CancelChunks(sizes, kit::draw_range(0, 8))
                } else {
                    let end = match kit::draw(4) {
                        0 | 1 => ChunkEnd::Finish,
                        2 => ChunkEnd::SendFinal,
                        _ => ChunkEnd::Drop,
                    };
                    Op::Chunks(sizes, end)
                }
            }
            3 => Op::CancelSend(draw_len(cs, rb, mds), kit::draw_range(0, 8)),
            5 => Op::Connect(kit::draw_range(1, 4) as usize, kit::coin(1, 2)),
            6 => Op::CancelConnect(kit::draw_range(1, 4) as usize, kit::draw_range(0, 6)),
            _ => Op::Pause(kit::pick(&[10u32, 1000, 30_000])),
        };
        ops.push(op);
    }
    ops
}

async fn sender_actor(flow: FlowRef, mut tx: chmux::Sender, ops: Vec<Op>) -> chmux::Sender {
    let fid = flow.lock().unwrap().id;
    let mut idx = 0u32;
    let set_pending = |s: &str| flow.lock().unwrap().pending = Some(s.to_string());
    let clear_pending = || flow.lock().unwrap().pending = None;
    let fail = |e: String| flow.lock().unwrap().sender_error = Some(e);

    for op in ops {
        if kit::is_aborted() {
            break;
        }
        idx += 1;
        match op {
            Op::Send(len) => {
                let data = mux::payload(fid, idx, len);
                set_pending("send");
                let res = tx.send(Bytes::from(data.clone())).await;
                clear_pending();
                match res {
                    Ok(()) => {
                        kit::seq();
                        flow.lock().unwrap().sent_ok.push(data);
                    }
                    Err(e) => {
                        fail(format!("send: {e}"));
                        break;
                    }
                }
            }
            Op::TrySend(len) => {
                let data = mux::payload(fid, idx, len);
                match tx.try_send(&Bytes::from(data.clone())) {
                    Ok(()) => {
                        kit::seq();
                        kit::probe("try_send_ok");
                        flow.lock().unwrap().sent_ok.push(data);
                    }
                    Err(TrySendError::Full) => {
                        kit::probe("try_send_full");
                        flow.lock().unwrap().incomplete_attempts += 1;
                    }
                    Err(e) => {
                        fail(format!("try_send: {e}"));
                        break;
                    }
                }
            }
            Op::Chunks(sizes, end) => {
                let parts: Vec<Vec<u8>> =
                    sizes.iter().enumerate().map(|(i, len)| mux::payload(fid, idx * 16 + i as u32, *len)).collect();
                let whole: Vec<u8> = parts.concat();
                set_pending("send_chunks");
                let res: Result<bool, chmux::SendError> = async {
                    let mut sc = tx.send_chunks();
                    let n = parts.len();
                    for (i, part) in parts.into_iter().enumerate() {
                        if i + 1 == n && matches!(end, ChunkEnd::SendFinal) {
                            sc.send_final(Bytes::from(part)).await?;
                            return Ok(true);
                        }
                        sc = sc.send(Bytes::from(part)).await?;
                    }
                    match end {
                        ChunkEnd::Finish => {
                            sc.finish().await?;
                            Ok(true)
                        }
                        _ => {
                            kit::probe("chunk_stream_dropped_unfinished");
                            drop(sc);
                            Ok(false)
                        }
                    }
                }
                .await;
                clear_pending();
                match res {
                    Ok(true) => {
                        kit::seq();
                        kit::probe("chunk_stream_finished");
                        flow.lock().unwrap().sent_ok.push(whole);
                    }
                    Ok(false) => flow.lock().unwrap().incomplete_attempts += 1,
                    Err(e) => {
                        fail(format!("send_chunks: {e}"));
                        break;
                    }
                }
            }
            Op::CancelSend(len, k) => {
                let data = mux::payload(fid, idx, len);
                set_pending("send(cancellable)");
                let res = kit::cancel_after(tx.send(Bytes::from(data.clone())), k).await;
                clear_pending();
                match res {
                    Some(Ok(())) => {
                        kit::seq();
                        flow.lock().unwrap().sent_ok.push(data);
                    }
                    Some(Err(e)) => {
                        fail(format!("send: {e}"));
                        break;
                    }
                    None => {
                        kit::fault_fired("cancel_send");
                        flow.lock().unwrap().incomplete_attempts += 1;
                    }
                }
            }
            Op::CancelChunks(sizes, k) => {
                let parts: Vec<Vec<u8>> =
                    sizes.iter().enumerate().map(|(i, len)| mux::payload(fid, idx * 16 + i as u32, *len)).collect();
                let whole: Vec<u8> = parts.concat();
                set_pending("send_chunks(cancellable)");
                let fut = async {
                    let mut sc = tx.send_chunks();
                    for part in parts {
                        sc = sc.send(Bytes::from(part)).await?;
                    }
                    sc.finish().await
                };
                let res = kit::cancel_after(fut, k).await;
                clear_pending();
                match res {
                    Some(Ok(())) => {
                        kit::seq();
                        flow.lock().unwrap().sent_ok.push(whole);
                    }
                    Some(Err(e)) => {
                        fail(format!("send_chunks: {e}"));
                        break;
                    }
                    None => {
                        kit::fault_fired("cancel_chunks");
                        flow.lock().unwrap().incomplete_attempts += 1;
                    }
                }
            }
            Op::Connect(..) | Op::CancelConnect(..) => {
                let (n, wait, cancel) = match op {
                    Op::Connect(n, wait) => (n, wait, None),
                    Op::CancelConnect(n, k) => (n, true, Some(k)),
                    _ => unreachable!(),
                };
                let alloc = tx.port_allocator();
                let mut ports = Vec::new();
                for _ in 0..n {
                    match alloc.try_allocate() {
                        Some(p) => ports.push(PortReq::new(p)),
                        None => break,
                    }
                }
                if ports.is_empty() {
                    kit::probe("connect_skipped_no_local_ports");
                    continue;
                }
                kit::probe_n("ports_in_batches", ports.len() as u64);
                set_pending("connect");
                let res = match cancel {
                    Some(k) => kit::cancel_after(tx.connect(ports, wait), k).await,
                    None => Some(tx.connect(ports, wait).await),
                };
                clear_pending();
                match res {
                    Some(Ok(connects)) => {
                        kit::seq();
                        for c in connects {
                            kit::spawn(async move {
                                let _ = c.await;
                            });
                        }
                    }
                    Some(Err(e)) => {
                        fail(format!("connect: {e}"));
                        break;
                    }
                    None => kit::fault_fired("cancel_connect"),
                }
            }
            Op::Pause(us) => tokio::time::sleep(Duration::from_micros(us as u64)).await,
        }
    }
    flow.lock().unwrap().sender_done = true;
    kit::activity();
    tx
}

/// Reference sequence the receiver must obtain: in plain `recv()` mode messages larger than the
/// receiver's max_data_size are reported as errors instead of being delivered.
fn expected_seq(flow: &Flow) -> Vec<&Vec<u8>> {
    flow.sent_ok.iter().filter(|m| !flow.recv_mode_plain || m.len() <= flow.max_data_size).collect()
}

fn classify_and_report(flow: &Flow, got: &Rcv) {
    let fid = flow.id;
    let Rcv::Msg(m) = got else { return };
    let i = flow.received.len();
    let exp_seq = expected_seq(flow);
    match exp_seq.get(i) {
        Some(exp) if *exp == m => {}
        exp => {
            let later = exp_seq.iter().skip(i + 1).position(|s| *s == m);
            let earlier = exp_seq.iter().take(i).position(|s| *s == m);
            let (kind, sig) = if later.is_some() {
                ("lost-message", "c01:lost-message")
            } else if earlier.is_some() {
                ("duplicate-message", "c01:duplicate-message")
            } else if exp.is_none() {
                ("spurious-message", "c01:spurious-message")
            } else {
                ("corrupt-message", "c01:corrupt-message")
            };
            kit::class_violation(
                "c01",
                kind,
                sig,
                format!(
                    "flow {fid}: receive #{i} got {} bytes {:02x?}.. but the #{i} expected message has {:?} bytes (expected lengths: {:?})",
                    m.len(),
                    &m[..m.len().min(8)],
                    exp.map(|e| e.len()),
                    exp_seq.iter().map(|s| s.len()).collect::<Vec<_>>()
                ),
            );
        }
    }
}

async fn receiver_actor(flow: FlowRef, mut rx: chmux::Receiver, release: Arc<Notify>, recv_cancel: bool) {
    let (stalled, plain) = {
        let f = flow.lock().unwrap();
        (f.stalled, f.recv_mode_plain)
    };
    if stalled {
        release.notified().await;
    }
    let push = |got: Rcv| {
        let mut f = flow.lock().unwrap();
        classify_and_report(&f, &got);
        match got {
            Rcv::Msg(_) => f.received.push(got),
            Rcv::Oversize => f.oversize_reports += 1,
        }
        kit::activity();
    };
    loop {
        if kit::is_aborted() {
            break;
        }
        if plain {
            let res = if recv_cancel && kit::coin(1, 8) {
                match kit::cancel_after(rx.recv(), kit::draw_range(0, 3)).await {
                    Some(r) => r,
                    None => {
                        kit::fault_fired("cancel_recv");
                        continue;
                    }
                }
            } else {
                rx.recv().await
            };
            match res {
                Ok(Some(buf)) => push(Rcv::Msg(Vec::from(buf))),
                Ok(None) => {
                    flow.lock().unwrap().receiver_end = Some("end".into());
                    break;
                }
                Err(RecvError::ExceedsMaxDataSize(_)) => {
                    kit::probe("oversize_reported");
                    push(Rcv::Oversize)
                }
                Err(RecvError::ExceedsMaxPortCount(_)) => {}
                Err(RecvError::ChMux) => {
                    flow.lock().unwrap().receiver_end = Some("chmux".into());
                    break;
                }
            }
            continue;
        }
        let res = if recv_cancel && kit::coin(1, 8) {
            match kit::cancel_after(rx.recv_any(), kit::draw_range(0, 3)).await {
                Some(r) => r,
                None => {
                    kit::fault_fired("cancel_recv");
                    continue;
                }
            }
        } else {
            rx.recv_any().await
        };
        match res {
            Ok(Some(Received::Data(buf))) => push(Rcv::Msg(Vec::from(buf))),
            Ok(Some(Received::Chunks)) => {
                kit::probe("chunked_message_hit");
                let mut whole = Vec::new();
                loop {
                    match rx.recv_chunk().await {
                        Ok(Some(chunk)) => whole.extend_from_slice(&chunk),
                        Ok(None) => {
                            push(Rcv::Msg(whole));
                            break;
                        }
                        Err(RecvChunkError::Cancelled) => {
                            kit::probe("recv_chunk_cancelled");
                            break;
                        }
                        Err(RecvChunkError::ChMux) => {
                            flow.lock().unwrap().receiver_end = Some("chmux".into());
                            return;
                        }
                    }
                }
            }
            Ok(Some(Received::Requests(reqs))) => {
                flow.lock().unwrap().requests_seen += reqs.len();
                kit::probe_n("port_requests_received", reqs.len() as u64);
                for req in reqs {
                    match kit::draw(3) {
                        0 => {
                            kit::spawn(async move {
                                let _ = req.accept().await;
                            });
                        }
                        1 => {
                            kit::spawn(async move { req.reject(false).await });
                        }
                        _ => drop(req),
                    }
                }
            }
            Ok(None) => {
                flow.lock().unwrap().receiver_end = Some("end".into());
                break;
            }
            Err(RecvError::ChMux) => {
                flow.lock().unwrap().receiver_end = Some("chmux".into());
                break;
            }
            Err(RecvError::ExceedsMaxPortCount(_)) => kit::probe("exceeds_max_port_count"),
            Err(RecvError::ExceedsMaxDataSize(_)) => {}
        }
    }
}

pub async fn run(opts: WlOpts) {
    kit::draw_sched_policy();
    kit::set_port_space(if kit::coin(1, 2) { 0 } else { 64 });
    let cfg_a = mux::draw_cfg(opts.profile);
    let cfg_b = if kit::coin(1, 3) { cfg_a.clone() } else { mux::draw_cfg(opts.profile) };
    let mut link_cfg = LinkCfg::draw();
    if opts.asym_latency {
        // Credits (flowing B -> A for A -> B data) arrive very late.
        link_cfg.lat_min_us[1] = kit::pick(&[50_000u32, 200_000, 400_000]);
        link_cfg.lat_jitter_us[1] = kit::pick(&[0u32, 100_000]);
    }
    let max_flows_ports = cfg_a.max_ports.min(cfg_b.max_ports).saturating_sub(1).clamp(1, 3);
    let nports = kit::draw_range(1, max_flows_ports);

    let (mut a, mut b, ctl) = match mux::connect_pair("AB", cfg_a.clone(), cfg_b.clone(), link_cfg, MonitorMode::Full).await {
        Ok(v) => v,
        Err(e) => {
            kit::abort_run(format!("setup failed: {e}"));
            return;
        }
    };

    let release = Arc::new(Notify::new());
    let mut flows: Vec<FlowRef> = Vec::new();
    let mut senders = Vec::new();
    let mut receivers = Vec::new();
    let mut plan = Vec::new();
    let stalled_flow = if opts.stalled_receiver { Some(0u32) } else { None };

    let mut fid = 0u32;
    // Open all ports before any actor runs, so that port batches cannot starve the setup.
    let mut opened = Vec::new();
    for _ in 0..nports {
        match mux::open_port(&a.client, &mut b.listener).await {
            Ok(v) => opened.push(v),
            Err(e) => {
                kit::abort_run(format!("open port failed: {e}"));
                return;
            }
        };
    }
    for (port, ((tx_a, rx_a), (tx_b, rx_b))) in opened.into_iter().enumerate() {
        let both = kit::coin(1, 3);
        // Flow A -> B.
        let mut mk = |tx: chmux::Sender, mut rx: chmux::Receiver, from_a: bool, connect_ok: bool| {
            let (peer_cfg, _own_cfg) = if from_a { (&cfg_b, &cfg_a) } else { (&cfg_a, &cfg_b) };
            let mds = if kit::coin(1, 4) {
                let m = kit::pick(&[4usize, 9, 40]);
                rx.set_max_data_size(m);
                m
            } else {
                peer_cfg.max_data_size
            };
            let ops = draw_ops(&opts, peer_cfg.chunk_size as usize, peer_cfg.receive_buffer as usize, mds, connect_ok);
            let flow = Arc::new(Mutex::new(Flow {
                id: fid,
                stalled: stalled_flow == Some(fid),
                recv_mode_plain: kit::coin(1, 4),
                max_data_size: mds,
                from_a,
                ..Default::default()
            }));
            plan.push(json!({"flow": fid, "port": port, "from_a": from_a, "max_data_size": mds,
                "plain_recv": flow.lock().unwrap().recv_mode_plain, "stalled": flow.lock().unwrap().stalled,
                "ops": ops.iter().map(|o| format!("{o:?}")).collect::<Vec<_>>() }));
            kit::mix_plan(kit::hash_str(&format!("{ops:?}")));
            receivers.push(kit::spawn(receiver_actor(flow.clone(), rx, release.clone(), opts.recv_cancel)));
            senders.push((flow.clone(), kit::spawn(sender_actor(flow.clone(), tx, ops))));
            flows.push(flow);
            fid += 1;
        };
        if both {
            mk(tx_a, rx_b, true, true);
            mk(tx_b, rx_a, false, false);
        } else {
            mk(tx_a, rx_b, true, true);
            // Unused reverse direction: keep halves alive until the end.
            receivers.push(kit::spawn(async move {
                let _keep = (tx_b, rx_a);
                std::future::pending::<()>().await;
            }));
        }
    }
    kit::set_sample(json!({
        "cfg_a": format!("{cfg_a:?}"), "cfg_b": format!("{cfg_b:?}"), "link": format!("{link_cfg:?}"), "flows": plan
    }));

    // Phase 1: run to quiescence.
    kit::settle().await;
    if kit::is_aborted() {
        return;
    }
    check_quiescent(&flows, &ctl, "phase1", stalled_flow);

    // Phase 2: release the stalled receiver, everything must finish.
    if stalled_flow.is_some() {
        release.notify_waiters();
        release.notify_one();
        kit::settle().await;
        check_quiescent(&flows, &ctl, "phase2", None);
    }
    if kit::is_aborted() || kit::has_violation() {
        return;
    }
    if flows.iter().any(|f| !f.lock().unwrap().sender_done) {
        // A sender hangs (subject of C03); nothing more can be judged in this run.
        kit::probe("run_cut_short_by_hanging_sender");
        return;
    }

    // All completed sends must have been delivered.
    let mut total_msgs = 0;
    for f in &flows {
        let f = f.lock().unwrap();
        total_msgs += f.sent_ok.len();
        let exp = expected_seq(&f);
        if f.sender_error.is_none() && f.receiver_end.is_none() && f.received.len() < exp.len() {
            kit::class_violation(
                "c01",
                "undelivered-message",
                "c01:undelivered-message",
                format!(
                    "flow {}: {} deliverable sends completed but only {} messages were received at quiescence of a healthy connection",
                    f.id,
                    exp.len(),
                    f.received.len()
                ),
            );
        }
        if f.recv_mode_plain && f.sender_error.is_none() && f.receiver_end.is_none() {
            let oversize = f.sent_ok.len() - exp.len();
            if f.oversize_reports < oversize || f.oversize_reports > oversize + f.incomplete_attempts {
                kit::class_violation(
                    "c01",
                    "oversize-misreported",
                    "c01:oversize-misreported",
                    format!(
                        "flow {}: {} completed messages exceed max_data_size {} ({} incomplete attempts) but {} size errors were reported",
                        f.id, oversize, f.max_data_size, f.incomplete_attempts, f.oversize_reports
                    ),
                );
            }
        }
        if let Some(e) = &f.sender_error {
            kit::class_violation("c01", "send-failed", "c01:send-failed-on-healthy-connection", format!("flow {}: {e}", f.id));
        }
    }
    if total_msgs >= 2 {
        kit::set_nontrivial();
    }

    // Credit conservation probe (C03): what the wire says is available must be usable.
    let mut txs = Vec::new();
    for (flow, h) in senders {
        match h.await {
            Ok(tx) => txs.push((flow, tx)),
            Err(_) => {
                kit::abort_run("sender actor failed");
                return;
            }
        }
    }
    for (flow, tx) in &mut txs {
        let e = if flow.lock().unwrap().from_a { 0 } else { 1 };
        let Some(pair) = ctl.monitor(|m| m.pair_of(e, tx.local_port()).cloned()) else { continue };
        let l = &pair.ledger[e];
        let rb = ctl.monitor(|m| m.hello[1 - e].map(|h| h.recv_buf as u64)).unwrap_or(0);
        let avail = rb.saturating_sub(l.sent_cost - l.credits_delivered.min(l.sent_cost));
        let k = avail.min(tx.chunk_size() as u64) as usize;
        if k == 0 {
            continue;
        }
        let fid = flow.lock().unwrap().id;
        let data = mux::payload(fid, 9999, k);
        // The shared send queue must be empty so that only credits decide: wait for quiescence.
        kit::settle().await;
        match tx.try_send(&Bytes::from(data.clone())) {
            Ok(()) => {
                kit::probe("credit_probe_ok");
                flow.lock().unwrap().sent_ok.push(data);
            }
            Err(TrySendError::Full) => kit::class_violation(
                "c03",
                "credit-leak",
                "c03:credit-leak",
                format!(
                    "flow {fid}: at quiescence the peer has granted {avail} bytes of credit (sent {} credited {} buffer {rb}) but try_send of {k} bytes reports Full",
                    l.sent_cost, l.credits_delivered
                ),
            ),
            Err(e) => kit::class_violation("c03", "send-failed", "c03:probe-send-failed", format!("flow {fid}: {e}")),
        }
    }
    kit::settle().await;
    for f in &flows {
        let f = f.lock().unwrap();
        if f.receiver_end.is_none() && f.received.len() < expected_seq(&f).len() {
            kit::class_violation(
                "c01",
                "undelivered-message",
                "c01:undelivered-message",
                format!("flow {}: probe message not delivered ({} of {})", f.id, f.received.len(), expected_seq(&f).len()),
            );
        }
    }

    // Orderly end: drop senders, receivers must see end-of-stream after all messages.
    drop(txs);
    kit::settle().await;
    for f in &flows {
        let f = f.lock().unwrap();
        match f.receiver_end.as_deref() {
            Some("end") => {}
            other => kit::class_violation(
                "c01",
                "no-end-of-stream",
                "c01:no-end-of-stream-after-sender-drop",
                format!("flow {}: receiver state after sender drop: {other:?}", f.id),
            ),
        }
    }
    drop(a);
    drop(b);
    for r in receivers {
        r.abort();
    }
}

fn check_quiescent(flows: &[FlowRef], ctl: &crate::net::LinkCtl, phase: &str, stalled: Option<u32>) {
    let _ = ctl;
    for f in flows {
        let f = f.lock().unwrap();
        if Some(f.id) == stalled {
            continue;
        }
        if !f.sender_done && f.sender_error.is_none() {
            let op = f.pending.clone().unwrap_or_else(|| "?".into());
            let kind = if stalled.is_some() { "blocked-by-stalled-port" } else { "op-pending-at-quiescence" };
            kit::class_violation(
                "c03",
                kind,
                format!("c03:pending:{}", op.split('(').next().unwrap_or("")),
                format!(
                    "{phase}: flow {} still waits in `{op}` at quiescence although its receiver consumed everything delivered ({} received)",
                    f.id,
                    f.received.len()
                ),
            );
        }
    }
}
