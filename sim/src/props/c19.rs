//! C19 — abandoned or failing calls are cancelled and never wedge the server.
//!
//! The counter of C12 with `long(&mut self)` (cancellable) and `#[no_cancel] long_nc(&mut self)`, both
//! parked at a gate that the harness opens only at quiescence. Callers drop the call future after a drawn
//! number of polls (never polled, queueing, queued, executing, replying), or cut / stall their link while
//! the call is pending. Remote clients use a newer version of the trait (two methods the server does not
//! know), send arguments that fail to deserialize and request replies above `max_reply_size`.
//! Concurrent well-behaved clients (local and remote) run alongside.

use std::{
    collections::BTreeMap,
    sync::{Arc, Mutex},
    time::Duration,
};

use futures::FutureExt;
use remoc::rtc::{Client, OnReqReceiveError};
use serde_json::json;

use crate::{
    harness::{Check, Scenario, ScenarioFuture},
    kit,
    net::{LinkCfg, LinkCtl},
    props::{
        STUB_NET,
        rtc_common::{self as rc, CallRec, ExecRec, Flavour, History, Obj, ObjShared, Op, Outcome, v1, v2},
    },
};

const C: &str = "c19";
pub const SIG_F7: &str = "rtc.serve:reply-error-terminates-server";

fn report(v: rc::Verdict) -> bool {
    if let Some((kind, detail)) = v {
        kit::class_violation(C, kind, format!("c19:{kind}"), detail);
        true
    } else {
        false
    }
}

#[derive(Clone, Copy)]
struct Opts {
    bad_requests: bool,
    oversize: bool,
    stall: bool,
    link_loss: bool,
}

#[derive(Clone, Debug, PartialEq)]
enum How {
    /// Await the call.
    Wait,
    /// Drop the call future after at most this many polls.
    Cancel(u32),
    /// Drop the call future after this much virtual time (microseconds).
    CancelAt(u32),
    /// Cut the caller's link this many microseconds into the call, keep awaiting.
    CutLink(u32),
    /// Stall the caller's link (silently, for good) this many microseconds into the call.
    StallLink(u32, bool),
}

enum JobClient {
    V1(v1::SvcClient),
    V2(v2::SvcClient),
}

impl JobClient {
    async fn call(&mut self, op: &Op, id: u32) -> Result<i64, String> {
        match self {
            JobClient::V1(c) => rc::call_v1(c, op, id).await,
            JobClient::V2(c) => rc::call_v2(c, op, id).await,
        }
    }
}

struct ActorPlan {
    /// 0 = local, i = behind link i-1.
    place: usize,
    clone_remotely: bool,
    ops: Vec<(u32, Op, How, u32)>,
}

#[derive(Default)]
struct LinkState {
    cut_seq: Option<u64>,
    stall_seq: Option<u64>,
}

type Links = Arc<Mutex<Vec<LinkState>>>;

async fn actor(
    idx: usize, mut client: JobClient, ops: Vec<(u32, Op, How, u32)>, hist: History, done: Arc<Mutex<Vec<bool>>>,
    ctl: Option<LinkCtl>, links: Links, place: usize,
) {
    for (id, op, how, pause_us) in ops {
        if kit::is_aborted() {
            return;
        }
        if pause_us > 0 {
            tokio::time::sleep(Duration::from_micros(pause_us as u64)).await;
        }
        let h = rc::hist_invoke(&hist, id, idx, &op);
        let res = match &how {
            How::Wait => Some(client.call(&op, id).await),
            How::Cancel(k) => kit::cancel_after(client.call(&op, id), *k).await,
            How::CancelAt(us) => kit::within(Duration::from_micros(*us as u64), client.call(&op, id)).await,
            How::CutLink(k) => {
                let ctl = ctl.clone().expect("link fault planned for a local actor");
                let links = links.clone();
                Some(
                    rc::hook_at(client.call(&op, id), Duration::from_micros(*k as u64), move || {
                        ctl.cut_now();
                        links.lock().unwrap()[place - 1].cut_seq = Some(kit::seq());
                    })
                    .await,
                )
            }
            How::StallLink(k, both) => {
                let ctl = ctl.clone().expect("link fault planned for a local actor");
                let links = links.clone();
                let both = *both;
                Some(
                    rc::hook_at(client.call(&op, id), Duration::from_micros(*k as u64), move || {
                        ctl.stall_now(0, None);
                        if both {
                            ctl.stall_now(1, None);
                        }
                        links.lock().unwrap()[place - 1].stall_seq = Some(kit::seq());
                    })
                    .await,
                )
            }
        };
        match res {
            Some(Ok(v)) => {
                kit::probe("call_ok");
                rc::hist_return(&hist, h, Outcome::Ok(v));
            }
            Some(Err(e)) => {
                kit::probe("call_error");
                rc::hist_return(&hist, h, Outcome::Err(e));
            }
            None => {
                kit::fault_fired("call_future_dropped");
                rc::hist_return(&hist, h, Outcome::Cancelled);
            }
        }
    }
    done.lock().unwrap()[idx] = true;
    kit::activity();
}

fn is_f7(end: &rc::ServeEnd) -> bool {
    matches!(&end.result, Err(e) if e.contains("ReplySend") && e.contains("MaxItemSizeExceeded"))
}

/// A cancellable execution whose caller is gone must not be running once the system is quiescent.
///
/// Callers behind a link that was silently stalled are exempt: nothing they do can reach the server.
fn abandoned_still_running(calls: &[CallRec], log: &[ExecRec], behind_stalled_link: &dyn Fn(usize) -> bool) -> rc::Verdict {
    for e in log {
        if e.end.is_some() || e.method == "long_nc" {
            continue;
        }
        let Some(c) = calls.iter().find(|c| c.id == e.id) else { continue };
        if behind_stalled_link(c.actor) {
            kit::probe("abandoned_execution_unreachable_behind_stalled_link");
            continue;
        }
        if matches!(c.outcome, Outcome::Cancelled | Outcome::Err(_)) {
            return Some((
                "abandoned-call-still-executing",
                format!(
                    "the caller of #{} ({:?}) vanished at seq {:?} ({:?}) but at quiescence its cancellable execution is still alive (at gate: {}); calls: {}; log: {}",
                    c.id,
                    c.op,
                    c.ret,
                    c.outcome,
                    e.at_gate,
                    rc::fmt_calls(calls),
                    rc::fmt_log(log)
                ),
            ));
        }
    }
    None
}

async fn run(opts: Opts) {
    kit::draw_sched_policy();
    kit::set_port_space(if kit::coin(1, 2) { 0 } else { 256 });
    let flavour =
        kit::pick(&[Flavour::SharedMut(true), Flavour::SharedMut(false), Flavour::Value, Flavour::RefMut, Flavour::SharedMut(true)]);
    let init = kit::draw(3) as i64 * 100_000;
    let buffer = kit::pick(&[1usize, 2, 8]);
    let (err_tx, mut err_rx) = tokio::sync::mpsc::channel(64);
    let policy_send = kit::coin(1, 2);
    let policy = if policy_send { OnReqReceiveError::Send(err_tx) } else { OnReqReceiveError::Ignore };
    let n_links = kit::draw_range(1, 2) as usize;
    let n_actors = kit::draw_range(2, 3) as usize;
    let reply_limit: usize = kit::pick(&[300usize, 600, 1500]);

    // ---------------------------------------------------------------- plan
    let mut plans: Vec<ActorPlan> = Vec::new();
    let mut budget = 10u32;
    let mut next_id = 1u32;
    let mut link_fault_planned = vec![false; n_links];
    let mut oversize_planned = false;
    for a in 0..n_actors {
        // Actor 0 is remote in the scenarios that need a remote trouble maker.
        let place = if a == 0 && (opts.bad_requests || opts.oversize || opts.stall || opts.link_loss) {
            1
        } else {
            kit::draw(n_links as u32 + 1) as usize
        };
        let remote = place > 0;
        let clone_remotely = kit::coin(1, 2);
        let left_actors = (n_actors - a - 1) as u32;
        let n = kit::draw_range(1, budget.saturating_sub(left_actors).clamp(1, 5));
        budget = budget.saturating_sub(n);
        let mut ops = Vec::new();
        for _ in 0..n {
            let x = 1i64 << (next_id - 1);
            let mut op = match kit::draw(10) {
                0 | 1 => Op::Get,
                2..=4 => Op::Add(x),
                5 => Op::SlowAdd(x, kit::pick(&[10u32, 3000, 30_000])),
                6 | 7 => Op::Long(x),
                8 => Op::LongNc(x),
                _ => Op::Eat { bad: false, len: kit::draw(40) },
            };
            if opts.bad_requests && kit::coin(1, 3) {
                op = match kit::draw(4) {
                    0 | 1 => Op::Eat { bad: true, len: 1 + kit::draw(40) },
                    2 if remote => Op::Extra(x),
                    3 if remote => Op::ExtraRef,
                    _ => Op::Eat { bad: true, len: 1 + kit::draw(40) },
                };
            }
            if opts.oversize && kit::coin(1, 3) {
                let over = kit::coin(1, 2);
                let size = if over { reply_limit + 64 + kit::draw(600) as usize } else { kit::draw((reply_limit - 64) as u32) as usize };
                op = Op::Blob(size as u32);
                if over && remote {
                    oversize_planned = true;
                }
            }
            if opts.stall && a == 0 && kit::coin(1, 2) {
                op = Op::Blob(kit::pick(&[600u32, 2000, 6000]));
            }
            let delays = [1u32, 100, 5_000, 60_000, 200_000, 700_000, 2_000_000];
            let mut how = match kit::draw(6) {
                0..=2 => How::Wait,
                3 => How::Cancel(kit::draw(13)),
                _ => How::CancelAt(kit::pick(&delays)),
            };
            if remote && !link_fault_planned[place - 1] {
                if opts.link_loss && kit::coin(1, 3) {
                    how = How::CutLink(kit::pick(&delays));
                    link_fault_planned[place - 1] = true;
                } else if opts.stall && a == 0 && matches!(op, Op::Blob(_)) {
                    how = How::StallLink(kit::pick(&delays[..5]), kit::coin(1, 3));
                    link_fault_planned[place - 1] = true;
                }
            }
            let pause = if kit::coin(1, 4) { kit::pick(&[10u32, 2000, 40_000]) } else { 0 };
            let stop = matches!(how, How::CutLink(_) | How::StallLink(..));
            ops.push((next_id, op, how, pause));
            next_id += 1;
            if stop {
                break;
            }
        }
        plans.push(ActorPlan { place, clone_remotely, ops });
    }
    let plan_desc: Vec<_> = plans
        .iter()
        .enumerate()
        .map(|(i, p)| {
            json!({"actor": i, "place": if p.place == 0 { "local (v1 client)".to_string() } else { format!("link{} (v2 client)", p.place) },
                "clone_remotely": p.clone_remotely,
                "ops": p.ops.iter().map(|(id, op, how, pause)| format!("#{id} {op:?} {how:?} pause {pause}us")).collect::<Vec<_>>()})
        })
        .collect();
    kit::mix_plan(kit::hash_str(&format!("{flavour:?} {init} {buffer} {policy_send} {n_links} {reply_limit} {plan_desc:?}")));

    // ---------------------------------------------------------------- set-up
    let (sh, gate_tx) = ObjShared::new();
    let Some((server, client0)) =
        rc::start_svc_server(flavour, Obj::new(init, sh.clone()), buffer, policy, Default::default()).await
    else {
        return;
    };
    let names = ["L1", "L2"];
    let mut conns = Vec::new();
    let mut link_desc = Vec::new();
    for name in names.iter().take(n_links) {
        let cfg_a = rc::draw_call_cfg();
        let cfg_b = if kit::coin(1, 3) { cfg_a.clone() } else { rc::draw_call_cfg() };
        let lc = LinkCfg::draw();
        link_desc.push(json!({"name": name, "cfg_server_side": format!("{cfg_a:?}"), "cfg_client_side": format!("{cfg_b:?}"), "link": format!("{lc:?}")}));
        match rc::connect_typed::<v1::SvcClient, (), (), v2::SvcClient>(name, cfg_a, cfg_b, lc).await {
            Ok(c) => conns.push(c),
            Err(e) => {
                kit::abort_run(format!("setup failed: {e}"));
                return;
            }
        }
    }
    kit::set_sample(json!({"flavour": format!("{flavour:?}"), "initial_value": init, "request_buffer": buffer,
        "on_req_receive_error": if policy_send { "Send" } else { "Ignore" }, "max_reply_size_of_remote_clients": if opts.oversize { Some(reply_limit) } else { None },
        "links": link_desc, "actors": plan_desc}));

    let mut at_endpoint: Vec<Option<v2::SvcClient>> = (0..n_links).map(|_| None).collect();
    let mut actor_clients: Vec<JobClient> = Vec::new();
    for p in &plans {
        if p.place == 0 {
            actor_clients.push(JobClient::V1(client0.clone()));
            continue;
        }
        let li = p.place - 1;
        if p.clone_remotely
            && let Some(existing) = &at_endpoint[li]
        {
            kit::probe("client_cloned_remotely");
            actor_clients.push(JobClient::V2(existing.clone()));
            continue;
        }
        let conn = &mut conns[li];
        let (s, r) = tokio::join!(conn.a_tx.send(client0.clone()), conn.b_rx.recv());
        let mut shipped = match (s, r) {
            (Ok(()), Ok(Some(c))) => c,
            (s, r) => {
                kit::abort_run(format!("shipping a client failed: send {:?} recv {:?}", s.map_err(|e| e.kind), r.map(|o| o.is_some())));
                return;
            }
        };
        if opts.oversize {
            shipped.set_max_reply_size(reply_limit);
        }
        kit::probe("client_shipped");
        if at_endpoint[li].is_none() {
            at_endpoint[li] = Some(shipped.clone());
        }
        actor_clients.push(JobClient::V2(shipped));
    }
    drop(at_endpoint);

    let hist: History = Arc::new(Mutex::new(Vec::new()));
    let done = Arc::new(Mutex::new(vec![false; n_actors]));
    let links: Links = Arc::new(Mutex::new((0..n_links).map(|_| LinkState::default()).collect()));
    let places: Vec<usize> = plans.iter().map(|p| p.place).collect();
    let hows: BTreeMap<u32, How> = plans.iter().flat_map(|p| p.ops.iter().map(|(id, _, how, _)| (*id, how.clone()))).collect();
    let mut tasks = Vec::new();
    for (i, (p, c)) in plans.into_iter().zip(actor_clients).enumerate() {
        let ctl = if p.place > 0 { Some(conns[p.place - 1].ctl.clone()) } else { None };
        tasks.push(kit::spawn(actor(i, c, p.ops, hist.clone(), done.clone(), ctl, links.clone(), p.place)));
    }

    // ---------------------------------------------------------------- run: open the gate only at quiescence
    let mut bumps = 0u64;
    let mut req_errors = 0u32;
    loop {
        kit::settle().await;
        if kit::is_aborted() {
            return;
        }
        while let Ok(_e) = err_rx.try_recv() {
            req_errors += 1;
            kit::probe("request_receive_error_reported_to_policy_channel");
        }
        let calls = hist.lock().unwrap().clone();
        let log = sh.snapshot();
        let stalled_now: Vec<bool> = links.lock().unwrap().iter().map(|l| l.stall_seq.is_some()).collect();
        let behind_stalled = |actor: usize| places[actor] > 0 && stalled_now[places[actor] - 1];
        if !server.is_finished() && report(abandoned_still_running(&calls, &log, &behind_stalled)) {
            return;
        }
        if log.iter().any(|e| e.at_gate) && bumps < 40 {
            for e in log.iter().filter(|e| e.at_gate) {
                match calls.iter().find(|c| c.id == e.id).map(|c| &c.outcome) {
                    Some(Outcome::Pending) => kit::probe("gate_opened_for_waiting_caller"),
                    _ => kit::probe("gate_opened_for_no_cancel_execution_without_caller"),
                }
            }
            bumps += 1;
            let _ = gate_tx.send(bumps);
            kit::activity();
            continue;
        }
        break;
    }
    let _ = req_errors;

    // ---------------------------------------------------------------- evaluation
    let calls = hist.lock().unwrap().clone();
    let log = sh.snapshot();
    let link_state: Vec<(Option<u64>, Option<u64>)> = links.lock().unwrap().iter().map(|l| (l.cut_seq, l.stall_seq)).collect();
    let disturbed = |actor: usize| -> bool { places[actor] > 0 && (link_state[places[actor] - 1].0.is_some() || link_state[places[actor] - 1].1.is_some()) };
    let stalled = |actor: usize| -> bool { places[actor] > 0 && link_state[places[actor] - 1].1.is_some() };
    if calls.iter().filter(|c| matches!(c.outcome, Outcome::Ok(_))).count() >= 2 {
        kit::set_nontrivial();
    }
    for (cut, stall) in &link_state {
        if cut.is_some() {
            kit::probe("caller_cut_its_link_mid_call");
        }
        if stall.is_some() {
            kit::probe("caller_link_stalled_mid_call");
        }
    }

    // Is serve() still running? (F7: a reply above the caller's max_reply_size ends it for everybody.)
    let mut server = Some(server);
    if server.as_ref().unwrap().is_finished() {
        let end = server.take().unwrap().now_or_never();
        let desc = format!("{end:?}");
        let oversize_requested = calls.iter().any(|c| matches!(c.op, Op::Blob(s) if s as usize > reply_limit) && places[c.actor] > 0);
        if let Some(Ok(end)) = &end
            && is_f7(end)
            && opts.oversize
            && oversize_planned
            && oversize_requested
        {
            kit::probe("serve_ended_by_oversize_reply");
            kit::class_violation(
                C,
                "server-terminated",
                SIG_F7,
                format!(
                    "a remote client asked for a reply above its max_reply_size ({reply_limit} bytes); serve() of {flavour:?} returned {desc} while other clients were still being served; calls: {}",
                    rc::fmt_calls(&calls)
                ),
            );
        } else {
            report(Some((
                "server-terminated",
                format!("serve() of {flavour:?} ended while clients exist: {desc}; calls: {}; log: {}", rc::fmt_calls(&calls), rc::fmt_log(&log)),
            )));
        }
        return;
    }

    // Every caller got its outcome, except callers behind a link that was stalled for good.
    let done_v = done.lock().unwrap().clone();
    for (i, d) in done_v.iter().enumerate() {
        if !*d && !stalled(i) {
            let pending: Vec<_> = calls.iter().filter(|c| c.outcome == Outcome::Pending).cloned().collect();
            report(Some((
                "call-hangs",
                format!(
                    "actor {i} (place {}) is still waiting at quiescence; link states (cut, stalled): {link_state:?}; pending calls: {}; all calls: {}; log: {}",
                    places[i],
                    rc::fmt_calls(&pending),
                    rc::fmt_calls(&calls),
                    rc::fmt_log(&log)
                ),
            )));
            return;
        }
    }

    if report(rc::check_exactly_once(&calls, &log)) {
        return;
    }
    if report(rc::check_exclusive(&log)) {
        return;
    }

    // #[no_cancel] executions run to completion, whatever happened to their caller.
    for e in log.iter().filter(|e| e.method == "long_nc") {
        if !(e.completed && e.applied) {
            report(Some((
                "no-cancel-execution-dropped",
                format!("execution {e:?} of the #[no_cancel] method did not run to completion; calls: {}", rc::fmt_calls(&calls)),
            )));
            return;
        }
        if let Some(c) = calls.iter().find(|c| c.id == e.id)
            && !matches!(c.outcome, Outcome::Ok(_))
        {
            kit::probe("no_cancel_execution_completed_without_caller");
        }
    }
    for e in log.iter().filter(|e| e.method == "long" && !e.completed) {
        if e.gate_pass.is_none() {
            kit::probe("abandoned_execution_dropped_before_gate");
        }
    }
    for c in calls.iter().filter(|c| c.outcome == Outcome::Cancelled) {
        match log.iter().find(|e| e.id == c.id) {
            None => kit::probe("cancelled_call_never_executed"),
            Some(e) if e.completed => kit::probe("cancelled_call_executed_fully"),
            Some(_) => kit::probe("cancelled_call_execution_dropped"),
        }
    }

    // Expected outcome of every call.
    for c in &calls {
        let remote = places[c.actor] > 0;
        let must_fail = match &c.op {
            Op::Eat { bad: true, .. } => remote,
            Op::Extra(_) | Op::ExtraRef => true,
            Op::Blob(s) => remote && opts.oversize && *s as usize > reply_limit,
            _ => false,
        };
        match &c.outcome {
            Outcome::Ok(_) if must_fail => {
                report(Some(("bad-call-succeeded", format!("call #{} ({:?}) cannot be served but returned {:?}; log: {}", c.id, c.op, c.outcome, rc::fmt_log(&log)))));
                return;
            }
            Outcome::Err(e) => {
                if must_fail {
                    kit::probe("bad_request_failed_only_itself");
                    // An oversize *reply* is produced by executing the call; a request that cannot be
                    // decoded or names an unknown method must never reach the callee.
                    let reply_failure = matches!(&c.op, Op::Blob(_));
                    if !reply_failure && log.iter().any(|x| x.id == c.id) {
                        report(Some(("bad-call-executed", format!("call #{} ({:?}) failed with {e} but was executed; log: {}", c.id, c.op, rc::fmt_log(&log)))));
                        return;
                    }
                } else if disturbed(c.actor) {
                    kit::probe("call_failed_after_own_link_loss");
                } else {
                    report(Some((
                        "unrelated-call-failed",
                        format!(
                            "call #{} ({:?}, {:?}) of actor {} (place {}) failed with {e} although only other calls were abandoned or malformed; link states (cut, stalled): {link_state:?}; calls: {}; log: {}",
                            c.id,
                            c.op,
                            hows.get(&c.id),
                            c.actor,
                            places[c.actor],
                            rc::fmt_calls(&calls),
                            rc::fmt_log(&log)
                        ),
                    )));
                    return;
                }
            }
            _ => {}
        }
    }

    // The lock is free and the server alive: a fresh local client gets a `&mut` call and a read through.
    let probe_id = 90u32;
    let probe_ops = vec![(probe_id, Op::Add(1i64 << 40), How::Wait, 0u32), (probe_id + 1, Op::Get, How::Wait, 0u32)];
    let pdone = Arc::new(Mutex::new(vec![false; 1]));
    let probe_task = kit::spawn(actor(0, JobClient::V1(client0.clone()), probe_ops, hist.clone(), pdone.clone(), None, links.clone(), 0));
    kit::settle().await;
    if kit::is_aborted() {
        return;
    }
    let calls = hist.lock().unwrap().clone();
    let log = sh.snapshot();
    // What the probe's read has to return: everything applied before its own execution began (a call
    // that was held up behind a stalled link may still be executed afterwards).
    let read_start = log.iter().find(|e| e.id == probe_id + 1).map(|e| e.start).unwrap_or(u64::MAX);
    let expected: i64 = init + log.iter().filter(|e| e.applied && e.start < read_start).map(|e| e.arg).sum::<i64>();
    if !pdone.lock().unwrap()[0] {
        report(Some((
            "server-wedged",
            format!(
                "after all abandoned / failed calls a fresh local client cannot get add + get served by {flavour:?} (serve() finished: {}); link states (cut, stalled): {link_state:?}; calls: {}; log: {}",
                server.as_ref().map(|s| s.is_finished()).unwrap_or(true),
                rc::fmt_calls(&calls),
                rc::fmt_log(&log)
            ),
        )));
        return;
    }
    kit::probe("probe_calls_served_afterwards");
    for c in calls.iter().filter(|c| c.id >= probe_id) {
        match &c.outcome {
            Outcome::Ok(v) if c.op == Op::Get && *v != expected => {
                report(Some(("final-value", format!("final read returned {v}, the execution log adds up to {expected}; log: {}", rc::fmt_log(&log)))));
                return;
            }
            Outcome::Ok(_) => {}
            other => {
                report(Some(("probe-call-failed", format!("probe call #{} ({:?}) ended with {other:?}; calls: {}", c.id, c.op, rc::fmt_calls(&calls)))));
                return;
            }
        }
    }
    if report(rc::check_exactly_once(&calls, &log)) {
        return;
    }
    if report(rc::check_linearizable(&calls, &log, init)) {
        return;
    }

    // ---------------------------------------------------------------- orderly end
    probe_task.abort();
    let any_stall = link_state.iter().any(|l| l.1.is_some());
    for t in &tasks {
        if any_stall {
            t.abort();
        }
    }
    drop(client0);
    if !any_stall {
        kit::settle().await;
        if kit::is_aborted() {
            return;
        }
        match server.take().unwrap().now_or_never() {
            None => {
                report(Some(("serve-does-not-end", format!("all clients are gone but serve() of {flavour:?} is still running; calls: {}", rc::fmt_calls(&calls)))));
            }
            Some(Err(e)) => {
                report(Some(("serve-panicked", format!("server task of {flavour:?} failed: {e}"))));
            }
            Some(Ok(end)) => {
                kit::probe("serve_ended_after_clients_dropped");
                // A reply that could not be sent is reported by serve() once serving has ended
                    // (it must not end serving): such an error is expected iff an oversize reply occurred.
                let oversize_reply_happened = calls.iter().any(|c| {
                    matches!(&c.op, Op::Blob(s) if places[c.actor] > 0 && opts.oversize && *s as usize > reply_limit)
                        && log.iter().any(|x| x.id == c.id)
                });
                let reply_error = matches!(&end.result, Err(e) if e.starts_with("ReplySend"));
                if reply_error && oversize_reply_happened {
                    kit::probe("reply_error_reported_at_end_of_serving");
                    if end.final_value != Some(expected) {
                        report(Some(("final-value", format!("target holds {:?} after serving, expected {expected}", end.final_value))));
                    }
                } else if let Err(e) = &end.result {
                    report(Some(("serve-error", format!("serve() of {flavour:?} returned {e} after its clients were dropped"))));
                } else if end.final_value != Some(expected) {
                    report(Some(("final-value", format!("target holds {:?} after serving, expected {expected}", end.final_value))));
                }
            }
        }
    }
    for t in tasks {
        t.abort();
    }
    if let Some(s) = server {
        s.abort();
    }
    for c in conns {
        c.conn_a.abort();
        c.conn_b.abort();
    }
}

fn sc_abandon() -> ScenarioFuture {
    Box::pin(run(Opts { bad_requests: false, oversize: false, stall: false, link_loss: false }))
}

fn sc_link_loss() -> ScenarioFuture {
    Box::pin(run(Opts { bad_requests: false, oversize: false, stall: false, link_loss: true }))
}

fn sc_bad_requests() -> ScenarioFuture {
    Box::pin(run(Opts { bad_requests: true, oversize: false, stall: false, link_loss: false }))
}

fn sc_oversize() -> ScenarioFuture {
    Box::pin(run(Opts { bad_requests: true, oversize: true, stall: false, link_loss: false }))
}

fn sc_stall() -> ScenarioFuture {
    Box::pin(run(Opts { bad_requests: false, oversize: false, stall: true, link_loss: false }))
}

pub fn checks() -> Vec<Check> {
    vec![Check {
        id: "C19",
        level: "exploration",
        classes: vec![C],
        scenarios: vec![
            Scenario { name: "abandoned-calls", weight: 5, max_polls: 400_000, max_virtual_secs: 48 * 3600, run: sc_abandon },
            Scenario { name: "caller-loses-link", weight: 3, max_polls: 400_000, max_virtual_secs: 48 * 3600, run: sc_link_loss },
            Scenario { name: "bad-requests", weight: 4, max_polls: 400_000, max_virtual_secs: 48 * 3600, run: sc_bad_requests },
            Scenario { name: "oversize-reply", weight: 2, max_polls: 400_000, max_virtual_secs: 48 * 3600, run: sc_oversize },
            Scenario { name: "stalled-client", weight: 2, max_polls: 400_000, max_virtual_secs: 48 * 3600, run: sc_stall },
        ],
        quick: (6_000, 50),
        thorough: (300_000, 600),
        rule: "each evaluation is one seeded run: one server flavour (Server, ServerRefMut, ServerSharedMut spawn on/off), request-error policy Ignore or Send, 2-3 clients \
(local v1 clients, remote clients of a newer trait version behind one of two links, shipped or cloned remotely), <= 10 calls (get, add, slow_add, gate-parked long, #[no_cancel] long_nc, \
eat with (un)decodable argument, blob, unknown methods), each awaited, dropped after 0..12 polls or after a drawn virtual delay (1 us .. 2 s), or accompanied by a cut / silent stall of the caller's link a drawn delay into the call; \
the gate opens only at quiescence; afterwards a fresh local client issues add + get; non-trivial = at least two calls returned Ok; distinct = distinct (plan hash, poll-order hash) pairs",
        assumptions: vec![
            "the gate of long()/long_nc() is opened only after kit::settle(), so a cancellation had unbounded time to reach the server before the execution could pass its suspension point",
            "a caller counts as vanished when its call future was dropped or returned an error",
            "remote clients deserialize the shipped v1 client as the v2 client type (same wire format, postbag encodes variants and fields by name)",
        ],
        required_probes: vec![
            "call_future_dropped",
            "cancelled_call_execution_dropped",
            "cancelled_call_never_executed",
            "abandoned_execution_dropped_before_gate",
            "no_cancel_execution_completed_without_caller",
            "gate_opened_for_waiting_caller",
            "bad_request_failed_only_itself",
            "caller_cut_its_link_mid_call",
            "caller_link_stalled_mid_call",
            "probe_calls_served_afterwards",
            "reply_error_reported_at_end_of_serving",
            "serve_ended_after_clients_dropped",
        ],
        real_components: "code generated by remoc::rtc::remote (clients of two trait versions, Server / ServerRefMut / ServerSharedMut), dispatch with reply_tx.closed() race, \
remoc::rtc::{send_reply, OnReqReceiveError}, remoc::rch::{mpsc,oneshot,base}, remoc::chmux, tokio::sync",
        stub_components: STUB_NET,
    }]
}
