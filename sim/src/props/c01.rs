//! C01 delivery, C02 flow-control safety, C03 flow-control liveness: same workload engine,
//! different oracle classes.

use crate::{
    harness::{Check, Scenario},
    mux::CfgProfile,
    props::{REAL_CHMUX, STUB_NET, chmux_wl::{self, WlOpts}},
};

fn sc_full() -> crate::harness::ScenarioFuture {
    Box::pin(chmux_wl::run(WlOpts::full()))
}

fn sc_plain() -> crate::harness::ScenarioFuture {
    Box::pin(chmux_wl::run(WlOpts { cancel: false, recv_cancel: false, connect: false, ..WlOpts::full() }))
}

fn sc_asym() -> crate::harness::ScenarioFuture {
    Box::pin(chmux_wl::run(WlOpts { asym_latency: true, ..WlOpts::full() }))
}

fn sc_stalled() -> crate::harness::ScenarioFuture {
    Box::pin(chmux_wl::run(WlOpts { stalled_receiver: true, ..WlOpts::full() }))
}

fn sc_roomy() -> crate::harness::ScenarioFuture {
    Box::pin(chmux_wl::run(WlOpts { profile: CfgProfile::Roomy, ..WlOpts::full() }))
}

fn scenarios() -> Vec<Scenario> {
    vec![
        Scenario { name: "mixed", weight: 5, max_polls: 400_000, max_virtual_secs: 48 * 3600, run: sc_full },
        Scenario { name: "fault-free", weight: 2, max_polls: 400_000, max_virtual_secs: 48 * 3600, run: sc_plain },
        Scenario { name: "late-credits", weight: 2, max_polls: 400_000, max_virtual_secs: 48 * 3600, run: sc_asym },
        Scenario { name: "stalled-receiver", weight: 2, max_polls: 400_000, max_virtual_secs: 48 * 3600, run: sc_stalled },
        Scenario { name: "roomy", weight: 1, max_polls: 400_000, max_virtual_secs: 48 * 3600, run: sc_roomy },
    ]
}

const RULE: &str = "each evaluation is one seeded simulation run: configuration pair, link profile, scheduler policy, 1-3 ports, \
per flow an op list of up to 12 sends/try_sends/chunk streams/cancelled sends/port batches, all drawn from the run seed; \
a run is non-trivial if at least two messages were completed and delivered; distinct = distinct (plan hash, poll-order hash) pairs";

pub fn checks() -> Vec<Check> {
    vec![
        Check {
            id: "C01",
            level: "exploration",
            classes: vec!["c01"],
            scenarios: scenarios(),
            quick: (120_000, 45),
            thorough: (2_000_000, 600),
            rule: RULE,
            assumptions: vec![
                "interleavings are explored at task-poll granularity on one thread",
                "the transport is ordered and reliable (delays, back-pressure only)",
                "reference model: vector of messages whose send returned Ok, appended in the poll in which the send completes",
            ],
            required_probes: vec!["chunked_message_hit", "cancel_send", "backpressure"],
            real_components: REAL_CHMUX,
            stub_components: STUB_NET,
        },
        Check {
            id: "C02",
            level: "exploration",
            classes: vec!["flow"],
            scenarios: scenarios(),
            quick: (120_000, 45),
            thorough: (2_000_000, 600),
            rule: RULE,
            assumptions: vec![
                "credit ledger is evaluated by an independent wire monitor (refproto) at every frame handed to the sink",
                "credits count as usable by the sender from the moment their frame is delivered to its stream",
            ],
            required_probes: vec!["credit_pool_hit_zero", "backpressure"],
            real_components: REAL_CHMUX,
            stub_components: STUB_NET,
        },
        Check {
            id: "C03",
            level: "exploration",
            classes: vec!["c03"],
            scenarios: scenarios(),
            quick: (120_000, 45),
            thorough: (2_000_000, 600),
            rule: RULE,
            assumptions: vec![
                "liveness is judged at quiescence of a healthy link under the virtual clock (no runnable task, no frame in flight for 0.9 s of virtual time)",
                "deferral by the scheduler is bounded (fair)",
            ],
            required_probes: vec!["credit_pool_hit_zero", "cancel_send", "credit_probe_ok"],
            real_components: REAL_CHMUX,
            stub_components: STUB_NET,
        },
    ]
}
