//! C09 — wire format of protocol version 3 is stable and version-negotiated.
//!
//! (i)  every frame emitted by a real endpoint in real↔real workloads is strictly decoded and
//!      canonically re-encoded by the reference codec (oracle class "codec" of the wire monitor);
//! (ii) a coverage driver makes real endpoints emit every message kind and flag combination;
//! (iii) a real endpoint talks to the scripted reference peer speaking v3 and v2 (id-less variants);
//! (iv) `Connect::io`: an independent length-prefix parser sits between two real endpoints and
//!      re-chunks the byte stream arbitrarily.

use std::{
    sync::{Arc, Mutex},
    time::Duration,
};

use bytes::Bytes;
use remoc::chmux::{self, ChMux, PortReq, Received};
use serde_json::json;
use tokio::io::{AsyncReadExt, AsyncWriteExt};

use crate::{
    harness::{Check, Scenario, ScenarioFuture},
    kit,
    mux::{self, CfgProfile},
    net::{self, LinkCfg},
    peer::{Peer, PeerMsg},
    proto::{self, Frame, MonitorMode},
    props::{
        REAL_CHMUX, STUB_NET,
        chmux_wl::{self, WlOpts},
    },
};

fn viol(kind: &'static str, detail: String) {
    kit::class_violation("c09", kind, format!("c09:{kind}"), detail);
}

// ---------------------------------------------------------------------------------------------
// (ii) coverage driver on two real endpoints
// ---------------------------------------------------------------------------------------------

async fn coverage() {
    kit::draw_sched_policy();
    kit::set_port_space(0);
    let mut cfg_a = mux::draw_cfg(CfgProfile::Tiny);
    let mut cfg_b = mux::draw_cfg(CfgProfile::Tiny);
    cfg_a.chunk_size = kit::pick(&[4u32, 8]);
    cfg_b.chunk_size = kit::pick(&[4u32, 8]);
    cfg_a.receive_buffer = kit::pick(&[8u32, 9, 16]);
    cfg_b.receive_buffer = kit::pick(&[8u32, 9, 16]);
    for c in [&mut cfg_a, &mut cfg_b] {
        c.max_ports = 24;
        c.max_received_ports = 64;
        c.connect_queue = 4;
    }
    cfg_a.connection_timeout = kit::pick(&[None, Some(Duration::from_secs(3))]);
    cfg_b.connection_timeout = kit::pick(&[None, Some(Duration::from_secs(5))]);
    let link_cfg = LinkCfg::draw();
    let (a, mut b, _ctl) = match mux::connect_pair("AB", cfg_a.clone(), cfg_b.clone(), link_cfg, MonitorMode::Full).await {
        Ok(v) => v,
        Err(e) => return kit::abort_run(e),
    };
    kit::set_sample(json!({"scenario": "coverage driver", "cfg_a": format!("{cfg_a:?}"), "cfg_b": format!("{cfg_b:?}")}));
    // Listener on B: accepts, rejects (both flavours) and serves ports.
    let lb = kit::spawn(async move {
        let mut n = 0;
        let mut keep = Vec::new();
        while let Ok(Some(req)) = b.listener.inspect().await {
            n += 1;
            match n % 4 {
                1 | 2 => {
                    if let Ok((tx, mut rx)) = req.accept().await {
                        keep.push(kit::spawn(async move {
                            let _tx = tx;
                            loop {
                                match rx.recv_any().await {
                                    Ok(Some(Received::Requests(reqs))) => {
                                        for (i, r) in reqs.into_iter().enumerate() {
                                            if i % 2 == 0 {
                                                r.reject(i % 4 == 0).await;
                                            } else {
                                                drop(r);
                                            }
                                        }
                                    }
                                    Ok(Some(Received::Chunks)) => while let Ok(Some(_)) = rx.recv_chunk().await {},
                                    Ok(Some(_)) => {}
                                    _ => break,
                                }
                            }
                        }));
                    }
                }
                3 => req.reject(false).await,
                _ => req.reject(true).await,
            }
        }
        (b.listener, b.client, keep)
    });
    // Client on A.
    let alloc = a.client.port_allocator();
    for i in 0..6 {
        let wait = i % 2 == 0;
        let port = match alloc.try_allocate() {
            Some(p) => p,
            None => break,
        };
        let c = match a.client.connect_ext(Some(PortReq::new(port).with_id(kit::pick(&[0u32, 1, u32::MAX, 77]))), wait).await {
            Ok(c) => c,
            Err(_) => continue,
        };
        if let Ok((mut tx, mut rx)) = c.await {
            // Data with every first/last combination: one single-chunk and one >= 3 chunk message.
            let _ = tx.send(Bytes::from_static(b"ab")).await;
            let _ = tx.send(Bytes::from(mux::payload(1, i, 3 * cfg_b.chunk_size as usize + 1))).await;
            // Port batches: small (first&last) and large (split into several PortData frames).
            for (n, w) in [(1usize, true), (1, false), (7, true), (7, false)] {
                let mut ports = Vec::new();
                for _ in 0..n {
                    if let Some(p) = alloc.try_allocate() {
                        ports.push(PortReq::new(p));
                    }
                }
                if ports.is_empty() {
                    continue;
                }
                if let Ok(connects) = tx.connect(ports, w).await {
                    for c in connects {
                        let _ = c.await;
                    }
                }
            }
            rx.close().await;
            kit::probe("coverage_port_used");
        }
    }
    // Idle so that pings flow, then orderly end (ClientFinish, ListenerFinish, finishes, Goodbye).
    tokio::time::sleep(Duration::from_secs(8)).await;
    let mux::Endpoint { client, listener, run: run_a, .. } = a;
    if kit::coin(1, 2) {
        client.terminate();
    }
    drop(client);
    drop(listener);
    kit::settle().await;
    lb.abort();
    kit::settle().await;
    let _ = (run_a, b.run);
    kit::set_nontrivial();
}

// ---------------------------------------------------------------------------------------------
// (iii) real endpoint against the scripted reference peer
// ---------------------------------------------------------------------------------------------

#[derive(Default)]
struct PeerBook {
    /// (remote_port, id) of every request the real endpoint's listener / receivers obtained.
    request_ids: Vec<(u32, u32)>,
    echoes_served: usize,
    client_echo_ok: Option<bool>,
    batch_outcomes: Vec<String>,
}

fn echo_port(mut tx: chmux::Sender, mut rx: chmux::Receiver, book: Arc<Mutex<PeerBook>>) -> std::pin::Pin<Box<dyn std::future::Future<Output = ()> + Send>> {
    Box::pin(async move {
    loop {
        match rx.recv_any().await {
            Ok(Some(Received::Data(d))) => {
                let _ = tx.send(Bytes::from(Vec::from(d))).await;
                book.lock().unwrap().echoes_served += 1;
                kit::activity();
            }
            Ok(Some(Received::Chunks)) => {
                let mut whole = Vec::new();
                while let Ok(Some(c)) = rx.recv_chunk().await {
                    whole.extend_from_slice(&c);
                }
                let _ = tx.send(Bytes::from(whole)).await;
                book.lock().unwrap().echoes_served += 1;
            }
            Ok(Some(Received::Requests(reqs))) => {
                for r in reqs {
                    book.lock().unwrap().request_ids.push((r.remote_port(), r.id()));
                    let b2 = book.clone();
                    kit::spawn(async move {
                        if let Ok((tx, rx)) = r.accept().await {
                            echo_port(tx, rx, b2).await;
                        }
                    });
                }
                kit::activity();
            }
            _ => break,
        }
    }
    })
}

async fn with_peer(version: u8) {
    kit::draw_sched_policy();
    kit::set_port_space(if kit::coin(1, 2) { 0 } else { 64 });
    let mut cfg_a = mux::draw_cfg(CfgProfile::Tiny);
    cfg_a.max_ports = 16;
    cfg_a.receive_buffer = cfg_a.receive_buffer.max(16);
    cfg_a.max_data_size = 256;
    cfg_a.connection_timeout = None;
    let link_cfg = LinkCfg::draw();
    let ((sink_a, stream_a), (sink_p, stream_p), ctl) = net::link("AP", link_cfg, MonitorMode::CodecOnly);
    ctl.monitor(|m| m.real = [true, false]);
    // Peer configuration with boundary values.
    let peer_hello = Frame::Hello {
        version,
        timeout_ms: kit::pick(&[0u64, 1, 60_000, u64::MAX]),
        chunk_size: kit::pick(&[4u32, 5, 64, u32::MAX - 16]),
        recv_buf: kit::pick(&[4u32, 16, 64, u32::MAX]),
        connect_queue: kit::pick(&[1u16, 2, u16::MAX]),
    };
    let (peer_chunk, peer_buf) = match &peer_hello {
        Frame::Hello { chunk_size, recv_buf, .. } => (*chunk_size as usize, *recv_buf as usize),
        _ => unreachable!(),
    };
    // A pinging real endpoint would need a pinging peer: timeouts != 0 with tiny values are
    // answered by the script below only while it is active; the run is short in virtual time.
    let junk: Vec<Vec<u8>> = match kit::draw(4) {
        0 => vec![],
        1 => vec![vec![3]],
        2 => vec![vec![0xff, 1, 2, 3], vec![]],
        _ => vec![proto::encode(&Frame::PortCredits { port: 1, credits: 1 }), vec![7, 0, 0]],
    };
    kit::set_sample(json!({"scenario": format!("peer v{version}"), "cfg_a": format!("{cfg_a:?}"), "peer_hello": format!("{peer_hello:?}"), "junk_frames_before_hello": junk.len()}));
    kit::mix_plan(kit::hash_str(&format!("{version}{peer_hello:?}{junk:?}")));

    let book = Arc::new(Mutex::new(PeerBook::default()));
    let book_a = book.clone();
    let cfg_a2 = cfg_a.clone();
    let a_task = kit::spawn(async move {
        let (mux, client, mut listener) = match ChMux::new(cfg_a2, sink_a, stream_a).await {
            Ok(v) => v,
            Err(e) => return Err(format!("handshake with the reference peer failed: {e}")),
        };
        let run = kit::spawn(mux.run());
        let bl = book_a.clone();
        let l_task = kit::spawn(async move {
            while let Ok(Some(req)) = listener.inspect().await {
                bl.lock().unwrap().request_ids.push((req.remote_port(), req.id()));
                kit::activity();
                if let Ok((tx, rx)) = req.accept().await {
                    kit::spawn(echo_port(tx, rx, bl.clone()));
                }
            }
            listener
        });
        // Client side: one port towards the peer, a label echo and a port batch.
        let wait = kit::coin(1, 2);
        let connected = match client.connect_ext(None, wait).await {
            Ok(c) => c.await,
            Err(e) => Err(e),
        };
        match connected {
            Ok((mut tx, mut rx)) => {
                let label = b"hello from A".to_vec();
                let _ = tx.send(Bytes::from(label.clone())).await;
                let ok = matches!(rx.recv().await, Ok(Some(d)) if Vec::from(d.clone()) == label);
                book_a.lock().unwrap().client_echo_ok = Some(ok);
                kit::activity();
                let alloc = tx.port_allocator();
                let ports: Vec<PortReq> = (0..2).filter_map(|_| alloc.try_allocate()).map(|p| PortReq::new(p).with_id(0xABCD_0000)).collect();
                if let Ok(connects) = tx.connect(ports, true).await {
                    for c in connects {
                        let o = match c.await {
                            Ok(_) => "ok".to_string(),
                            Err(e) => format!("{e}"),
                        };
                        book_a.lock().unwrap().batch_outcomes.push(o);
                    }
                }
                kit::activity();
            }
            Err(e) => return Err(format!("connect to the reference peer failed: {e}")),
        }
        Ok((client, l_task, run))
    });

    // ---- the peer's script ----
    let mut peer = Peer::new(sink_p, stream_p);
    let t = Duration::from_secs(20);
    // Foreign frames between the peer's Reset and its Hello are ignored as well: an undecodable frame,
    // a truncated Hello followed by a fresh start, a decodable stale message.
    let between: Vec<Vec<u8>> = match kit::draw(5) {
        0 | 1 => vec![],
        2 => vec![vec![0x63, 1, 2]],
        3 => {
            let mut h = proto::encode(&peer_hello);
            h.truncate(kit::draw_range(2, 20) as usize);
            vec![h, proto::encode(&Frame::Reset)]
        }
        _ => vec![proto::encode(&Frame::Goodbye), vec![]],
    };
    if !between.is_empty() {
        kit::probe("junk_between_reset_and_hello");
    }
    let Some(a_hello) = peer.handshake_ext(peer_hello.clone(), junk, between).await else {
        viol("handshake-failed", format!("the real endpoint did not complete the handshake with a version {version} peer ({peer_hello:?})"));
        return;
    };
    let a_chunk = a_hello.chunk_size as usize;
    let a_buf = a_hello.recv_buf as usize;

    // a. open a port towards A, with or without id.
    let p1 = kit::pick(&[0u32, 5, u32::MAX]);
    let id1 = if version >= 3 && kit::coin(1, 2) { Some(kit::pick(&[0u32, 9, u32::MAX])) } else { None };
    let wait1 = kit::coin(1, 2);
    peer.send(&Frame::OpenPort { client_port: p1, wait: wait1, id: id1 }).await;
    let Some(PeerMsg::Frame(Frame::PortOpened { server_port: s1, .. })) =
        peer.wait_for(t, |m| matches!(m, PeerMsg::Frame(Frame::PortOpened { client_port, .. }) if *client_port == p1)).await
    else {
        viol("open-port-unanswered", format!("OpenPort {{ client_port: {p1}, wait: {wait1}, id: {id1:?} }} from a v{version} peer was not answered with PortOpened"));
        return;
    };
    // b/c. messages towards A within its credit, echoed back in chunks of at most our chunk size.
    let mut used = 0usize;
    for parts in [1usize, 3] {
        let len = (a_chunk.min(a_buf / 2).max(1) * parts).min(a_buf.saturating_sub(used)).max(parts);
        let msg = mux::payload(42, parts as u32, len);
        let chunks: Vec<&[u8]> = msg.chunks(len.div_ceil(parts)).collect();
        for (i, c) in chunks.iter().enumerate() {
            peer.send_data(s1, i == 0, i + 1 == chunks.len(), c).await;
        }
        used += len;
        // Collect the echo.
        let mut echoed = Vec::new();
        loop {
            match peer.wait_for(t, |m| matches!(m, PeerMsg::Payload { port, .. } if *port == p1)).await {
                Some(PeerMsg::Payload { data, last, .. }) => {
                    if data.len() > peer_chunk {
                        viol("chunk-size-exceeded", format!("payload of {} bytes > peer's chunk size {peer_chunk}", data.len()));
                        return;
                    }
                    echoed.extend_from_slice(&data);
                    // Give credit back.
                    peer.send(&Frame::PortCredits { port: s1, credits: (data.len().max(1)) as u32 }).await;
                    if last {
                        break;
                    }
                }
                _ => {
                    viol("echo-missing", format!("no echo for a {len}-byte message sent in {parts} chunk(s) by a v{version} peer on port {s1}"));
                    return;
                }
            }
        }
        if echoed != msg {
            viol("echo-corrupt", format!("echo of a {len}-byte message differs ({} bytes came back)", echoed.len()));
            return;
        }
        // Wait for A's credits so that the next message fits.
        peer.drain(Duration::from_millis(50)).await;
        let returned: usize = peer
            .backlog
            .iter()
            .filter_map(|m| if let PeerMsg::Frame(Frame::PortCredits { port, credits }) = m { (*port == p1).then_some(*credits as usize) } else { None })
            .sum();
        peer.backlog.retain(|m| !matches!(m, PeerMsg::Frame(Frame::PortCredits { port, .. }) if *port == p1));
        used = used.saturating_sub(returned);
    }
    kit::probe("peer_echo_ok");

    // d. a port batch towards A, with or without ids.
    if a_buf.saturating_sub(used) >= 8 && a_chunk >= 8 {
        let q = [kit::pick(&[100u32, u32::MAX - 1]), 101];
        let ids = if version >= 3 && kit::coin(1, 2) { Some(vec![7000, 7001]) } else { None };
        peer.send(&Frame::PortData { port: s1, first: true, last: true, wait: kit::coin(1, 2), ports: q.to_vec(), ids: ids.clone() }).await;
        for (i, qp) in q.iter().enumerate() {
            if peer.wait_for(t, |m| matches!(m, PeerMsg::Frame(Frame::PortOpened { client_port, .. }) if client_port == qp)).await.is_none() {
                viol("port-batch-unanswered", format!("port {qp} requested through PortData (ids {ids:?}) by a v{version} peer was not opened"));
                return;
            }
            let want_id = ids.as_ref().map(|v| v[i]).unwrap_or(*qp);
            let seen = book.lock().unwrap().request_ids.iter().any(|(p, id)| p == qp && *id == want_id);
            if !seen {
                viol(
                    "request-id-wrong",
                    format!("request for remote port {qp}: the real endpoint saw ids {:?}, expected id {want_id}", book.lock().unwrap().request_ids),
                );
                return;
            }
        }
        kit::probe("peer_port_batch_ok");
    }
    // The id of the first request.
    {
        let want = id1.unwrap_or(p1);
        if !book.lock().unwrap().request_ids.iter().any(|(p, id)| *p == p1 && *id == want) {
            viol("request-id-wrong", format!("OpenPort id {id1:?} port {p1}: the real endpoint saw {:?}", book.lock().unwrap().request_ids));
            return;
        }
    }

    // e/f. serve A's own connect and its port batch.
    let Some(PeerMsg::Frame(Frame::OpenPort { client_port: ac, .. })) = peer.wait_for(t, |m| matches!(m, PeerMsg::Frame(Frame::OpenPort { .. }))).await else {
        viol("no-open-port-from-real-endpoint", "the real endpoint's connect() produced no OpenPort".into());
        return;
    };
    let r1 = 4242u32;
    peer.send(&Frame::PortOpened { client_port: ac, server_port: r1 }).await;
    // Echo A's label.
    let mut label = Vec::new();
    loop {
        match peer.wait_for(t, |m| matches!(m, PeerMsg::Payload { port, .. } if *port == r1)).await {
            Some(PeerMsg::Payload { data, last, .. }) => {
                label.extend_from_slice(&data);
                peer.send(&Frame::PortCredits { port: ac, credits: data.len().max(1) as u32 }).await;
                if last {
                    break;
                }
            }
            _ => {
                viol("no-data-from-real-endpoint", "the real endpoint's first message on its own port did not arrive".into());
                return;
            }
        }
    }
    for (i, c) in label.chunks(a_chunk.max(1)).enumerate() {
        peer.send_data(ac, i == 0, (i + 1) * a_chunk.max(1) >= label.len(), c).await;
    }
    // The batch: answer every requested port with Rejected, returning credits per message
    // (with a tiny receive buffer the batch arrives in several PortData messages).
    let mut n = 0;
    loop {
        match peer.wait_for(t, |m| matches!(m, PeerMsg::Frame(Frame::PortData { port, .. }) if *port == r1)).await {
            Some(PeerMsg::Frame(Frame::PortData { ports, last, .. })) => {
                for p in &ports {
                    peer.send(&Frame::Rejected { client_port: *p, no_ports: n % 2 == 0 }).await;
                    n += 1;
                }
                peer.send(&Frame::PortCredits { port: ac, credits: (ports.len() * 4) as u32 }).await;
                if last {
                    break;
                }
            }
            _ => break,
        }
    }
    kit::settle().await;
    if !a_task.is_finished() {
        viol("real-endpoint-stuck", "the real endpoint's client actor did not finish its exchange with the reference peer".into());
        return;
    }
    match a_task.await {
        Ok(Ok(handles)) => {
            let bk = book.lock().unwrap();
            if bk.client_echo_ok != Some(true) {
                viol("client-echo-failed", format!("the real endpoint's own port did not carry its label back: {:?}", bk.client_echo_ok));
                return;
            }
            if !bk.batch_outcomes.is_empty() && !bk.batch_outcomes.iter().all(|o| o.contains("rejected") || o.contains("in use")) {
                viol("batch-outcome-wrong", format!("ports rejected by the peer resolved as {:?}", bk.batch_outcomes));
                return;
            }
            kit::probe(if version >= 3 { "peer_v3_ok" } else { "peer_v2_ok" });
            kit::set_nontrivial();
            drop(bk);
            drop(handles);
        }
        Ok(Err(e)) => viol("real-endpoint-failed", e),
        Err(e) => viol("real-endpoint-failed", format!("{e}")),
    }
}

// ---------------------------------------------------------------------------------------------
// (iv) Connect::io with an independent length-prefix parser in the middle
// ---------------------------------------------------------------------------------------------

/// Reads bytes from `from`, parses `u32-LE length | frame` records independently, checks every
/// frame with the reference decoder and writes the same bytes to `to` in randomly sized pieces.
async fn framing_relay<R, W>(mut from: R, mut to: W, dir: usize, max_frame: usize)
where
    R: tokio::io::AsyncRead + Unpin,
    W: tokio::io::AsyncWrite + Unpin,
{
    let mut acc: Vec<u8> = Vec::new();
    let mut expect_payload = false;
    let mut buf = vec![0u8; 64];
    loop {
        let want = kit::draw_range(1, 64) as usize;
        let n = match from.read(&mut buf[..want]).await {
            Ok(0) | Err(_) => break,
            Ok(n) => n,
        };
        acc.extend_from_slice(&buf[..n]);
        // Parse complete records.
        let mut pos = 0;
        while acc.len() - pos >= 4 {
            let len = u32::from_le_bytes(acc[pos..pos + 4].try_into().unwrap()) as usize;
            if len > max_frame {
                viol("frame-too-long", format!("direction {dir}: length prefix {len} > maximum frame length {max_frame}"));
                return;
            }
            if acc.len() - pos - 4 < len {
                break;
            }
            let frame = &acc[pos + 4..pos + 4 + len];
            if expect_payload {
                expect_payload = false;
            } else {
                match proto::decode(frame) {
                    Ok(f) => {
                        expect_payload = matches!(f, Frame::Data { .. });
                        if proto::encode(&f) != frame {
                            viol("non-canonical-frame", format!("direction {dir}: {frame:02x?} is not the canonical encoding of {f:?}"));
                            return;
                        }
                        kit::probe("io_frame_parsed");
                    }
                    Err(e) => {
                        viol("undecodable-frame", format!("direction {dir}: frame {frame:02x?} inside a length-prefixed record is rejected by the reference decoder: {e}"));
                        return;
                    }
                }
            }
            pos += 4 + len;
        }
        // Forward what was read, in pieces.
        let mut rest = &buf[..n];
        while !rest.is_empty() {
            let k = (kit::draw_range(1, 16) as usize).min(rest.len());
            if to.write_all(&rest[..k]).await.is_err() {
                return;
            }
            rest = &rest[k..];
        }
        acc.drain(..pos);
        kit::activity();
    }
}

async fn io_framing() {
    kit::draw_sched_policy();
    let cfg_a = mux::draw_cfg(CfgProfile::Tiny);
    let cfg_b = mux::draw_cfg(CfgProfile::Tiny);
    let (a_side, relay_a) = tokio::io::duplex(kit::pick(&[1usize, 7, 64, 4096]));
    let (b_side, relay_b) = tokio::io::duplex(kit::pick(&[1usize, 7, 64, 4096]));
    let (ra_r, ra_w) = tokio::io::split(relay_a);
    let (rb_r, rb_w) = tokio::io::split(relay_b);
    let max_a = cfg_b.max_frame_length() as usize; // frames A sends must fit B's limit
    let max_b = cfg_a.max_frame_length() as usize;
    kit::spawn(framing_relay(ra_r, rb_w, 0, max_a));
    kit::spawn(framing_relay(rb_r, ra_w, 1, max_b));

    let (ar, aw) = tokio::io::split(a_side);
    let (br, bw) = tokio::io::split(b_side);
    let fa = remoc::Connect::io::<_, _, Vec<u8>, Vec<u8>, remoc::codec::Default>(cfg_a.clone(), ar, aw);
    let fb = remoc::Connect::io::<_, _, Vec<u8>, Vec<u8>, remoc::codec::Default>(cfg_b.clone(), br, bw);
    let (ra, rb) = tokio::join!(fa, fb);
    let ((conn_a, mut a_tx, mut a_rx), (conn_b, mut b_tx, mut b_rx)) = match (ra, rb) {
        (Ok(a), Ok(b)) => (a, b),
        (a, b) => {
            viol("io-connect-failed", format!("Connect::io through the re-chunking relay failed: {:?} / {:?}", a.err().map(|e| e.to_string()), b.err().map(|e| e.to_string())));
            return;
        }
    };
    let ca = kit::spawn(conn_a);
    let cb = kit::spawn(conn_b);
    kit::set_sample(json!({"scenario": "Connect::io through re-chunking relay", "cfg_a": format!("{cfg_a:?}"), "cfg_b": format!("{cfg_b:?}")}));
    let n = kit::draw_range(1, 5);
    for i in 0..n {
        let m1 = mux::payload(5, i, kit::draw(200) as usize);
        let m2 = mux::payload(6, i, kit::draw(200) as usize);
        let (s1, s2, r1, r2) = tokio::join!(a_tx.send(m1.clone()), b_tx.send(m2.clone()), b_rx.recv(), a_rx.recv());
        if s1.is_err() || s2.is_err() || !matches!(&r1, Ok(Some(v)) if *v == m1) || !matches!(&r2, Ok(Some(v)) if *v == m2) {
            viol("io-transfer-failed", format!("message {i} did not cross the length-prefixed stream intact: {:?} {:?}", r1.as_ref().map(|o| o.as_ref().map(|v| v.len())), r2.as_ref().map(|o| o.as_ref().map(|v| v.len()))));
            return;
        }
    }
    kit::probe("io_transfer_ok");
    kit::set_nontrivial();
    ca.abort();
    cb.abort();
}

fn sc_wl() -> ScenarioFuture {
    Box::pin(chmux_wl::run(WlOpts::full()))
}
fn sc_coverage() -> ScenarioFuture {
    Box::pin(coverage())
}
fn sc_peer3() -> ScenarioFuture {
    Box::pin(with_peer(3))
}
fn sc_peer2() -> ScenarioFuture {
    Box::pin(with_peer(2))
}
fn sc_io() -> ScenarioFuture {
    Box::pin(io_framing())
}

pub fn checks() -> Vec<Check> {
    vec![Check {
        id: "C09",
        level: "exploration",
        classes: vec!["c09", "codec"],
        scenarios: vec![
            Scenario { name: "real-real-mixed", weight: 3, max_polls: 400_000, max_virtual_secs: 48 * 3600, run: sc_wl },
            Scenario { name: "coverage-driver", weight: 2, max_polls: 400_000, max_virtual_secs: 48 * 3600, run: sc_coverage },
            Scenario { name: "reference-peer-v3", weight: 2, max_polls: 400_000, max_virtual_secs: 48 * 3600, run: sc_peer3 },
            Scenario { name: "reference-peer-v2", weight: 2, max_polls: 400_000, max_virtual_secs: 48 * 3600, run: sc_peer2 },
            Scenario { name: "io-framing", weight: 1, max_polls: 400_000, max_virtual_secs: 48 * 3600, run: sc_io },
        ],
        quick: (20_000, 50),
        thorough: (1_000_000, 600),
        rule: "each evaluation is one seeded run of: a real-real workload whose every emitted frame is strictly decoded and canonically re-encoded by the reference codec; \
a coverage driver emitting every message kind and flag combination (completeness self-test: every variant probe must be non-zero); a real endpoint against the scripted reference peer \
speaking v3 or v2 with boundary Hello values, junk before Hello, id-less OpenPort/PortData; Connect::io through an independent length-prefix parser that re-chunks the byte stream; \
non-trivial = the scenario's interoperability exchange completed; distinct = distinct (plan hash, poll-order hash)",
        assumptions: vec![
            "the frozen layout table of protocol v3 in proto.rs was transcribed from the documented layout, not derived from msg.rs",
            "the scripted peer is trusted to speak the protocol correctly",
        ],
        required_probes: vec![
            "Reset", "Hello", "Ping", "PortOpened", "PortCredits", "SendFinish", "ReceiveClose", "ReceiveFinish", "ClientFinish", "ListenerFinish", "Goodbye",
            "OpenPort/wait=0/id=0", "OpenPort/wait=0/id=1", "OpenPort/wait=1/id=0", "OpenPort/wait=1/id=1",
            "Rejected/no_ports=0", "Rejected/no_ports=1",
            "Data/first=0/last=0", "Data/first=0/last=1", "Data/first=1/last=0", "Data/first=1/last=1",
            "PortData/first=1/last=1/wait=0/ids=1", "PortData/first=1/last=1/wait=1/ids=1", "PortData/first=1/last=0/wait=1/ids=1",
            "PortData/first=0/last=1/wait=1/ids=1", "PortData/first=1/last=1/wait=1/ids=0",
            "peer_v3_ok", "peer_v2_ok", "junk_between_reset_and_hello", "peer_echo_ok", "peer_port_batch_ok", "io_transfer_ok", "io_frame_parsed",
        ],
        real_components: REAL_CHMUX,
        stub_components: STUB_NET,
    }]
}
