//! C04 — typed channels: per-sender prefix delivery; failing items never create gaps.
//!
//! Base channels (`rch::base`) between two real endpoints; items straddle `max_data_size`
//! (buffered vs. streamed through lock-step helper threads, hook H2), `chunk_size` and
//! `max_item_size` on either side; items that fail to serialize or deserialize; cancelled sends.

use std::{
    sync::{Arc, Mutex},
    time::Duration,
};

use remoc::{
    codec::Codec,
    rch::base::{self, RecvError, SendErrorKind},
};
use serde::{Deserialize, Deserializer, Serialize, Serializer, de, ser, ser::SerializeSeq};
use serde_json::json;

use crate::{
    harness::{Check, Scenario, ScenarioFuture},
    kit,
    mux::{self, CfgProfile},
    net::{Fault, FaultKind, LinkCfg},
    proto::MonitorMode,
    props::STUB_NET,
};

/// Item whose serialization fails after emitting `emit` elements.
#[derive(Clone, Debug, PartialEq)]
pub struct FailSer {
    pub id: u32,
    pub emit: usize,
}

impl Serialize for FailSer {
    fn serialize<S: Serializer>(&self, s: S) -> Result<S::Ok, S::Error> {
        let mut seq = s.serialize_seq(None)?;
        seq.serialize_element(&self.id)?;
        for i in 0..self.emit {
            seq.serialize_element(&(i as u32 ^ 0x5a5a_5a5a))?;
        }
        Err(ser::Error::custom("injected serialization failure"))
    }
}

impl<'de> Deserialize<'de> for FailSer {
    fn deserialize<D: Deserializer<'de>>(d: D) -> Result<Self, D::Error> {
        let v = Vec::<u32>::deserialize(d)?;
        Ok(FailSer { id: v.first().copied().unwrap_or(0), emit: v.len().saturating_sub(1) })
    }
}

/// Item that serializes fine but whose deserialization fails.
#[derive(Clone, Debug, PartialEq)]
pub struct FailDe {
    pub id: u32,
    pub pad: Vec<u8>,
}

impl Serialize for FailDe {
    fn serialize<S: Serializer>(&self, s: S) -> Result<S::Ok, S::Error> {
        (self.id, &self.pad).serialize(s)
    }
}

impl<'de> Deserialize<'de> for FailDe {
    fn deserialize<D: Deserializer<'de>>(d: D) -> Result<Self, D::Error> {
        let (_id, _pad) = <(u32, Vec<u8>)>::deserialize(d)?;
        Err(de::Error::custom("injected deserialization failure"))
    }
}

#[derive(Clone, Debug, PartialEq, Serialize, Deserialize)]
pub enum Item {
    Small(u32),
    Blob(u32, Vec<u8>),
    BadSer(FailSer),
    BadDe(FailDe),
}

impl Item {
    pub fn encoded_len(&self) -> Option<usize> {
        let mut v = Vec::new();
        <remoc::codec::Default as Codec>::serialize(&mut v, self).ok().map(|_| v.len())
    }

    fn short(&self) -> String {
        match self {
            Item::Small(id) => format!("Small({id})"),
            Item::Blob(id, b) => format!("Blob({id},{}B)", b.len()),
            Item::BadSer(f) => format!("BadSer({},emit {})", f.id, f.emit),
            Item::BadDe(f) => format!("BadDe({},{}B)", f.id, f.pad.len()),
        }
    }
}

/// What the sender observed for one attempt, as a class for the receiver-side oracle.
#[derive(Clone, Debug)]
enum Attempt {
    /// Send returned Ok and the receiver must obtain exactly this value.
    Deliver(Item),
    /// Send returned Ok but the receiver must report one non-final error for it.
    RecvFails(String),
    /// The send failed individually or was cancelled: nothing, or at most one non-final error.
    SenderFailed(String),
    /// The send future was dropped, or has not returned yet: nothing, one non-final error, or — when
    /// everything had been transmitted already (streamed items: the future still waits for its
    /// serialisation thread) — the complete value.
    Unfinished(Item),
}

#[derive(Clone, Debug, PartialEq)]
enum Event {
    Ok(Item),
    Err(String),
}

#[derive(Default)]
struct FlowState {
    id: u32,
    attempts: Vec<Attempt>,
    /// Item of the send call that has not returned yet.
    in_flight: Option<Item>,
    events: Vec<Event>,
    sender_done: bool,
    sender_final_error: Option<String>,
    receiver_end: Option<String>,
}

/// True if the receive events are consistent with the attempts (see module doc / DESIGN §4 C04).
fn matches(a: &[Attempt], r: &[Event], complete: bool) -> bool {
    fn go(a: &[Attempt], r: &[Event], complete: bool) -> bool {
        if r.is_empty() {
            return !complete || a.iter().all(|x| matches!(x, Attempt::SenderFailed(_) | Attempt::Unfinished(_)));
        }
        let Some((first, rest)) = a.split_first() else { return false };
        match first {
            Attempt::Deliver(v) => matches!(&r[0], Event::Ok(w) if w == v) && go(rest, &r[1..], complete),
            Attempt::RecvFails(_) => matches!(&r[0], Event::Err(_)) && go(rest, &r[1..], complete),
            Attempt::SenderFailed(_) => {
                go(rest, r, complete) || (matches!(&r[0], Event::Err(_)) && go(rest, &r[1..], complete))
            }
            Attempt::Unfinished(v) => {
                go(rest, r, complete)
                    || (matches!(&r[0], Event::Err(_)) && go(rest, &r[1..], complete))
                    || (matches!(&r[0], Event::Ok(w) if w == v) && go(rest, &r[1..], complete))
            }
        }
    }
    go(a, r, complete)
}

fn diagnose(f: &FlowState, complete: bool) -> Option<(&'static str, String)> {
    if matches(&f.attempts, &f.events, complete) {
        return None;
    }
    // The send call in progress may already have transmitted its item completely.
    if !complete
        && let Some(v) = &f.in_flight
    {
        let mut a = f.attempts.clone();
        a.push(Attempt::Unfinished(v.clone()));
        if matches(&a, &f.events, false) {
            return None;
        }
    }
    // While a send is still in progress (or was cut off by a connection failure) the receiver may
    // already have reported the error for that item: one trailing error may be unexplained.
    if !complete
        && let Some((Event::Err(_), head)) = f.events.split_last()
        && matches(&f.attempts, head, false)
    {
        return None;
    }
    let expected: Vec<&Item> = f.attempts.iter().filter_map(|a| if let Attempt::Deliver(v) = a { Some(v) } else { None }).collect();
    let got: Vec<&Item> = f.events.iter().filter_map(|e| if let Event::Ok(v) = e { Some(v) } else { None }).collect();
    let kind = 'k: {
        for (i, g) in got.iter().enumerate() {
            if expected.get(i) == Some(g) {
                continue;
            }
            if expected.iter().skip(i + 1).any(|e| e == g) {
                break 'k "lost-item";
            }
            if expected.iter().take(i).any(|e| e == g) {
                break 'k "duplicate-item";
            }
            break 'k "corrupt-or-foreign-item";
        }
        if got.len() < expected.len() && complete && matches(&f.attempts, &f.events, false) {
            break 'k "undelivered-item";
        }
        "error-accounting"
    };
    let detail = format!(
        "flow {}: attempts [{}] but receiver observed [{}] (complete={complete}, receiver end {:?})",
        f.id,
        f.attempts
            .iter()
            .map(|a| match a {
                Attempt::Deliver(v) => format!("ok:{}", v.short()),
                Attempt::RecvFails(s) => format!("ok-but-receiver-must-fail:{s}"),
                Attempt::SenderFailed(s) => format!("failed:{s}"),
                Attempt::Unfinished(v) => format!("cancelled:{}", v.short()),
            })
            .collect::<Vec<_>>()
            .join(", "),
        f.events
            .iter()
            .map(|e| match e {
                Event::Ok(v) => format!("Ok({})", v.short()),
                Event::Err(s) => format!("Err({s})"),
            })
            .collect::<Vec<_>>()
            .join(", "),
        f.receiver_end
    );
    Some((kind, detail))
}

#[derive(Clone, Debug)]
enum Op {
    Send(Item),
    CancelSend(Item, u32),
    Pause(u32),
}

fn blob(id: u32, len: usize) -> Item {
    Item::Blob(id, mux::payload(7, id, len))
}

fn draw_item(id: u32, mds_tx: usize, mds_rx: usize, cs: usize, mis: usize) -> Item {
    let sizes = [
        0usize,
        1,
        cs.saturating_sub(8),
        cs,
        mds_tx.saturating_sub(12),
        mds_tx.saturating_sub(6),
        mds_tx,
        mds_tx + 1,
        mds_rx.saturating_sub(6),
        mds_rx + 1,
        2 * mds_tx + 5,
        mis.saturating_sub(8).min(900),
        (mis + 1).min(900),
        3 * cs + 1,
    ];
    let len = if kit::coin(1, 4) { kit::draw(700) as usize } else { kit::pick(&sizes) }.min(900);
    match kit::draw(10) {
        0 | 1 => Item::Small(id),
        2 => Item::BadSer(FailSer { id, emit: kit::pick(&[0usize, 1, len / 5, len / 2]) }),
        3 => Item::BadDe(FailDe { id, pad: mux::payload(9, id, len) }),
        _ => blob(id, len),
    }
}

async fn sender_actor(flow: Arc<Mutex<FlowState>>, mut tx: base::Sender<Item>, ops: Vec<Op>, rx_max_item: usize) -> base::Sender<Item> {
    let classify_ok = |item: &Item| -> Attempt {
        match item {
            Item::BadDe(_) => Attempt::RecvFails("deserialize".into()),
            other => match other.encoded_len() {
                Some(n) if n > rx_max_item => Attempt::RecvFails(format!("{n} bytes > receiver max_item_size {rx_max_item}")),
                _ => Attempt::Deliver(other.clone()),
            },
        }
    };
    for op in ops {
        if kit::is_aborted() {
            break;
        }
        match op {
            Op::Pause(us) => tokio::time::sleep(Duration::from_micros(us as u64)).await,
            Op::Send(item) => {
                let keep = item.clone();
                flow.lock().unwrap().in_flight = Some(keep.clone());
                let res = tx.send(item).await;
                flow.lock().unwrap().in_flight = None;
                match res {
                    Ok(()) => {
                        kit::seq();
                        flow.lock().unwrap().attempts.push(classify_ok(&keep));
                    }
                    Err(e) if e.is_item_specific() => {
                        kit::probe("item_specific_send_error");
                        if matches!(e.kind, SendErrorKind::MaxItemSizeExceeded) {
                            kit::probe("sender_max_item_size_exceeded");
                        }
                        flow.lock().unwrap().attempts.push(Attempt::SenderFailed(format!("{}: {:?}", keep.short(), e.kind)));
                    }
                    Err(e) => {
                        flow.lock().unwrap().sender_final_error = Some(format!("{:?}", e.kind));
                        break;
                    }
                }
            }
            Op::CancelSend(item, k) => {
                let keep = item.clone();
                flow.lock().unwrap().in_flight = Some(keep.clone());
                let res = kit::cancel_after(tx.send(item), k).await;
                flow.lock().unwrap().in_flight = None;
                match res {
                    Some(Ok(())) => {
                        kit::seq();
                        flow.lock().unwrap().attempts.push(classify_ok(&keep));
                    }
                    Some(Err(e)) if e.is_item_specific() => {
                        flow.lock().unwrap().attempts.push(Attempt::SenderFailed(format!("{}: {:?}", keep.short(), e.kind)));
                    }
                    Some(Err(e)) => {
                        flow.lock().unwrap().sender_final_error = Some(format!("{:?}", e.kind));
                        break;
                    }
                    None => {
                        kit::fault_fired("cancel_send");
                        flow.lock().unwrap().attempts.push(Attempt::Unfinished(keep));
                    }
                }
            }
        }
    }
    flow.lock().unwrap().sender_done = true;
    kit::activity();
    tx
}

async fn receiver_actor(flow: Arc<Mutex<FlowState>>, mut rx: base::Receiver<Item>, recv_cancel: bool, deep: bool) {
    loop {
        if kit::is_aborted() || kit::spinning() {
            break;
        }
        let res = if deep || (recv_cancel && kit::coin(1, 10)) {
            // base::Receiver::recv keeps its state in the receiver: cancelling it must lose nothing.
            // (Also deep into a streamed item, when the queue to the deserialisation thread may be full.)
            let k = if deep || kit::coin(1, 3) { kit::draw_range(20, 400) } else { kit::draw_range(1, 4) };
            match kit::cancel_after(rx.recv(), k).await {
                Some(r) => r,
                None => {
                    kit::fault_fired("cancel_recv");
                    continue;
                }
            }
        } else {
            rx.recv().await
        };
        kit::activity();
        match res {
            Ok(Some(item)) => {
                kit::seq();
                let mut f = flow.lock().unwrap();
                f.events.push(Event::Ok(item));
                // Safety part, checked at every receive: events must be explainable by a prefix of attempts.
                if let Some((kind, detail)) = diagnose(&f, false) {
                    kit::class_violation("c04", kind, format!("c04:{kind}"), detail);
                }
            }
            Ok(None) => {
                flow.lock().unwrap().receiver_end = Some("end".into());
                break;
            }
            Err(e) if e.is_final() => {
                flow.lock().unwrap().receiver_end = Some(format!("final error: {e}"));
                break;
            }
            Err(e) => {
                kit::probe("non_final_recv_error");
                match &e {
                    RecvError::MaxItemSizeExceeded => kit::probe("receiver_max_item_size_exceeded"),
                    RecvError::Deserialize(_) => kit::probe("deserialize_error"),
                    _ => {}
                }
                let mut f = flow.lock().unwrap();
                f.events.push(Event::Err(format!("{e}")));
                if let Some((kind, detail)) = diagnose(&f, false) {
                    kit::class_violation("c04", kind, format!("c04:{kind}"), detail);
                }
            }
        }
    }
}

#[derive(Clone, Copy)]
struct Opts {
    cancel: bool,
    cut: bool,
    /// Long streamed items, tiny chunks, a steadily slow deserialisation thread and receive calls
    /// that are abandoned deep inside an item (the queue to that thread is then full).
    slow_deser: bool,
}

async fn run(opts: Opts) {
    kit::draw_sched_policy();
    if opts.slow_deser {
        kit::set_helper_gap(kit::pick(&[40u32, 120]));
    }
    kit::set_port_space(if kit::coin(1, 2) { 0 } else { 256 });
    let mut cfg_a = mux::draw_cfg(CfgProfile::Tiny);
    let mut cfg_b = if kit::coin(1, 3) { cfg_a.clone() } else { mux::draw_cfg(CfgProfile::Tiny) };
    for c in [&mut cfg_a, &mut cfg_b] {
        c.max_data_size = kit::pick(&[16usize, 33, 64, 256]);
        c.max_ports = c.max_ports.max(4);
        c.connection_timeout = None;
        if opts.slow_deser {
            c.chunk_size = kit::pick(&[4u32, 8, 16]);
            c.max_data_size = kit::pick(&[16usize, 64]);
            c.receive_buffer = c.receive_buffer.max(16);
        }
    }
    let link_cfg = LinkCfg::draw();
    let pair = match mux::connect_rch::<Item, Item>("AB", cfg_a.clone(), cfg_b.clone(), link_cfg, MonitorMode::Full).await {
        Ok(p) => p,
        Err(e) => {
            kit::abort_run(format!("setup failed: {e}"));
            return;
        }
    };
    let mux::RchPair { a_tx, a_rx, b_tx, b_rx, conn_a, conn_b, ctl } = pair;

    let both = kit::coin(1, 3);
    let mut flows = Vec::new();
    let mut senders = Vec::new();
    let mut receivers = Vec::new();
    let mut plan = Vec::new();
    let mut halves = vec![(a_tx, b_rx, &cfg_a, &cfg_b)];
    let mut spare = None;
    if both {
        halves.push((b_tx, a_rx, &cfg_b, &cfg_a));
    } else {
        spare = Some((b_tx, a_rx));
    }
    let cancel = opts.cancel && kit::coin(2, 3);
    for (fid, (mut tx, mut rx, cfg_tx, cfg_rx)) in halves.into_iter().enumerate() {
        let (tx_mis, rx_mis) = if opts.slow_deser {
            (remoc::rch::DEFAULT_MAX_ITEM_SIZE, remoc::rch::DEFAULT_MAX_ITEM_SIZE)
        } else {
            (kit::pick(&[remoc::rch::DEFAULT_MAX_ITEM_SIZE, 100, 300]), kit::pick(&[remoc::rch::DEFAULT_MAX_ITEM_SIZE, 100, 300]))
        };
        tx.set_max_item_size(tx_mis);
        rx.set_max_item_size(rx_mis);
        let n = if opts.slow_deser { kit::draw_range(1, 3) } else { kit::draw_range(1, 10) };
        let mut ops = Vec::new();
        for i in 0..n {
            let item = if opts.slow_deser && kit::coin(2, 3) {
                let id = fid as u32 * 1000 + i;
                Item::Blob(id, mux::payload(77, id, kit::pick(&[300usize, 700, 1500])))
            } else {
                draw_item(
                fid as u32 * 1000 + i,
                cfg_tx.max_data_size,
                cfg_rx.max_data_size,
                cfg_rx.chunk_size as usize,
                tx_mis.min(rx_mis),
            )
            };
            if cancel && kit::coin(1, 5) {
                ops.push(Op::CancelSend(item, kit::draw_range(0, 12)));
            } else {
                ops.push(Op::Send(item));
            }
            if kit::coin(1, 8) {
                ops.push(Op::Pause(kit::pick(&[10u32, 2000, 40_000])));
            }
        }
        plan.push(json!({"flow": fid, "tx_max_item_size": tx_mis, "rx_max_item_size": rx_mis,
            "ops": ops.iter().map(|o| match o { Op::Send(i) => format!("Send({})", i.short()), Op::CancelSend(i, k) => format!("CancelSend({}, after {k} polls)", i.short()), Op::Pause(us) => format!("Pause({us}us)") }).collect::<Vec<_>>()}));
        kit::mix_plan(kit::hash_str(&format!("{plan:?}")));
        let flow = Arc::new(Mutex::new(FlowState { id: fid as u32, ..Default::default() }));
        receivers.push(kit::spawn(receiver_actor(flow.clone(), rx, cancel, opts.slow_deser)));
        senders.push(kit::spawn(sender_actor(flow.clone(), tx, ops, rx_mis)));
        flows.push(flow);
    }
    kit::set_sample(json!({"cfg_a": format!("{cfg_a:?}"), "cfg_b": format!("{cfg_b:?}"), "link": format!("{link_cfg:?}"), "flows": plan}));

    if opts.cut {
        // Cut the link at a drawn frame of a drawn direction.
        let dir = kit::draw(2) as usize;
        let at = ctl.sent(dir) + kit::draw(60) as u64;
        let kind = kit::pick(&[FaultKind::SinkError, FaultKind::StreamError, FaultKind::Eof]);
        ctl.add_fault(Fault { dir, at, kind, heal_after_us: None });
    }

    kit::settle().await;
    if kit::is_aborted() {
        return;
    }
    let cut_fired = opts.cut && (conn_a.is_finished() || conn_b.is_finished());
    let mut delivered = 0;
    for f in &flows {
        let f = f.lock().unwrap();
        delivered += f.events.iter().filter(|e| matches!(e, Event::Ok(_))).count();
        let healthy = !cut_fired;
        if healthy {
            if !f.sender_done {
                kit::probe("sender_pending_at_quiescence");
                kit::class_violation(
                    "c04",
                    "send-hangs",
                    "c04:send-hangs",
                    format!("flow {}: send still pending at quiescence of a healthy connection; attempts so far {}", f.id, f.attempts.len()),
                );
                continue;
            }
            if let Some(e) = &f.sender_final_error {
                kit::class_violation("c04", "send-failed", "c04:send-failed-on-healthy-connection", format!("flow {}: {e}", f.id));
                continue;
            }
            if f.receiver_end.is_some() {
                kit::class_violation(
                    "c04",
                    "receiver-ended",
                    "c04:receiver-ended-on-healthy-connection",
                    format!("flow {}: receiver ended with {:?} although the sender is alive", f.id, f.receiver_end),
                );
                continue;
            }
        }
        if let Some((kind, detail)) = diagnose(&f, healthy) {
            kit::class_violation("c04", kind, format!("c04:{kind}"), detail);
        }
    }
    if delivered >= 2 {
        kit::set_nontrivial();
    }

    // Orderly end: dropping the senders ends the receivers after everything was delivered.
    if !opts.cut && !kit::has_violation() {
        for s in senders {
            if let Ok(tx) = s.await {
                drop(tx);
            }
        }
        kit::settle().await;
        for f in &flows {
            let f = f.lock().unwrap();
            if f.receiver_end.as_deref() != Some("end") {
                kit::class_violation(
                    "c04",
                    "no-end-of-stream",
                    "c04:no-end-of-stream-after-sender-drop",
                    format!("flow {}: receiver state after sender drop: {:?}", f.id, f.receiver_end),
                );
            }
        }
    }
    drop(spare);
    for r in receivers {
        r.abort();
    }
    conn_a.abort();
    conn_b.abort();
}

fn sc_mixed() -> ScenarioFuture {
    Box::pin(run(Opts { cancel: true, cut: false, slow_deser: false }))
}

fn sc_fault_free() -> ScenarioFuture {
    Box::pin(run(Opts { cancel: false, cut: false, slow_deser: false }))
}

fn sc_slow_deser() -> ScenarioFuture {
    Box::pin(run(Opts { cancel: true, cut: false, slow_deser: true }))
}

fn sc_cut() -> ScenarioFuture {
    Box::pin(run(Opts { cancel: true, cut: true, slow_deser: false }))
}

pub fn checks() -> Vec<Check> {
    vec![Check {
        id: "C04",
        level: "exploration",
        classes: vec!["c04"],
        scenarios: vec![
            Scenario { name: "base-mixed", weight: 5, max_polls: 400_000, max_virtual_secs: 48 * 3600, run: sc_mixed },
            Scenario { name: "base-fault-free", weight: 2, max_polls: 400_000, max_virtual_secs: 48 * 3600, run: sc_fault_free },
            Scenario { name: "base-link-cut", weight: 2, max_polls: 400_000, max_virtual_secs: 48 * 3600, run: sc_cut },
            Scenario { name: "base-slow-deserialiser", weight: 1, max_polls: 1_500_000, max_virtual_secs: 48 * 3600, run: sc_slow_deser },
        ],
        quick: (12_000, 50),
        thorough: (600_000, 600),
        rule: "each evaluation is one seeded run: configuration pair, link profile, scheduler policy, one or two base-channel flows with up to 10 items each \
(small, blobs around max_data_size/chunk_size/max_item_size, items failing to serialize or deserialize, cancelled sends), optional link cut at a drawn frame; \
non-trivial = at least two items delivered; distinct = distinct (plan hash, poll-order hash) pairs",
        assumptions: vec![
            "helper threads for streamed (de)serialisation run in lock-step with the simulator thread (hook H2)",
            "receiver-side expectation per item is derived from what the sender observed (Ok / item-specific error / cancelled) and the encoded size",
        ],
        required_probes: vec!["helper_thread_ran", "item_specific_send_error", "non_final_recv_error", "cancel_send"],
        real_components: "remoc::rch::base sender/receiver incl. streamed (de)serialisation, default codec (postbag), remoc::chmux, Connect::framed, tokio::sync",
        stub_components: STUB_NET,
    }]
}
