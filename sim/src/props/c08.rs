//! C08 — robustness against an arbitrary or hostile peer.
//!
//! A real endpoint A (dispatcher, listener actor, client actor, one actor per open port) talks to a
//! scripted peer built only on the reference codec. The peer plays a drawn script of *valid* steps
//! (open ports, complete messages within credit and chunk size, credit returns, answers to A's
//! requests, finish/close messages, pauses) that drive A's ports into every state (connecting,
//! connected, half-closed either way, freed, receiver stalled / consuming / dropped) interleaved
//! with *hostile* steps: garbage and mutated frames, truncation, unknown codes, Data without
//! payload, frames for unknown / freed / connecting ports, chunk and credit overruns, credit
//! overflow, unsolicited or duplicate answers, duplicate and flooding requests, port-batch bombs,
//! duplicate finishes, data after finish, second Hello, Reset, Goodbye, replayed frames.
//!
//! Oracles: (1) no panic anywhere; (2) bounded memory: while A stays up, cost delivered to a port
//! minus cost its local receiver consumed stays within the advertised receive buffer (plus one
//! partly assembled message), a chunk larger than the advertised chunk size is never accepted, and
//! unanswered requests stay within the connect queues; (3) disjunction at quiescence: either the
//! dispatcher ended and every local user (port actors, listener, pending connects, fresh calls)
//! observed an error and nobody hangs or sees an orderly end that the peer never announced, or A
//! still works: messages the peer sent validly before touching a port arrive intact and in order,
//! and a fresh connect + echo exchange succeeds unless the peer has legitimately shut that path.

use std::{
    collections::BTreeMap,
    sync::{Arc, Mutex},
    time::Duration,
};

use bytes::Bytes;
use remoc::chmux::{self, ChMux, ConnectError, Received};
use serde_json::json;
use tokio::sync::Notify;

use crate::{
    harness::{Check, Scenario, ScenarioFuture},
    kit,
    mux::{self, CfgProfile},
    net::{self, LinkCfg},
    peer::{Peer, PeerMsg},
    proto::{self, Frame, HelloCfg, MonitorMode},
    props::STUB_NET,
};

fn viol(kind: &str, detail: String) {
    kit::class_violation("c08", kind.to_string(), format!("c08:{kind}"), detail);
}

/// Panics are identified by the location of the first one (file name and line).
fn panic_viol(panics: &[String], detail: String) {
    let first = panics.first().cloned().unwrap_or_default();
    let loc = first.split(": ").next().unwrap_or("").rsplit('/').next().unwrap_or("").to_string();
    kit::class_violation("c08", "panic", format!("c08:panic:{loc}"), detail);
}

// ---------------------------------------------------------------------------------------------
// A side: local users
// ---------------------------------------------------------------------------------------------

#[derive(Clone, Copy, Debug, PartialEq, Eq)]
enum Mode {
    Consume,
    Stall,
    DropRx,
    DropBoth,
}

#[derive(Debug, Default)]
struct PortBook {
    /// A's local port number.
    a_port: u32,
    /// Peer's port number.
    p_port: u32,
    mode: Option<Mode>,
    /// Whole messages obtained by the local receiver.
    received: Vec<Vec<u8>>,
    /// Cost (max(len,1) per chunk-equivalent; counted per message bytes, zero-length = 1) consumed.
    consumed_bytes: u64,
    /// Terminal observation of the receive loop.
    recv_end: Option<&'static str>,
    send_end: Option<&'static str>,
    requests_seen: usize,
}

#[derive(Default)]
struct Book {
    ports: Vec<PortBook>,
    listener_end: Option<&'static str>,
    connects: Vec<(String, Option<String>)>,
    held_requests: usize,
    requests_taken: usize,
}

type BookRef = Arc<Mutex<Book>>;

async fn port_actor(idx: usize, mode: Mode, mut tx: chmux::Sender, mut rx: chmux::Receiver, book: BookRef, release: Arc<Notify>, sends: u32) {
    let set_recv_end = |s: &'static str| book.lock().unwrap().ports[idx].recv_end = Some(s);
    let set_send_end = |s: &'static str| book.lock().unwrap().ports[idx].send_end = Some(s);
    match mode {
        Mode::Stall => {
            release.notified().await;
        }
        Mode::DropRx => {
            drop(rx);
            set_recv_end("dropped");
            release.notified().await;
            match tx.send(Bytes::from_static(b"late")).await {
                Ok(()) => set_send_end("ok"),
                Err(_) => set_send_end("error"),
            }
            return;
        }
        Mode::DropBoth => {
            set_recv_end("dropped");
            set_send_end("dropped");
            return;
        }
        Mode::Consume => {}
    }
    // A few messages towards the peer (may legitimately wait for credits while the connection is up).
    let sender = {
        let book = book.clone();
        async move {
            for i in 0..sends {
                let data = mux::payload(900 + idx as u32, i, kit::pick(&[0usize, 3, 17, 60]));
                // Some sends are cancelled part-way (credits assigned to them go back to the pool).
                let k = if kit::coin(1, 3) { kit::draw_range(1, 6) } else { 10_000 };
                match kit::cancel_after(tx.send(Bytes::from(data)), k).await {
                    Some(Err(_)) => {
                        book.lock().unwrap().ports[idx].send_end = Some("error");
                        return tx;
                    }
                    Some(Ok(())) => {}
                    None => kit::fault_fired("a_send_cancelled"),
                }
                kit::activity();
            }
            book.lock().unwrap().ports[idx].send_end = Some("ok");
            tx
        }
    };
    let receiver = async {
        loop {
            match rx.recv_any().await {
                Ok(Some(Received::Data(d))) => {
                    let v = Vec::from(d);
                    let mut b = book.lock().unwrap();
                    b.ports[idx].consumed_bytes += (v.len() as u64).max(1);
                    b.ports[idx].received.push(v);
                    kit::activity();
                }
                Ok(Some(Received::Chunks)) => {
                    let mut whole = Vec::new();
                    let mut complete = false;
                    loop {
                        match rx.recv_chunk().await {
                            Ok(Some(c)) => {
                                book.lock().unwrap().ports[idx].consumed_bytes += (c.len() as u64).max(1);
                                whole.extend_from_slice(&c);
                            }
                            Ok(None) => {
                                complete = true;
                                break;
                            }
                            Err(chmux::RecvChunkError::Cancelled) => break,
                            Err(chmux::RecvChunkError::ChMux) => {
                                set_recv_end("error");
                                return;
                            }
                        }
                    }
                    if complete {
                        book.lock().unwrap().ports[idx].received.push(whole);
                    }
                    kit::activity();
                }
                Ok(Some(Received::Requests(reqs))) => {
                    let mut b = book.lock().unwrap();
                    b.ports[idx].requests_seen += reqs.len();
                    b.ports[idx].consumed_bytes += 4 * reqs.len() as u64;
                    drop(b);
                    // Dropping rejects them.
                    drop(reqs);
                    kit::activity();
                }
                Ok(None) => {
                    set_recv_end("end");
                    return;
                }
                Err(chmux::RecvError::ChMux) => {
                    set_recv_end("error");
                    return;
                }
                Err(_) => {
                    // Size / port count limits: the stream continues.
                    kit::probe("a_recv_limit_error");
                    if kit::spinning() {
                        return;
                    }
                }
            }
        }
    };
    let (_tx, ()) = tokio::join!(sender, receiver);
}

// ---------------------------------------------------------------------------------------------
// Peer side: model of what the peer did
// ---------------------------------------------------------------------------------------------

#[derive(Debug, Clone)]
struct PPort {
    a_port: u32,
    p_port: u32,
    /// Credits the peer may still use towards A.
    credit_left: i64,
    /// Total cost of port data delivered towards A.
    delivered_cost: u64,
    sent_finish: bool,
    sent_recv_close: bool,
    sent_recv_finish: bool,
    a_send_finished: bool,
    a_recv_finished: bool,
    /// First hostile or non-standard frame touching this port: integrity is judged only for messages before it.
    tainted: bool,
    /// Messages completed validly before the port was tainted.
    valid_msgs: Vec<Vec<u8>>,
    /// A chunk beyond the advertised size or credit was delivered to this port.
    overrun: Option<String>,
    msgs_sent: u32,
    /// Credits A returned for this port: at least that much left A's receive queue.
    credits_back: u64,
}

struct Model {
    a: HelloCfg,
    ports: Vec<PPort>,
    /// Peer's unanswered OpenPort / PortData requests: client port -> wait flag.
    my_reqs: BTreeMap<u32, bool>,
    my_reqs_total_unanswered_open: usize,
    /// A's unanswered requests (client port numbers of A).
    a_reqs: Vec<u32>,
    next_pport: u32,
    sent_client_finish: bool,
    sent_listener_finish: bool,
    sent_goodbye: bool,
    a_goodbye: bool,
    /// Everything the peer put on the wire (for replays).
    sent_log: Vec<Vec<u8>>,
    hostile_log: Vec<String>,
    hostile_count: u32,
    /// Set when the peer sent something after which a correct endpoint must terminate.
    must_terminate: Option<String>,
    /// A frame whose meaning for A the peer cannot predict was sent (garbage, mutation, replay,
    /// forged answer): from then on no `must terminate` claim is made.
    uncertain: bool,
    /// Numbers used in hostile frames while the peer knew no port of A with that number
    /// (A may have had one already: its PortOpened / OpenPort can be in flight).
    hostile_numbers: Vec<u32>,
    /// Port numbers named by any frame on the wire that reads as SendFinish.
    finish_numbers: Vec<u32>,
    /// Size of A's port-number space (0 = all of u32).
    a_port_space: u32,
    credits_from_a: u64,
}

impl Model {
    fn port_by_a(&mut self, a_port: u32) -> Option<&mut PPort> {
        self.ports.iter_mut().rev().find(|p| p.a_port == a_port)
    }
    fn port_by_p(&mut self, p_port: u32) -> Option<&mut PPort> {
        self.ports.iter_mut().rev().find(|p| p.p_port == p_port)
    }
    fn live(&self) -> Vec<usize> {
        self.ports.iter().enumerate().filter(|(_, p)| !(p.sent_finish && p.sent_recv_finish && p.a_send_finished && p.a_recv_finished)).map(|(i, _)| i).collect()
    }
    fn freed(&self) -> Vec<usize> {
        self.ports.iter().enumerate().filter(|(_, p)| p.sent_finish && p.sent_recv_finish && p.a_send_finished && p.a_recv_finished).map(|(i, _)| i).collect()
    }

    /// Updates the model from a message received from A. Returns frames to answer with (credits).
    fn absorb(&mut self, msg: &PeerMsg, return_credits: bool) -> Vec<Frame> {
        let mut out = Vec::new();
        match msg {
            PeerMsg::Frame(Frame::PortOpened { client_port, server_port }) => {
                if self.my_reqs.remove(client_port).is_some() {
                    self.ports.push(PPort {
                        a_port: *server_port,
                        p_port: *client_port,
                        credit_left: self.a.recv_buf as i64,
                        delivered_cost: 0,
                        sent_finish: false,
                        sent_recv_close: false,
                        sent_recv_finish: false,
                        a_send_finished: false,
                        a_recv_finished: false,
                        tainted: self.hostile_numbers.contains(server_port),
                        valid_msgs: Vec::new(),
                        overrun: None,
                        msgs_sent: 0,
                        credits_back: 0,
                    });
                }
            }
            PeerMsg::Frame(Frame::Rejected { client_port, .. }) => {
                self.my_reqs.remove(client_port);
            }
            PeerMsg::Frame(Frame::OpenPort { client_port, .. }) => self.a_reqs.push(*client_port),
            PeerMsg::Frame(Frame::PortData { port, ports, .. }) => {
                self.a_reqs.extend(ports.iter().copied());
                if return_credits && let Some(p) = self.port_by_p(*port) {
                    out.push(Frame::PortCredits { port: p.a_port, credits: (ports.len() * 4) as u32 });
                }
            }
            PeerMsg::Payload { port, data, .. } => {
                if return_credits && let Some(p) = self.port_by_p(*port) {
                    if !p.sent_recv_finish {
                        out.push(Frame::PortCredits { port: p.a_port, credits: (data.len() as u32).max(1) });
                    }
                }
            }
            PeerMsg::Frame(Frame::PortCredits { port, credits }) => {
                self.credits_from_a += *credits as u64;
                if let Some(p) = self.port_by_p(*port) {
                    p.credit_left += *credits as i64;
                    p.credits_back += *credits as u64;
                }
            }
            PeerMsg::Frame(Frame::SendFinish { port }) => {
                if let Some(p) = self.port_by_p(*port) {
                    p.a_send_finished = true;
                }
            }
            PeerMsg::Frame(Frame::ReceiveFinish { port }) => {
                if let Some(p) = self.port_by_p(*port) {
                    p.a_recv_finished = true;
                }
            }
            PeerMsg::Frame(Frame::Goodbye) => self.a_goodbye = true,
            _ => {}
        }
        out
    }
}

struct Script {
    peer: Peer,
    m: Model,
    return_credits: bool,
    /// The last frame put on the wire reads as a Data header: A takes the next frame as its payload.
    expect_payload: bool,
    ctl: net::LinkCtl,
    /// (frames the peer had sent when the cost was on the wire, port index, cost).
    marks: Vec<(u64, usize, u64)>,
    /// Sending got stuck because A stopped reading.
    send_dead: bool,
}

impl Script {
    async fn raw(&mut self, data: Vec<u8>) -> bool {
        if self.send_dead {
            return false;
        }
        // (Lenient like the real decoder, which ignores trailing bytes.)
        if !self.expect_payload && data.len() >= 5 && data[0] == 10 {
            // Whatever produced it (script, mutation, replay): this reads as SendFinish for that port.
            self.m.finish_numbers.push(u32::from_le_bytes(data[1..5].try_into().unwrap()));
        }
        self.expect_payload = !self.expect_payload && data.len() >= 6 && data[0] == 7;
        self.m.sent_log.push(data.clone());
        // A may have stopped reading (e.g. after Goodbye) while the link is full: never wait forever.
        match kit::within(Duration::from_secs(1), self.peer.send_raw(data)).await {
            Some(ok) => ok,
            None => {
                kit::probe("peer_send_blocked");
                self.send_dead = true;
                false
            }
        }
    }

    async fn frame(&mut self, f: &Frame) -> bool {
        self.raw(proto::encode(f)).await
    }

    /// Processes everything A sent within `window` of virtual time.
    async fn pump(&mut self, window: Duration) {
        self.peer.drain(window).await;
        while let Some(msg) = self.peer.backlog.pop_front() {
            let answers = self.m.absorb(&msg, self.return_credits);
            for f in answers {
                if !self.frame(&f).await {
                    return;
                }
            }
        }
    }

    /// Cost of port data for port `i` that A has taken from the transport.
    fn delivered_cost(&self, i: usize) -> u64 {
        let delivered = self.ctl.delivered(1);
        self.marks.iter().filter(|(at, j, _)| *j == i && *at <= delivered).map(|(_, _, c)| *c).sum()
    }

    /// Excludes the port from the integrity clause: every life of its number (a freed number may be
    /// in use again, and the opening of a new life may still be in flight).
    fn taint(&mut self, i: usize) {
        let n = self.m.ports[i].a_port;
        for p in self.m.ports.iter_mut().filter(|p| p.a_port == n) {
            p.tainted = true;
        }
        self.m.hostile_numbers.push(n);
    }

    /// Records that a correct endpoint must end the connection because of what was just sent.
    fn claim(&mut self, why: String) {
        if !self.m.uncertain {
            self.m.must_terminate.get_or_insert(why);
        }
    }

    /// True if the number is not (and never was) a port or pending request of A known to the peer.
    fn number_unused(&self, port: u32) -> bool {
        !self.m.ports.iter().any(|p| p.a_port == port) && !self.m.a_reqs.contains(&port)
    }

    fn hostile(&mut self, what: String) {
        self.m.hostile_count += 1;
        if self.m.hostile_log.len() < 40 {
            self.m.hostile_log.push(what);
        }
    }

    // ---- valid steps ----

    async fn open_port(&mut self) {
        if self.m.sent_client_finish || self.m.sent_goodbye {
            return;
        }
        // Stay within A's connect queue (flooding is a hostile step).
        if self.m.my_reqs_total_unanswered_open >= self.m.a.connect_queue as usize {
            return;
        }
        self.m.next_pport += 1;
        let p = self.m.next_pport;
        let wait = kit::coin(1, 2);
        let id = if kit::coin(1, 2) { Some(kit::pick(&[0u32, 77, u32::MAX])) } else { None };
        self.m.my_reqs.insert(p, wait);
        self.m.my_reqs_total_unanswered_open += 1;
        self.frame(&Frame::OpenPort { client_port: p, wait, id }).await;
        kit::probe("peer_valid_open");
    }

    /// Sends one complete message within credit and chunk size on a port whose state allows it.
    async fn valid_message(&mut self) {
        let cands: Vec<usize> =
            self.m.live().into_iter().filter(|&i| !self.m.ports[i].sent_finish && !self.m.ports[i].tainted && self.m.ports[i].credit_left > 0).collect();
        if cands.is_empty() {
            return;
        }
        let i = kit::pick(&cands);
        let chunk = self.m.a.chunk_size.min(64) as i64;
        let credit = self.m.ports[i].credit_left;
        let nchunks = kit::draw_range(1, 3) as i64;
        let len = (kit::draw((chunk * nchunks) as u32 + 1) as i64).min(credit);
        let a_port = self.m.ports[i].a_port;
        self.m.ports[i].msgs_sent += 1;
        let body = mux::payload(a_port ^ 0x5555, self.m.ports[i].msgs_sent, len as usize);
        let parts: Vec<&[u8]> = if body.is_empty() { vec![&body[..]] } else { body.chunks(chunk as usize).collect() };
        let n = parts.len();
        let mut cost = 0i64;
        for (k, part) in parts.iter().enumerate() {
            cost += (part.len() as i64).max(1);
            if !self.frame(&Frame::Data { port: a_port, first: k == 0, last: k + 1 == n }).await || !self.raw(part.to_vec()).await {
                return;
            }
        }
        let p = &mut self.m.ports[i];
        p.credit_left -= cost;
        self.marks.push((self.ctl.sent(1), i, (cost as u64) as u64));
        p.valid_msgs.push(body);
        kit::probe("peer_valid_message");
    }

    async fn answer_a_request(&mut self) {
        if self.m.a_reqs.is_empty() {
            return;
        }
        let cp = self.m.a_reqs.remove(0);
        if kit::coin(2, 3) && !self.m.sent_listener_finish {
            self.m.next_pport += 1;
            let p = self.m.next_pport;
            self.m.ports.push(PPort {
                a_port: cp,
                p_port: p,
                credit_left: self.m.a.recv_buf as i64,
                delivered_cost: 0,
                sent_finish: false,
                sent_recv_close: false,
                sent_recv_finish: false,
                a_send_finished: false,
                a_recv_finished: false,
                tainted: self.m.hostile_numbers.contains(&cp),
                valid_msgs: Vec::new(),
                overrun: None,
                msgs_sent: 0,
                credits_back: 0,
            });
            self.frame(&Frame::PortOpened { client_port: cp, server_port: p }).await;
        } else {
            self.frame(&Frame::Rejected { client_port: cp, no_ports: kit::coin(1, 2) }).await;
        }
        kit::probe("peer_answered_request");
    }

    async fn valid_finish(&mut self) {
        let live = self.m.live();
        if live.is_empty() {
            return;
        }
        let i = kit::pick(&live);
        let a_port = self.m.ports[i].a_port;
        match kit::draw(3) {
            0 if !self.m.ports[i].sent_finish => {
                self.m.ports[i].sent_finish = true;
                self.frame(&Frame::SendFinish { port: a_port }).await;
                kit::probe("peer_valid_send_finish");
            }
            1 if !self.m.ports[i].sent_recv_close && !self.m.ports[i].sent_recv_finish => {
                self.m.ports[i].sent_recv_close = true;
                self.frame(&Frame::ReceiveClose { port: a_port }).await;
                kit::probe("peer_valid_receive_close");
            }
            2 if !self.m.ports[i].sent_recv_finish => {
                self.m.ports[i].sent_recv_finish = true;
                self.frame(&Frame::ReceiveFinish { port: a_port }).await;
                kit::probe("peer_valid_receive_finish");
            }
            _ => {}
        }
    }

    // ---- hostile steps ----

    fn some_a_port(&mut self) -> (u32, Option<usize>, &'static str) {
        let live = self.m.live();
        let freed = self.m.freed();
        match kit::draw(6) {
            0 | 1 | 2 if !live.is_empty() => {
                let i = kit::pick(&live);
                (self.m.ports[i].a_port, Some(i), "live")
            }
            3 if !freed.is_empty() => {
                let i = kit::pick(&freed);
                (self.m.ports[i].a_port, Some(i), "freed")
            }
            4 if !self.m.a_reqs.is_empty() => {
                let n = kit::pick(&self.m.a_reqs);
                self.m.hostile_numbers.push(n);
                (n, None, "connecting")
            }
            _ => {
                let n = kit::pick(&[0u32, 1, 0xdead_beef, u32::MAX]);
                if let Some(i) = self.m.ports.iter().rposition(|p| p.a_port == n) {
                    // The number happens to be a port the peer knows.
                    return (n, Some(i), if live.contains(&i) { "live" } else { "freed" });
                }
                self.m.hostile_numbers.push(n);
                (n, None, "unknown")
            }
        }
    }

    async fn hostile_step(&mut self) {
        self.hostile_step_inner().await;
        // Whatever was sent last may read as a Data header (replays, mutations, garbage): give it a
        // payload at once, so that the byte stream and the peer's model stay in step.
        if self.expect_payload && !self.peer.closed && !self.send_dead {
            let hdr = self.m.sent_log.last().cloned().unwrap_or_default();
            let port = u32::from_le_bytes(hdr.get(1..5).and_then(|b| b.try_into().ok()).unwrap_or([0xff; 4]));
            let payload = vec![0xEE; kit::pick(&[0usize, 1, 3])];
            let cost = (payload.len() as i64).max(1);
            self.m.hostile_numbers.push(port);
            if self.raw(payload).await
                && let Some(i) = self.m.ports.iter().rposition(|p| p.a_port == port)
            {
                self.taint(i);
                self.m.ports[i].credit_left -= cost;
                self.marks.push((self.ctl.sent(1), i, cost as u64));
            }
        }
    }

    async fn hostile_step_inner(&mut self) {
        let kind = kit::draw(17);
        match kind {
            0 => {
                // Garbage.
                let n = kit::pick(&[0u32, 1, 2, 5, 16, 40]);
                let mut v: Vec<u8> = (0..n).map(|_| kit::draw(256) as u8).collect();
                if let Some(b) = v.first_mut()
                    && kit::coin(1, 2)
                {
                    *b = kit::pick(&[0u8, 16, 17, 99, 255]);
                }
                self.hostile(format!("garbage frame {v:02x?}"));
                kit::fault_fired("garbage_frame");
                self.m.uncertain = true;
                // A garbage frame may decode as something meaningful: integrity is not judged afterwards.
                for i in 0..self.m.ports.len() {
                    self.taint(i);
                }
                self.raw(v).await;
            }
            1 => {
                // Mutated replay of something sent before.
                if self.m.sent_log.is_empty() {
                    return;
                }
                let mut v = kit::pick(&self.m.sent_log);
                match kit::draw(3) {
                    0 if !v.is_empty() => {
                        let i = kit::draw(v.len() as u32) as usize;
                        v[i] ^= 1 << kit::draw(8);
                    }
                    1 if !v.is_empty() => {
                        let k = kit::draw(v.len() as u32) as usize;
                        v.truncate(k);
                    }
                    _ => v.extend_from_slice(&[kit::draw(256) as u8, kit::draw(256) as u8]),
                }
                self.hostile(format!("mutated frame {v:02x?}"));
                kit::fault_fired("mutated_frame");
                self.m.uncertain = true;
                for i in 0..self.m.ports.len() {
                    self.taint(i);
                }
                self.raw(v).await;
            }
            2 => {
                // Exact replay (duplication / reordering).
                if self.m.sent_log.is_empty() {
                    return;
                }
                let v = kit::pick(&self.m.sent_log);
                self.hostile(format!("replayed frame {v:02x?}"));
                kit::fault_fired("replayed_frame");
                self.m.uncertain = true;
                for i in 0..self.m.ports.len() {
                    self.taint(i);
                }
                self.raw(v).await;
            }
            3 => {
                // Data header whose payload frame is missing: the next control frame is eaten as payload.
                let (port, idx, what) = self.some_a_port();
                if let Some(i) = idx {
                    self.taint(i);
                }
                self.hostile(format!("Data header without payload for {what} port {port}"));
                kit::fault_fired("data_without_payload");
                self.frame(&Frame::Data { port, first: kit::coin(1, 2), last: kit::coin(1, 2) }).await;
                let f = kit::pick(&[Frame::Ping, Frame::PortCredits { port, credits: 1 }, Frame::SendFinish { port }]);
                // The swallowed frame counts as payload of its own length.
                if let Some(i) = idx {
                    let len = proto::encode(&f).len() as i64;
                    let p = &mut self.m.ports[i];
                    if what == "live" && !p.sent_finish {
                        p.credit_left -= len;
                        self.marks.push((self.ctl.sent(1) + 1, i, len as u64));
                    }
                }
                self.frame(&f).await;
            }
            4 => {
                // Data for a port that is not connected (unknown, freed, connecting) or finished.
                let (port, idx, what) = self.some_a_port();
                if let Some(i) = idx {
                    self.taint(i);
                }
                // Only numbers A cannot allocate are certainly unknown to it (an answer opening a port
                // with this number may be in flight); a freed number may be in use again.
                let sure = match what {
                    "unknown" => self.m.a_port_space != 0 && port >= self.m.a_port_space && self.number_unused(port),
                    "connecting" => !self.m.ports.iter().any(|p| p.a_port == port),
                    _ => false,
                };
                if sure {
                    self.claim(format!("Data for {what} port {port}"));
                }
                self.hostile(format!("Data for {what} port {port}"));
                kit::fault_fired("data_for_bad_port");
                if self.frame(&Frame::Data { port, first: true, last: true }).await {
                    self.raw(vec![1, 2, 3]).await;
                }
                if let Some(i) = idx
                    && what == "live"
                {
                    let p = &mut self.m.ports[i];
                    if p.sent_finish {
                        // Certain only while the peer's receive direction is open: once the peer has
                        // sent both finishes the endpoint may free the port and use its number again.
                        if !p.sent_recv_finish {
                            self.claim(format!("Data after SendFinish for port {port}"));
                        }
                    } else {
                        p.credit_left -= 3;
                        self.marks.push((self.ctl.sent(1), i, (3) as u64));
                    }
                }
            }
            5 => {
                // Chunk larger than A's advertised chunk size.
                let live: Vec<usize> = self.m.live().into_iter().filter(|&i| !self.m.ports[i].sent_finish).collect();
                if live.is_empty() || self.m.a.chunk_size > 4096 {
                    return;
                }
                let i = kit::pick(&live);
                self.taint(i);
                let port = self.m.ports[i].a_port;
                let len = self.m.a.chunk_size as usize + kit::pick(&[1usize, 7, 200]);
                self.hostile(format!("chunk of {len} bytes > chunk size {} on port {port}", self.m.a.chunk_size));
                kit::fault_fired("chunk_overrun");
                if self.frame(&Frame::Data { port, first: true, last: true }).await && self.raw(vec![0xAB; len]).await {
                    self.m.ports[i].overrun = Some(format!("a chunk of {len} bytes (advertised chunk size {})", self.m.a.chunk_size));
                    self.claim(format!("chunk of {len} bytes on port {port}"));
                }
            }
            6 => {
                // Credit overrun: legal chunk sizes, far beyond the receive buffer.
                let live: Vec<usize> = self.m.live().into_iter().filter(|&i| !self.m.ports[i].sent_finish).collect();
                if live.is_empty() || self.m.a.recv_buf > 4096 {
                    return;
                }
                let i = kit::pick(&live);
                self.taint(i);
                let port = self.m.ports[i].a_port;
                let chunk = self.m.a.chunk_size.min(256) as usize;
                let total = self.m.a.recv_buf as usize * kit::pick(&[2usize, 3]) + 2 * chunk + 64;
                self.hostile(format!("{total} bytes without waiting for credit on port {port} (receive buffer {})", self.m.a.recv_buf));
                kit::fault_fired("credit_overrun");
                let mut sent = 0usize;
                let mut first = true;
                while sent < total {
                    if !self.frame(&Frame::Data { port, first, last: false }).await || !self.raw(vec![0xCD; chunk]).await {
                        break;
                    }
                    first = false;
                    sent += chunk;
                    let p = &mut self.m.ports[i];
                    p.credit_left -= chunk as i64;
                    self.marks.push((self.ctl.sent(1), i, (chunk as u64) as u64));
                }
            }
            7 => {
                // Credits: huge, overflowing, for bad ports, after ReceiveFinish.
                let (port, idx, what) = self.some_a_port();
                let credits = kit::pick(&[0u32, 1, 2, 5, 17, 60, u32::MAX, u32::MAX - 3, 1 << 31]);
                self.hostile(format!("PortCredits {credits} for {what} port {port}"));
                kit::fault_fired("weird_credits");
                self.frame(&Frame::PortCredits { port, credits }).await;
                if kit::coin(1, 2) {
                    self.frame(&Frame::PortCredits { port, credits }).await;
                }
                let _ = idx;
            }
            8 => {
                // Unsolicited / duplicate answers.
                let cp = if !self.m.ports.is_empty() && kit::coin(1, 2) { kit::pick(&self.m.ports).a_port } else { kit::pick(&[0u32, 3, u32::MAX]) };
                let f = if kit::coin(1, 2) { Frame::PortOpened { client_port: cp, server_port: kit::pick(&[1u32, 1001, u32::MAX]) } } else { Frame::Rejected { client_port: cp, no_ports: kit::coin(1, 2) } };
                self.m.hostile_numbers.push(cp);
                self.hostile(format!("unsolicited answer {f:?}"));
                kit::fault_fired("unsolicited_answer");
                self.m.uncertain = true;
                if let Some(i) = self.m.ports.iter().rposition(|p| p.a_port == cp) {
                    self.taint(i);
                }
                self.frame(&f).await;
            }
            9 => {
                // Duplicate request numbers and request floods.
                if kit::coin(1, 2) {
                    let p = if let Some((p, _)) = self.m.my_reqs.iter().next() { *p } else if let Some(pp) = self.m.ports.last() { pp.p_port } else { 5 };
                    self.hostile(format!("OpenPort reusing client port {p}"));
                    kit::fault_fired("duplicate_open_port");
                    self.frame(&Frame::OpenPort { client_port: p, wait: kit::coin(1, 2), id: None }).await;
                    // (No claim: A's answer to the first request may already be on its way.)
                } else {
                    let n = self.m.a.connect_queue as usize + kit::pick(&[2usize, 3, 10]);
                    if n > 300 {
                        return;
                    }
                    let wait = kit::coin(1, 2);
                    self.hostile(format!("{n} OpenPort requests (wait={wait}) against connect queue {}", self.m.a.connect_queue));
                    kit::fault_fired("request_flood");
                    for _ in 0..n {
                        self.m.next_pport += 1;
                        let p = self.m.next_pport;
                        self.m.my_reqs.insert(p, wait);
                        self.m.my_reqs_total_unanswered_open += 1;
                        if !self.frame(&Frame::OpenPort { client_port: p, wait, id: Some(p) }).await {
                            break;
                        }
                    }
                }
            }
            10 => {
                // Port batches: too many entries for a chunk, beyond credit, duplicate numbers.
                let live: Vec<usize> = self.m.live().into_iter().filter(|&i| !self.m.ports[i].sent_finish).collect();
                if live.is_empty() {
                    return;
                }
                let i = kit::pick(&live);
                self.taint(i);
                let port = self.m.ports[i].a_port;
                let n = match kit::draw(3) {
                    0 => (self.m.a.chunk_size / 4 + 1).min(400) as usize,
                    1 => (self.m.a.recv_buf / 4 + 1).min(400) as usize,
                    _ => 2,
                };
                let dup = kit::coin(1, 3);
                let mut ports = Vec::new();
                for k in 0..n {
                    self.m.next_pport += 1;
                    ports.push(if dup && k > 0 { ports[0] } else { self.m.next_pport });
                }
                let with_ids = kit::coin(1, 2);
                let ids = with_ids.then(|| ports.clone());
                self.hostile(format!("PortData with {n} ports (dup={dup}) on port {port}"));
                kit::fault_fired("port_batch_bomb");
                for p in &ports {
                    self.m.my_reqs.insert(*p, true);
                }
                let cost = (n * 4) as i64;
                if self.frame(&Frame::PortData { port, first: true, last: true, wait: kit::coin(1, 2), ports, ids }).await {
                    let p = &mut self.m.ports[i];
                    if n as u32 * 4 > self.m.a.chunk_size {
                        p.overrun = Some(format!("a port batch of {n} entries (advertised chunk size {})", self.m.a.chunk_size));
                    }
                    p.credit_left -= cost;
                    self.marks.push((self.ctl.sent(1), i, (cost as u64) as u64));
                }
            }
            11 => {
                // Duplicate finishes and frames after finish.
                let (port, idx, what) = self.some_a_port();
                let f = kit::pick(&[Frame::SendFinish { port }, Frame::ReceiveClose { port }, Frame::ReceiveFinish { port }]);
                self.hostile(format!("{f:?} (again) for {what} port"));
                kit::fault_fired("duplicate_finish");
                if let Some(i) = idx {
                    self.taint(i);
                    let p = &mut self.m.ports[i];
                    match f {
                        Frame::SendFinish { .. } => p.sent_finish = true,
                        Frame::ReceiveClose { .. } => p.sent_recv_close = true,
                        _ => p.sent_recv_finish = true,
                    }
                }
                self.frame(&f).await;
                if kit::coin(1, 2) {
                    self.frame(&f).await;
                }
            }
            12 => {
                let f = kit::pick(&[
                    Frame::Hello { version: 3, timeout_ms: 0, chunk_size: 16, recv_buf: 16, connect_queue: 1 },
                    Frame::Reset,
                    Frame::ClientFinish,
                    Frame::ListenerFinish,
                ]);
                self.hostile(format!("{f:?} on an established connection"));
                kit::fault_fired("connection_level_frame");
                match f {
                    Frame::ClientFinish => self.m.sent_client_finish = true,
                    Frame::ListenerFinish => self.m.sent_listener_finish = true,
                    Frame::Hello { .. } => {
                        self.claim("second Hello".into());
                    }
                    Frame::Reset => {
                        self.claim("Reset".into());
                    }
                    _ => {}
                }
                self.frame(&f).await;
                if kit::coin(1, 3) {
                    self.frame(&f).await;
                }
            }
            13 => {
                self.hostile("Goodbye, then more traffic".into());
                kit::fault_fired("goodbye");
                self.m.sent_goodbye = true;
                self.frame(&Frame::Goodbye).await;
            }
            14 => {
                // Credits that overflow the sender's pool while a local send holds some.
                let live = self.m.live();
                if live.is_empty() {
                    return;
                }
                let i = kit::pick(&live);
                let port = self.m.ports[i].a_port;
                self.hostile(format!("PortCredits up to u32::MAX for port {port} in steps"));
                kit::fault_fired("credit_overflow_steps");
                for c in [u32::MAX / 2, u32::MAX / 2, 1, 1, 64] {
                    if !self.frame(&Frame::PortCredits { port, credits: c }).await {
                        break;
                    }
                    self.pump(Duration::from_micros(200)).await;
                }
            }
            15 => {
                // A port batch that is never finished: many PortData frames without the last flag,
                // each within credit (credits come back as the local receiver collects the requests).
                let live: Vec<usize> = self.m.live().into_iter().filter(|&i| !self.m.ports[i].sent_finish && self.m.ports[i].credit_left >= 4).collect();
                if live.is_empty() {
                    return;
                }
                let i = kit::pick(&live);
                self.taint(i);
                let port = self.m.ports[i].a_port;
                let n = kit::pick(&[6u32, 12, 40]);
                self.hostile(format!("unfinished port batch: {n} PortData frames without the last flag on port {port}"));
                kit::fault_fired("endless_port_batch");
                for k in 0..n {
                    // Wait for credit like an honest sender would.
                    for _ in 0..20 {
                        if self.m.ports[i].credit_left >= 4 {
                            break;
                        }
                        self.pump(Duration::from_millis(5)).await;
                    }
                    if self.m.ports[i].credit_left < 4 || self.peer.closed || self.send_dead {
                        break;
                    }
                    self.m.next_pport += 1;
                    let p = self.m.next_pport;
                    self.m.my_reqs.insert(p, true);
                    if !self.frame(&Frame::PortData { port, first: k == 0, last: false, wait: true, ports: vec![p], ids: None }).await {
                        break;
                    }
                    self.m.ports[i].credit_left -= 4;
                    self.marks.push((self.ctl.sent(1), i, 4));
                }
            }
            _ => {
                // Empty batch / zero-length chunks within credit: legal but unusual.
                let live: Vec<usize> = self.m.live().into_iter().filter(|&i| !self.m.ports[i].sent_finish && self.m.ports[i].credit_left > 4).collect();
                if live.is_empty() {
                    return;
                }
                let i = kit::pick(&live);
                self.taint(i);
                let port = self.m.ports[i].a_port;
                kit::fault_fired("odd_but_legal");
                if kit::coin(1, 2) {
                    self.hostile(format!("empty PortData on port {port}"));
                    self.frame(&Frame::PortData { port, first: true, last: true, wait: false, ports: vec![], ids: None }).await;
                } else {
                    self.hostile(format!("zero-length chunks on port {port}"));
                    for k in 0..3 {
                        if !self.frame(&Frame::Data { port, first: k == 0, last: k == 2 }).await || !self.raw(vec![]).await {
                            break;
                        }
                        let p = &mut self.m.ports[i];
                        p.credit_left -= 1;
                        self.marks.push((self.ctl.sent(1), i, (1) as u64));
                    }
                }
            }
        }
    }
}

// ---------------------------------------------------------------------------------------------
// Scenario
// ---------------------------------------------------------------------------------------------

async fn run(hostile_permille: u32) {
    kit::draw_sched_policy();
    let port_space = kit::pick(&[0u32, 64, 16]);
    kit::set_port_space(port_space);
    let mut cfg_a = mux::draw_cfg(CfgProfile::Tiny);
    cfg_a.max_ports = kit::pick(&[4u32, 8, 16]);
    cfg_a.connection_timeout = None;
    let link_cfg = LinkCfg::draw();
    let ((sink_a, stream_a), (sink_p, stream_p), ctl) = net::link("AP", link_cfg, MonitorMode::CodecOnly);
    ctl.monitor(|m| m.real = [true, false]);
    let peer_hello = Frame::Hello {
        version: kit::pick(&[3u8, 3, 2, 4, 255]),
        timeout_ms: 0,
        chunk_size: kit::pick(&[4u32, 16, 64, u32::MAX]),
        recv_buf: kit::pick(&[4u32, 16, 64, 1024, u32::MAX]),
        connect_queue: kit::pick(&[1u16, 2, 8, u16::MAX]),
    };
    let nsteps = kit::draw_range(4, 40);
    kit::mix_plan(kit::hash_str(&format!("{peer_hello:?}{nsteps}{hostile_permille}")));

    let book: BookRef = Arc::new(Mutex::new(Book::default()));
    let release = Arc::new(Notify::new());

    // ---- A: connect and spawn local users ----
    let mut peer = Peer::new(sink_p, stream_p);
    let cfg_a2 = cfg_a.clone();
    let (hs_a, hs_p) = tokio::join!(ChMux::new(cfg_a2, sink_a, stream_a), peer.handshake(peer_hello.clone(), vec![]));
    let (mux_a, client, mut listener) = match hs_a {
        Ok(v) => v,
        Err(e) => return kit::abort_run(format!("handshake with a well-formed peer failed: {e}")),
    };
    let Some(a_hello) = hs_p else { return kit::abort_run("peer saw no Hello") };
    let mut run_a = kit::spawn(mux_a.run());

    let actors: Arc<Mutex<Vec<(String, tokio::task::JoinHandle<()>)>>> = Arc::new(Mutex::new(Vec::new()));
    // Decisions of A's users are drawn up front (actors run concurrently with the script).
    let modes: Vec<Mode> = (0..64).map(|_| kit::pick(&[Mode::Consume, Mode::Consume, Mode::Consume, Mode::Stall, Mode::DropRx, Mode::DropBoth])).collect();
    let sends: Vec<u32> = (0..64).map(|_| kit::draw(4)).collect();
    let req_decisions: Vec<u32> = (0..256).map(|_| kit::draw(6)).collect();

    let spawn_port = {
        let book = book.clone();
        let release = release.clone();
        let actors = actors.clone();
        let modes = modes.clone();
        let sends = sends.clone();
        move |tx: chmux::Sender, rx: chmux::Receiver| {
            let mut b = book.lock().unwrap();
            let idx = b.ports.len();
            let mode = modes[idx % modes.len()];
            b.ports.push(PortBook { a_port: tx.local_port(), p_port: tx.remote_port(), mode: Some(mode), ..Default::default() });
            drop(b);
            let h = kit::spawn(port_actor(idx, mode, tx, rx, book.clone(), release.clone(), sends[idx % sends.len()]));
            actors.lock().unwrap().push((format!("port actor {idx} ({mode:?})"), h));
        }
    };

    // Listener actor.
    let l_task = {
        let book = book.clone();
        let spawn_port = spawn_port.clone();
        let release = release.clone();
        kit::spawn(async move {
            let mut held = Vec::new();
            let mut n = 0usize;
            let end = loop {
                tokio::select! {
                    biased;
                    () = release.notified() => break "released",
                    r = listener.inspect() => match r {
                        Ok(Some(req)) => {
                            book.lock().unwrap().requests_taken += 1;
                            let d = req_decisions[n % req_decisions.len()];
                            n += 1;
                            match d {
                                0 | 1 | 2 => {
                                    if let Ok((tx, rx)) = req.accept().await {
                                        spawn_port(tx, rx);
                                    }
                                }
                                3 => req.reject(false).await,
                                4 => drop(req),
                                _ => {
                                    book.lock().unwrap().held_requests += 1;
                                    held.push(req);
                                }
                            }
                            kit::activity();
                        }
                        Ok(None) => break "end",
                        Err(_) => break "error",
                    }
                }
            };
            book.lock().unwrap().listener_end = Some(end);
            // Held requests are answered at the end.
            for req in held {
                let _ = req.accept().await;
            }
            if end == "released" {
                // One more look at the listener after the dispatcher's fate is known.
                let end2 = match kit::within(Duration::from_secs(2), listener.inspect()).await {
                    Some(Ok(Some(_))) => "request",
                    Some(Ok(None)) => "end",
                    Some(Err(_)) => "error",
                    None => "pending",
                };
                book.lock().unwrap().listener_end = Some(end2);
            }
        })
    };
    actors.lock().unwrap().push(("listener actor".into(), l_task));

    // Client actor: a few connects towards the peer.
    let nconnects = kit::draw(3);
    let connect_waits: Vec<bool> = (0..nconnects).map(|_| kit::coin(1, 2)).collect();
    {
        let book = book.clone();
        let client = client.clone();
        let spawn_port = spawn_port.clone();
        let h = kit::spawn(async move {
            for (i, wait) in connect_waits.into_iter().enumerate() {
                let name = format!("connect_ext #{i} (wait={wait})");
                book.lock().unwrap().connects.push((name, None));
                let res = match client.connect_ext(None, wait).await {
                    Ok(c) => c.await,
                    Err(e) => Err(e),
                };
                let out = match res {
                    Ok((tx, rx)) => {
                        spawn_port(tx, rx);
                        "ok".to_string()
                    }
                    Err(e) => format!("{e:?}"),
                };
                book.lock().unwrap().connects[i].1 = Some(out);
                kit::activity();
            }
        });
        actors.lock().unwrap().push(("client actor".into(), h));
    }

    // ---- the peer's script ----
    let mut s = Script {
        peer,
        m: Model {
            a: a_hello,
            ports: Vec::new(),
            my_reqs: BTreeMap::new(),
            my_reqs_total_unanswered_open: 0,
            a_reqs: Vec::new(),
            next_pport: 1000,
            sent_client_finish: false,
            sent_listener_finish: false,
            sent_goodbye: false,
            a_goodbye: false,
            sent_log: Vec::new(),
            hostile_log: Vec::new(),
            hostile_count: 0,
            must_terminate: None,
            uncertain: false,
            hostile_numbers: Vec::new(),
            finish_numbers: Vec::new(),
            a_port_space: port_space,
            credits_from_a: 0,
        },
        return_credits: kit::coin(3, 4),
        expect_payload: false,
        ctl: ctl.clone(),
        marks: Vec::new(),
        send_dead: false,
    };
    // Valid prefix.
    let prefix = kit::draw_range(2, 10);
    for step in 0..nsteps {
        if s.peer.closed || s.send_dead || kit::is_aborted() {
            break;
        }
        s.pump(Duration::from_micros(kit::pick(&[50u64, 500, 5000]))).await;
        let hostile = step >= prefix && kit::coin(hostile_permille, 1000);
        if hostile {
            s.hostile_step().await;
        } else {
            match kit::draw(8) {
                0 | 1 => s.open_port().await,
                2 | 3 | 4 => s.valid_message().await,
                5 => s.answer_a_request().await,
                6 => s.valid_finish().await,
                _ => {
                    s.frame(&Frame::Ping).await;
                    tokio::time::sleep(Duration::from_millis(kit::pick(&[1u64, 20]))).await;
                }
            }
        }
    }
    // Let everything the script caused play out; keep answering credits meanwhile.
    for _ in 0..3 {
        s.pump(Duration::from_millis(300)).await;
    }
    kit::settle().await;
    s.pump(Duration::from_millis(10)).await;
    if kit::is_aborted() {
        return;
    }
    kit::set_sample(json!({"cfg_a": format!("{cfg_a:?}"), "peer_hello": format!("{peer_hello:?}"), "steps": nsteps, "hostile_frames": s.m.hostile_log}));
    if s.m.hostile_count > 0 {
        kit::set_nontrivial();
    }

    // ---- oracle 1: no panic ----
    let panics = kit::panics();
    if !panics.is_empty() {
        panic_viol(&panics, format!("panic while handling a hostile peer: {:?}; hostile frames: {:?}", panics, s.m.hostile_log));
        return;
    }

    // A may have started an orderly shutdown itself (everything closed after the peer's ClientFinish /
    // ListenerFinish): it then waits for the peer's Goodbye. Complete that handshake.
    if !run_a.is_finished() && s.m.a_goodbye && !s.m.sent_goodbye {
        kit::probe("a_initiated_shutdown");
        if s.expect_payload {
            s.raw(vec![]).await;
        }
        s.m.sent_goodbye = true;
        s.frame(&Frame::Goodbye).await;
        kit::settle().await;
    }
    let ended = run_a.is_finished();
    if !ended {
        // ---- A claims to be up: bounded memory ----
        kit::probe("a_survived");
        let bk = book.lock().unwrap();
        for (pi, pp) in s.m.ports.iter().enumerate() {
            let delivered_cost = s.delivered_cost(pi);
            if let Some(what) = &pp.overrun {
                let registered = bk.ports.iter().any(|b| b.a_port == pp.a_port && b.p_port == pp.p_port);
                if registered {
                    viol(
                        "oversize-chunk-accepted",
                        format!("the endpoint accepted {what} on port {} and keeps running; hostile frames: {:?}", pp.a_port, s.m.hostile_log),
                    );
                    return;
                }
            }
            let Some(b) = bk.ports.iter().find(|b| b.a_port == pp.a_port && b.p_port == pp.p_port) else { continue };
            let slack = match b.mode {
                Some(Mode::Stall) => 0,
                Some(Mode::Consume) => cfg_a.max_data_size as u64 + cfg_a.chunk_size as u64,
                _ => continue,
            };
            // A partly assembled message that is abandoned (a new `first` chunk) never reaches the actor;
            // credits A returned prove that the data left its receive queue.
            let buffered = delivered_cost.saturating_sub(b.consumed_bytes.max(pp.credits_back));
            if buffered > cfg_a.receive_buffer as u64 + slack {
                viol(
                    "receive-buffer-exceeded",
                    format!(
                        "port {}: the peer delivered {} bytes, the local receiver ({:?}) consumed {} ({} credits returned), i.e. {buffered} bytes are buffered > advertised receive buffer {} + {slack}, and the endpoint keeps running; hostile frames: {:?}",
                        pp.a_port, delivered_cost, b.mode, b.consumed_bytes, pp.credits_back, cfg_a.receive_buffer, s.m.hostile_log
                    ),
                );
                return;
            }
            kit::probe("memory_bound_checked");
        }
        // Unanswered requests of the peer: what the listener actor has not taken must fit the two queues.
        let unanswered = s.m.my_reqs.len();
        // Per port: requests waiting in its receive queue plus one batch being assembled (max_received_ports).
        let bound = 2 * (cfg_a.connect_queue as usize + 1) + bk.held_requests + (cfg_a.receive_buffer as usize / 4 + cfg_a.max_received_ports + 1) * s.m.ports.len();
        if unanswered > bound {
            viol(
                "request-flood-accepted",
                format!("{unanswered} requests of the peer are unanswered > bound {bound} (connect queue {}), and the endpoint keeps running; hostile frames: {:?}", cfg_a.connect_queue, s.m.hostile_log),
            );
            return;
        }
        if let Some(why) = &s.m.must_terminate {
            viol("protocol-violation-tolerated", format!("the endpoint keeps running after {why}; hostile frames: {:?}", s.m.hostile_log));
            return;
        }
        drop(bk);

        // ---- still works: integrity of what was sent validly ----
        {
            let bk = book.lock().unwrap();
            for pp in &s.m.ports {
                let Some(b) = bk.ports.iter().find(|b| b.a_port == pp.a_port && b.p_port == pp.p_port) else { continue };
                if b.mode != Some(Mode::Consume) {
                    continue;
                }
                let n = pp.valid_msgs.len().min(b.received.len());
                if b.received[..n] != pp.valid_msgs[..n] {
                    viol(
                        "valid-message-corrupted",
                        format!("port {}: messages sent validly before any hostile frame touched the port arrived as lengths {:?}, sent lengths {:?}", pp.a_port, b.received.iter().map(|m| m.len()).collect::<Vec<_>>(), pp.valid_msgs.iter().map(|m| m.len()).collect::<Vec<_>>()),
                    );
                    return;
                }
                if b.received.len() < pp.valid_msgs.len() && b.recv_end.is_none() {
                    viol(
                        "valid-message-undelivered",
                        format!("port {}: {} messages were sent validly, the consuming receiver has {} at quiescence and the endpoint keeps running; hostile frames: {:?}", pp.a_port, pp.valid_msgs.len(), b.received.len(), s.m.hostile_log),
                    );
                    return;
                }
                if !pp.tainted {
                    kit::probe("integrity_checked");
                }
            }
        }

        // ---- still works: a fresh connect + echo ----
        if !s.m.sent_goodbye && !s.peer.closed && !s.send_dead {
            // A dangling Data header of the attack would swallow the peer's next frame: complete it.
            if s.expect_payload {
                s.raw(vec![]).await;
                s.pump(Duration::from_millis(50)).await;
            }
            // Answer whatever A still waits for so that its connect credits are free.
            while !s.m.a_reqs.is_empty() {
                let cp = s.m.a_reqs.remove(0);
                s.frame(&Frame::Rejected { client_port: cp, no_ports: false }).await;
            }
            s.pump(Duration::from_millis(50)).await;
            // Four bytes fit the smallest legal chunk size and initial credit in both directions.
            let label = b"eh?!".to_vec();
            let c = client.clone();
            let l2 = label.clone();
            let probe = kit::spawn(async move {
                let (mut tx, mut rx) = match c.connect_ext(None, false).await {
                    Ok(c) => c.await.map_err(|e| format!("{e:?}"))?,
                    Err(e) => return Err(format!("{e:?}")),
                };
                tx.send(Bytes::from(l2)).await.map_err(|e| format!("send: {e}"))?;
                match rx.recv().await {
                    Ok(Some(d)) => Ok(Vec::from(d)),
                    other => Err(format!("recv: {other:?}")),
                }
            });
            // Peer side: for a while the peer is a plain echo server for every port A opens
            // (A's client actor may be connecting at the same time as the probe).
            let t = Duration::from_secs(2);
            let mut served = false;
            let mut echo_ports: BTreeMap<u32, (u32, Vec<u8>)> = BTreeMap::new();
            let mut next_sp = 777_000u32;
            for _ in 0..5000 {
                if probe.is_finished() || s.peer.closed {
                    break;
                }
                let Some(msg) = s.peer.wait_for(t, |_| true).await else { break };
                match &msg {
                    PeerMsg::Frame(Frame::OpenPort { client_port, .. }) => {
                        if s.m.sent_listener_finish {
                            s.frame(&Frame::Rejected { client_port: *client_port, no_ports: false }).await;
                        } else {
                            next_sp += 1;
                            echo_ports.insert(next_sp, (*client_port, Vec::new()));
                            s.frame(&Frame::PortOpened { client_port: *client_port, server_port: next_sp }).await;
                            served = true;
                        }
                    }
                    PeerMsg::Payload { port, data, last, .. } if echo_ports.contains_key(port) => {
                        let (cp, buf) = echo_ports.get_mut(port).unwrap();
                        buf.extend_from_slice(data);
                        let cp = *cp;
                        if *last {
                            let got = std::mem::take(buf);
                            // At most one chunk of at most 4 bytes is echoed (fits any initial credit).
                            if got.len() <= 4 && (!s.frame(&Frame::Data { port: cp, first: true, last: true }).await || !s.raw(got).await) {
                                break;
                            }
                        }
                    }
                    other => {
                        let answers = s.m.absorb(other, s.return_credits);
                        for f in answers {
                            s.frame(&f).await;
                        }
                    }
                }
            }
            if s.m.a_goodbye && !s.m.sent_goodbye {
                // A began its own orderly shutdown meanwhile (its last port went away): complete it.
                kit::probe("a_initiated_shutdown");
                s.m.sent_goodbye = true;
                s.frame(&Frame::Goodbye).await;
            }
            kit::settle().await;
            let res = if probe.is_finished() { probe.await.unwrap_or_else(|e| Err(format!("probe task: {e}"))) } else { Err("pending".into()) };
            let alive = !run_a.is_finished();
            match res {
                Ok(d) if d == label => kit::probe("echo_after_attack_ok"),
                Ok(d) => {
                    viol("echo-corrupt", format!("fresh echo exchange after the attack returned {} bytes instead of the label; hostile frames: {:?}", d.len(), s.m.hostile_log));
                    return;
                }
                Err(e) if !alive => {
                    // It died during the probe (e.g. late effect of the attack): handled below as terminated.
                    kit::probe("died_during_probe");
                    let _ = e;
                }
                Err(e) => {
                    let legit = e.contains("LocalPortsExhausted")
                        || e.contains("TooManyPendingConnectionRequests")
                        || (s.m.sent_listener_finish && e.contains("Rejected"))
                        || (!served && e.contains("Rejected"));
                    if legit {
                        kit::probe("echo_refused_legitimately");
                    } else {
                        viol(
                            "not-working-but-not-terminated",
                            format!("the dispatcher keeps running but a fresh connect + echo exchange failed with `{e}` (peer served it: {served}); hostile frames: {:?}", s.m.hostile_log),
                        );
                        return;
                    }
                }
            }
        }
    }

    // ---- terminated (or about to be, by us): every local user must observe an error ----
    let terminated = run_a.is_finished();
    let mut result = None;
    if terminated {
        kit::probe("a_terminated");
        match (&mut run_a).await {
            Ok(r) => {
                kit::probe(if r.is_ok() { "a_terminated_ok" } else { "a_terminated_err" });
                result = Some(format!("{r:?}"));
            }
            Err(e) => {
                viol("panic", format!("dispatcher task failed: {e}; hostile frames: {:?}", s.m.hostile_log));
                return;
            }
        }
    } else {
        // Cut the link: same obligations as after a protocol error.
        ctl.cut_now();
    }
    release.notify_waiters();
    kit::settle().await;
    release.notify_waiters();
    kit::settle().await;
    let panics = kit::panics();
    if !panics.is_empty() {
        panic_viol(&panics, format!("panic after the connection ended: {:?}; hostile frames: {:?}", panics, s.m.hostile_log));
        return;
    }
    if !run_a.is_finished() && !terminated {
        viol("dispatcher-survives-cut", "the dispatcher did not end after the link was cut".into());
        return;
    }
    let actors = std::mem::take(&mut *actors.lock().unwrap());
    for (name, h) in &actors {
        if !h.is_finished() {
            viol(
                "local-user-hangs-after-termination",
                format!("{name} is still pending at quiescence after the dispatcher ended with {result:?}; hostile frames: {:?}", s.m.hostile_log),
            );
            for (_, h) in &actors {
                h.abort();
            }
            return;
        }
    }
    {
        let bk = book.lock().unwrap();
        for b in &bk.ports {
            let peer_finished = s.m.ports.iter().any(|p| p.a_port == b.a_port && p.p_port == b.p_port && p.sent_finish) || s.m.finish_numbers.contains(&b.a_port);
            let tainted = s.m.ports.iter().any(|p| p.a_port == b.a_port && p.tainted) || s.m.hostile_count > 0 && !s.m.ports.iter().any(|p| p.a_port == b.a_port && p.p_port == b.p_port);
            if b.recv_end == Some("end") && !peer_finished && !tainted {
                viol(
                    "termination-reported-as-orderly-end",
                    format!("port {}: the local receiver saw an orderly end of stream although the peer never finished sending on it (dispatcher result {result:?})", b.a_port),
                );
                return;
            }
            if b.recv_end.is_none() && matches!(b.mode, Some(Mode::Consume) | Some(Mode::Stall)) && b.mode != Some(Mode::Stall) {
                viol("local-user-hangs-after-termination", format!("receive loop of port {} has no terminal observation", b.a_port));
                return;
            }
        }
        for (name, out) in &bk.connects {
            if out.is_none() {
                viol("local-user-hangs-after-termination", format!("{name} never resolved (dispatcher result {result:?})"));
                return;
            }
        }
        if bk.listener_end == Some("pending") {
            viol("local-user-hangs-after-termination", format!("Listener::inspect still pending after the dispatcher ended with {result:?}"));
            return;
        }
    }
    // Fresh calls fail promptly.
    match kit::within(Duration::from_secs(2), client.connect_ext(None, false)).await {
        Some(Ok(c)) => match kit::within(Duration::from_secs(2), c).await {
            Some(Err(ConnectError::ChMux)) | Some(Err(ConnectError::Rejected)) => kit::probe("fresh_connect_fails"),
            Some(other) => {
                viol("fresh-call-after-termination", format!("connect after the dispatcher ended resolved as {:?}", other.map(|_| "ports")));
                return;
            }
            None => {
                viol("local-user-hangs-after-termination", "connect issued after the dispatcher ended never resolves".into());
                return;
            }
        },
        Some(Err(_)) => kit::probe("fresh_connect_fails"),
        None => {
            viol("local-user-hangs-after-termination", "connect_ext issued after the dispatcher ended never resolves".into());
            return;
        }
    }
}


// ---------------------------------------------------------------------------------------------
// Hostile byte stream against Connect::io (length-prefixed framing, frame length cap)
// ---------------------------------------------------------------------------------------------

use tokio::io::{AsyncReadExt, AsyncWriteExt};

/// Peer on a raw byte stream: writes length-prefixed frames in drawn pieces, parses what A sends.
struct IoPeer<R, W> {
    rd: R,
    wr: W,
    acc: Vec<u8>,
    expect_payload: bool,
}

impl<R: tokio::io::AsyncRead + Unpin, W: tokio::io::AsyncWrite + Unpin> IoPeer<R, W> {
    async fn write_bytes(&mut self, mut data: &[u8]) -> bool {
        while !data.is_empty() {
            let k = (kit::draw_range(1, 24) as usize).min(data.len());
            match kit::within(Duration::from_secs(5), self.wr.write_all(&data[..k])).await {
                Some(Ok(())) => {}
                _ => return false,
            }
            data = &data[k..];
        }
        kit::within(Duration::from_secs(5), self.wr.flush()).await.is_some()
    }

    async fn write_frame(&mut self, frame: &[u8]) -> bool {
        let mut v = (frame.len() as u32).to_le_bytes().to_vec();
        v.extend_from_slice(frame);
        self.write_bytes(&v).await
    }

    async fn send(&mut self, f: &Frame) -> bool {
        self.write_frame(&proto::encode(f)).await
    }

    /// Next control frame from A (payload frames are skipped), within `t` of virtual time.
    async fn next_frame(&mut self, t: Duration) -> Option<Frame> {
        loop {
            if self.acc.len() >= 4 {
                let len = u32::from_le_bytes(self.acc[..4].try_into().unwrap()) as usize;
                if self.acc.len() >= 4 + len {
                    let frame: Vec<u8> = self.acc[4..4 + len].to_vec();
                    self.acc.drain(..4 + len);
                    if self.expect_payload {
                        self.expect_payload = false;
                        continue;
                    }
                    match proto::decode(&frame) {
                        Ok(f) => {
                            kit::note(format!("io peer got {f:?}"));
                            self.expect_payload = matches!(f, Frame::Data { .. });
                            return Some(f);
                        }
                        Err(_) => continue,
                    }
                }
            }
            let mut buf = [0u8; 256];
            match kit::within(t, self.rd.read(&mut buf)).await {
                Some(Ok(n)) if n > 0 => self.acc.extend_from_slice(&buf[..n]),
                _ => return None,
            }
        }
    }

    async fn wait_for(&mut self, t: Duration, mut pred: impl FnMut(&Frame) -> bool) -> Option<Frame> {
        for _ in 0..200 {
            let f = self.next_frame(t).await?;
            if pred(&f) {
                return Some(f);
            }
        }
        None
    }
}

async fn run_io() {
    kit::draw_sched_policy();
    let mut cfg_a = mux::draw_cfg(CfgProfile::Tiny);
    cfg_a.connection_timeout = kit::pick(&[None, Some(Duration::from_secs(7))]);
    cfg_a.receive_buffer = cfg_a.receive_buffer.max(16);
    let max_frame = cfg_a.max_frame_length();
    let (a_side, p_side) = tokio::io::duplex(kit::pick(&[1usize, 7, 64, 4096]));
    let (ar, aw) = tokio::io::split(a_side);
    let (pr, pw) = tokio::io::split(p_side);
    let mut peer = IoPeer { rd: pr, wr: pw, acc: Vec::new(), expect_payload: false };

    // 0 = before Hello, 1 = after Hello while the initial channel is being opened, 2 = established.
    let stage = kit::draw(3);
    let attack = kit::draw(6);
    let attack_name = ["oversize length prefix", "frame cut short by EOF", "length prefix cut short by EOF", "zero-length frame", "garbage frame", "clean EOF between frames"][attack as usize];
    kit::mix_plan(kit::hash_str(&format!("io{stage}{attack}")));
    kit::set_sample(json!({"scenario": "hostile byte stream against Connect::io", "cfg_a": format!("{cfg_a:?}"), "stage": stage, "attack": attack_name, "max_frame_length": max_frame}));

    let cfg2 = cfg_a.clone();
    let mut a_task = kit::spawn(async move { remoc::Connect::io::<_, _, Vec<u8>, Vec<u8>, remoc::codec::Default>(cfg2, ar, aw).await });

    let t = Duration::from_secs(3);
    let mut ok = true;
    if stage >= 1 {
        ok = peer.send(&Frame::Reset).await
            && peer.send(&Frame::Hello { version: 3, timeout_ms: 0, chunk_size: 64, recv_buf: 4096, connect_queue: 4 }).await
            && peer.wait_for(t, |f| matches!(f, Frame::Hello { .. })).await.is_some();
    }
    if ok && stage >= 2 {
        // Serve A's request for the initial channel and make our own.
        ok = match peer.wait_for(t, |f| matches!(f, Frame::OpenPort { .. })).await {
            Some(Frame::OpenPort { client_port, .. }) => {
                // (Connect::io returns as soon as both ports exist; the connection future it hands out
                // is polled again only once the harness has spawned it, so A's answer is not awaited here.)
                peer.send(&Frame::PortOpened { client_port, server_port: 500 }).await
                    && peer.send(&Frame::OpenPort { client_port: 600, wait: true, id: None }).await
            }
            _ => false,
        };
    }
    if !ok {
        return kit::abort_run("io peer could not bring the endpoint to the chosen stage");
    }
    let established = if stage >= 2 {
        kit::settle().await;
        a_task.is_finished()
    } else {
        false
    };
    if stage >= 2 && !established {
        return kit::abort_run("Connect::io did not return although the initial channel was opened");
    }
    let mut conn_tx_rx = None;
    if established {
        match (&mut a_task).await {
            Ok(Ok((conn, tx, rx))) => {
                let conn = kit::spawn(conn);
                conn_tx_rx = Some((conn, tx, rx));
            }
            Ok(Err(e)) => return kit::abort_run(format!("Connect::io failed with an honest peer: {e}")),
            Err(e) => return viol("panic", format!("Connect::io task failed: {e}")),
        }
    }

    // ---- the attack ----
    kit::fault_fired(match attack {
        0 => "io_oversize_length_prefix",
        1 => "io_frame_cut_short",
        2 => "io_length_prefix_cut_short",
        3 => "io_zero_length_frame",
        4 => "io_garbage_frame",
        _ => "io_clean_eof",
    });
    let must_end = match attack {
        0 => {
            let len = kit::pick(&[max_frame + 1, max_frame.saturating_mul(2), 1 << 20, u32::MAX]);
            let mut v = len.to_le_bytes().to_vec();
            v.extend_from_slice(&vec![0x55; kit::pick(&[0usize, 3, 40])]);
            peer.write_bytes(&v).await;
            true
        }
        1 => {
            let mut v = 9u32.to_le_bytes().to_vec();
            v.extend_from_slice(&[9, 1, 0, 0]);
            peer.write_bytes(&v).await;
            let _ = peer.wr.shutdown().await;
            true
        }
        2 => {
            peer.write_bytes(&[5, 0]).await;
            let _ = peer.wr.shutdown().await;
            true
        }
        3 => {
            peer.write_frame(&[]).await;
            // Before Hello undecodable frames are skipped; afterwards an empty frame is a protocol error.
            stage >= 1
        }
        4 => {
            let n = kit::pick(&[1usize, 2, 9, 17]);
            let v: Vec<u8> = (0..n).map(|_| kit::draw(256) as u8).collect();
            peer.write_frame(&v).await;
            false
        }
        _ => {
            let _ = peer.wr.shutdown().await;
            true
        }
    };
    // Keep reading what A writes so that it never blocks on a full pipe.
    let drain = kit::spawn(async move {
        let mut peer = peer;
        while peer.next_frame(Duration::from_secs(3600)).await.is_some() {}
    });
    kit::settle().await;
    let panics = kit::panics();
    if !panics.is_empty() {
        panic_viol(&panics, format!("panic on a hostile byte stream ({attack_name} at stage {stage}): {panics:?}"));
        return;
    }
    kit::set_nontrivial();
    match conn_tx_rx {
        None => {
            // Connect::io itself must fail (with a timeout configured: at the latest then).
            if must_end || cfg_a.connection_timeout.is_some() {
                if !a_task.is_finished() {
                    tokio::time::sleep(Duration::from_secs(10)).await;
                }
                if must_end && !a_task.is_finished() {
                    viol("bad-stream-not-refused", format!("{attack_name} during connection set-up (stage {stage}): Connect::io is still pending (connection_timeout {:?}, max frame length {max_frame})", cfg_a.connection_timeout));
                    a_task.abort();
                    drain.abort();
                    return;
                }
                if a_task.is_finished() {
                    match (&mut a_task).await {
                        Ok(Err(_)) => kit::probe("io_setup_refused"),
                        Ok(Ok(_)) => {
                            viol("bad-stream-accepted", format!("{attack_name} during connection set-up (stage {stage}): Connect::io succeeded"));
                            drain.abort();
                            return;
                        }
                        Err(e) => return viol("panic", format!("Connect::io task failed: {e}")),
                    }
                }
            }
            a_task.abort();
        }
        Some((mut conn, mut tx, mut rx)) => {
            if must_end {
                if !conn.is_finished() {
                    viol("bad-stream-not-refused", format!("{attack_name} on an established connection: the connection task keeps running (max frame length {max_frame})"));
                    conn.abort();
                    drain.abort();
                    return;
                }
                match (&mut conn).await {
                    Ok(Err(_)) => kit::probe("io_connection_failed_as_required"),
                    Ok(Ok(())) => {
                        viol("bad-stream-reported-as-orderly-end", format!("{attack_name}: the connection ended with Ok"));
                        drain.abort();
                        return;
                    }
                    Err(e) => return viol("panic", format!("connection task failed: {e}")),
                }
            }
            if conn.is_finished() {
                // Local users observe errors, nobody hangs.
                let s = kit::within(Duration::from_secs(5), tx.send(vec![1, 2, 3])).await;
                let r = kit::within(Duration::from_secs(5), rx.recv()).await;
                match (s, r) {
                    (Some(Err(_)), Some(Err(_))) => kit::probe("io_users_see_errors"),
                    (s, r) => {
                        viol(
                            "local-user-hangs-after-termination",
                            format!("after {attack_name} ended the connection: send -> {:?}, recv -> {:?}", s.map(|r| r.is_ok()), r.map(|r| r.map(|o| o.is_some()).map_err(|e| e.to_string()))),
                        );
                        drain.abort();
                        return;
                    }
                }
            } else {
                kit::probe("io_survived");
                conn.abort();
            }
        }
    }
    drain.abort();
}

fn sc_io() -> ScenarioFuture {
    Box::pin(run_io())
}

fn sc_hostile() -> ScenarioFuture {
    Box::pin(run(500))
}

fn sc_mostly_valid() -> ScenarioFuture {
    Box::pin(run(120))
}

fn sc_valid_only() -> ScenarioFuture {
    Box::pin(run(0))
}

pub fn checks() -> Vec<Check> {
    vec![Check {
        id: "C08",
        level: "exploration",
        classes: vec!["c08", "codec"],
        scenarios: vec![
            Scenario { name: "hostile", weight: 5, max_polls: 600_000, max_virtual_secs: 48 * 3600, run: sc_hostile },
            Scenario { name: "mostly-valid", weight: 3, max_polls: 600_000, max_virtual_secs: 48 * 3600, run: sc_mostly_valid },
            Scenario { name: "well-behaved-peer", weight: 1, max_polls: 600_000, max_virtual_secs: 48 * 3600, run: sc_valid_only },
            Scenario { name: "hostile-byte-stream-io", weight: 1, max_polls: 600_000, max_virtual_secs: 48 * 3600, run: sc_io },
        ],
        quick: (600_000, 50),
        thorough: (25_000_000, 600),
        rule: "each evaluation is one seeded run: a real endpoint (tiny drawn configuration, listener actor drawing accept/reject/drop/hold, client actor with 0-2 connects, one actor per port: consuming, stalled, receiver dropped, both halves dropped, plus 0-2 sends) against a scripted peer with drawn Hello \
(version 2/3/4/255, chunk size and receive buffer 4..u32::MAX, connect queue 1..65535) playing 4-40 steps: valid ones (open, complete messages within credit and chunk size, answers, credit returns, finish/close, ping) and - after a valid prefix - hostile ones from 17 kinds \
(garbage, mutated or replayed frames, Data without payload, Data for unknown/freed/connecting/finished ports, chunk overrun, credit overrun, huge and overflowing credits, unsolicited or duplicate answers, duplicate requests, request floods, port-batch bombs, duplicate finishes, second Hello/Reset/ClientFinish/ListenerFinish, Goodbye followed by traffic, odd-but-legal frames); \
non-trivial = at least one hostile frame was sent; distinct = distinct (plan hash, poll-order hash)",
        assumptions: vec![
            "the scripted peer's own model (ports, credits, what it sent validly) is the reference for what a correct endpoint may do; a port touched by a hostile or non-standard frame is excluded from the message-integrity clause from then on, never from the panic, memory and termination clauses",
            "bounded overhead = one partly assembled message (max_data_size) plus one chunk for a consuming receiver, nothing for a receiver that never reads",
            "the harness build has overflow checks and debug assertions on: arithmetic overflow in remoc counts as a panic",
        ],
        required_probes: vec![
            "a_survived",
            "a_terminated_err",
            "echo_after_attack_ok",
            "memory_bound_checked",
            "integrity_checked",
            "fresh_connect_fails",
            "garbage_frame",
            "mutated_frame",
            "replayed_frame",
            "data_without_payload",
            "data_for_bad_port",
            "chunk_overrun",
            "credit_overrun",
            "weird_credits",
            "unsolicited_answer",
            "duplicate_open_port",
            "request_flood",
            "port_batch_bomb",
            "duplicate_finish",
            "connection_level_frame",
            "goodbye",
            "credit_overflow_steps",
            "endless_port_batch",
            "peer_valid_message",
            "io_oversize_length_prefix",
            "io_frame_cut_short",
            "io_length_prefix_cut_short",
            "io_zero_length_frame",
            "io_setup_refused",
            "io_connection_failed_as_required",
            "io_users_see_errors",
        ],
        real_components: "remoc::chmux of ONE endpoint (ChMux::new handshake, run dispatcher, decoder, ports, credits, client, listener), tokio::sync, tokio current-thread scheduler (paused clock)",
        stub_components: STUB_NET,
    }]
}
