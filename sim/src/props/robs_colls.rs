//! `Coll` implementations for the five observable collections: operation generators over the
//! full mutating API, reference semantics on std collections, and hand-written event replay.
//!
//! Determinism: all element values have a constant encoded size (10..=99), hash containers are
//! compared sorted, and where the *order* of events of one call depends on std's hash seed
//! (retain / iter_mut / extend on hash containers) the order is read off the observable itself and
//! only influences intermediate reference states, never which operations are issued.

use std::collections::{BTreeMap, BTreeSet, HashMap, HashSet, VecDeque};
use std::hash::{Hash, Hasher};

use remoc::robs::{
    RecvError,
    hash_map::{self as hm, HashMapEvent, HashMapSubscription, MirroredHashMap, ObservableHashMap},
    hash_set::{HashSetEvent, HashSetSubscription, MirroredHashSet, ObservableHashSet},
    list::{ListEvent, ListSubscription, MirroredList, ObservableList},
    vec::{MirroredVec, ObservableVec, VecEvent, VecSubscription},
    vec_deque::{MirroredVecDeque, ObservableVecDeque, VecDequeEvent, VecDequeSubscription},
};
use serde::{Deserialize, Serialize};

use super::robs_common::{Coll, EvClass, GenOpts, Held, State, View};
use crate::kit;

pub fn draw_val() -> u16 {
    10 + kit::draw(90) as u16
}

/// Derived value in 10..=99 (constant encoded size).
pub fn bump(v: u16, d: u16) -> u16 {
    10 + (v + d) % 90
}

fn seq_state<'a>(it: impl Iterator<Item = &'a u16>) -> State {
    it.map(|v| *v as u32).collect()
}

fn fmt_seq(s: &State) -> String {
    format!("{s:?}")
}

fn is_prefix(part: &State, snap: &State) -> bool {
    part.len() <= snap.len() && snap[..part.len()] == part[..]
}

fn is_subset(part: &State, snap: &State) -> bool {
    part.iter().all(|e| snap.contains(e))
}

// ------------------------------------------------------------------------------------------
// Sequence operations (Vec and VecDeque)
// ------------------------------------------------------------------------------------------

#[derive(Clone, Debug)]
pub enum SeqOp {
    PushBack(u16),
    PushFront(u16),
    PopBack,
    PopFront,
    GetMut { idx: usize, write: Option<u16> },
    IterMut { rev: bool, stride: usize, offset: usize, val: u16 },
    Insert(usize, u16),
    Remove(usize),
    SwapRemoveBack(usize),
    SwapRemoveFront(usize),
    Fill(u16),
    Resize(usize, u16),
    Truncate(usize),
    Clear,
    /// keep = ((value % m) == r) != inv
    Retain { m: u16, r: u16, inv: bool },
    ShrinkToFit,
    Extend(Vec<u16>),
}

fn seq_keep(v: u16, m: u16, r: u16, inv: bool) -> bool {
    ((v % m) == r) != inv
}

fn draw_retain() -> SeqOp {
    match kit::draw(5) {
        0 => SeqOp::Retain { m: 2, r: 0, inv: false },
        1 => SeqOp::Retain { m: 1, r: 0, inv: false }, // keeps everything: no event
        2 => SeqOp::Retain { m: 1, r: 0, inv: true },  // removes everything
        3 => SeqOp::Retain { m: 7, r: kit::draw(7) as u16, inv: true }, // removes few: RetainNot
        _ => SeqOp::Retain { m: kit::pick(&[3u16, 5]), r: kit::draw(3) as u16, inv: false }, // keeps few: Retain
    }
}

fn draw_seq_op(n: usize, deque: bool, o: &GenOpts) -> SeqOp {
    for _ in 0..64 {
        let op = match kit::draw(22) {
            0..=2 => SeqOp::PushBack(draw_val()),
            3 => SeqOp::PopBack,
            4 => SeqOp::GetMut { idx: kit::draw(n as u32 + 2) as usize, write: if kit::coin(2, 3) { Some(draw_val()) } else { None } },
            5 => {
                let stride = kit::draw_range(1, 3) as usize;
                SeqOp::IterMut { rev: kit::coin(1, 2), stride, offset: kit::draw(stride as u32 + 1) as usize, val: draw_val() }
            }
            6 => SeqOp::Insert(kit::draw(n as u32 + 1) as usize, draw_val()),
            7 => SeqOp::Remove(kit::draw(n as u32 + if deque { 2 } else { 0 }) as usize),
            8 => SeqOp::SwapRemoveBack(kit::draw(n as u32 + if deque { 2 } else { 0 }) as usize),
            9 => SeqOp::Fill(draw_val()),
            10 => SeqOp::Resize(kit::draw(n as u32 + 4) as usize, draw_val()),
            11 => SeqOp::Truncate(kit::draw(n as u32 + 2) as usize),
            12 => SeqOp::Clear,
            13 | 14 => draw_retain(),
            15 => SeqOp::ShrinkToFit,
            16 => SeqOp::Extend((0..kit::draw(4)).map(|_| draw_val()).collect()),
            17 | 18 => SeqOp::PushFront(draw_val()),
            19 => SeqOp::PopFront,
            20 => SeqOp::SwapRemoveFront(kit::draw(n as u32 + 2) as usize),
            _ => SeqOp::Resize(n, draw_val()), // same length: no event
        };
        let ok = match &op {
            SeqOp::PushFront(_) | SeqOp::PopFront | SeqOp::SwapRemoveFront(_) => deque,
            SeqOp::Fill(_) => !deque,
            SeqOp::Remove(i) | SeqOp::SwapRemoveBack(i) => deque || *i < n,
            SeqOp::Insert(..) => !o.grow_only_push && n < o.max_len,
            SeqOp::Resize(l, _) => *l <= n || (!o.grow_only_push && *l <= o.max_len),
            SeqOp::PushBack(_) => n < o.max_len,
            SeqOp::Extend(v) => n + v.len() <= o.max_len,
            _ => true,
        };
        if ok {
            return op;
        }
    }
    SeqOp::PopBack
}

fn seq_probe(op: &SeqOp) -> &'static str {
    match op {
        SeqOp::PushBack(_) => "seq.push_back",
        SeqOp::PushFront(_) => "seq.push_front",
        SeqOp::PopBack => "seq.pop_back",
        SeqOp::PopFront => "seq.pop_front",
        SeqOp::GetMut { .. } => "seq.get_mut",
        SeqOp::IterMut { .. } => "seq.iter_mut",
        SeqOp::Insert(..) => "seq.insert",
        SeqOp::Remove(_) => "seq.remove",
        SeqOp::SwapRemoveBack(_) => "seq.swap_remove_back",
        SeqOp::SwapRemoveFront(_) => "seq.swap_remove_front",
        SeqOp::Fill(_) => "seq.fill",
        SeqOp::Resize(..) => "seq.resize",
        SeqOp::Truncate(_) => "seq.truncate",
        SeqOp::Clear => "seq.clear",
        SeqOp::Retain { .. } => "seq.retain",
        SeqOp::ShrinkToFit => "seq.shrink_to_fit",
        SeqOp::Extend(_) => "seq.extend",
    }
}

fn draw_seq_initial() -> Vec<u16> {
    (0..kit::pick(&[0u32, 1, 3, 5, 8])).map(|_| draw_val()).collect()
}

// ------------------------------------------------------------------------------------------
// ObservableVec
// ------------------------------------------------------------------------------------------

impl Coll for ObservableVec<u16> {
    const NAME: &'static str = "vec";
    const HAS_MODES: bool = true;
    type Ref = Vec<u16>;
    type Op = SeqOp;
    type Sub = VecSubscription<u16>;
    type Mirror = MirroredVec<u16>;
    type Event = VecEvent<u16>;
    type Plain = Vec<u16>;

    fn draw_initial(_o: &GenOpts) -> Vec<u16> {
        draw_seq_initial()
    }
    fn draw_op(r: &Vec<u16>, o: &GenOpts) -> SeqOp {
        draw_seq_op(r.len(), false, o)
    }
    fn op_probe(op: &SeqOp) -> &'static str {
        seq_probe(op)
    }
    fn from_ref(r: &Vec<u16>) -> Self {
        ObservableVec::from(r.clone())
    }

    fn apply(&mut self, r: &mut Vec<u16>, op: &SeqOp, emit: &mut dyn FnMut(State)) {
        let n = r.len();
        match op {
            SeqOp::PushBack(v) => {
                self.push(*v);
                r.push(*v);
                emit(seq_state(r.iter()));
            }
            SeqOp::PopBack => {
                self.pop();
                if r.pop().is_some() {
                    emit(seq_state(r.iter()));
                }
            }
            SeqOp::GetMut { idx, write } => {
                if let Some(mut e) = self.get_mut(*idx) {
                    match write {
                        Some(w) => *e = *w,
                        None => {
                            let _ = *e;
                        }
                    }
                }
                if let (true, Some(w)) = (*idx < n, write) {
                    r[*idx] = *w;
                    emit(seq_state(r.iter()));
                }
            }
            SeqOp::IterMut { rev, stride, offset, val } => {
                let order: Vec<usize> = if *rev { (0..n).rev().collect() } else { (0..n).collect() };
                {
                    let mut it = self.iter_mut();
                    for &i in &order {
                        let mut e = if *rev { it.next_back() } else { it.next() }.expect("iter_mut too short");
                        if i % stride == *offset {
                            *e = *val;
                        } else {
                            let _ = *e;
                        }
                    }
                }
                for &i in &order {
                    if i % stride == *offset {
                        r[i] = *val;
                        emit(seq_state(r.iter()));
                    }
                }
            }
            SeqOp::Insert(i, v) => {
                self.insert(*i, *v);
                r.insert(*i, *v);
                emit(seq_state(r.iter()));
            }
            SeqOp::Remove(i) => {
                self.remove(*i);
                r.remove(*i);
                emit(seq_state(r.iter()));
            }
            SeqOp::SwapRemoveBack(i) => {
                self.swap_remove(*i);
                r.swap_remove(*i);
                emit(seq_state(r.iter()));
            }
            SeqOp::Fill(v) => {
                self.fill(*v);
                r.fill(*v);
                emit(seq_state(r.iter()));
            }
            SeqOp::Resize(l, v) => {
                self.resize(*l, *v);
                r.resize(*l, *v);
                if *l != n {
                    emit(seq_state(r.iter()));
                }
            }
            SeqOp::Truncate(l) => {
                self.truncate(*l);
                r.truncate(*l);
                if *l < n {
                    emit(seq_state(r.iter()));
                }
            }
            SeqOp::Clear => {
                self.clear();
                r.clear();
                if n > 0 {
                    emit(seq_state(r.iter()));
                }
            }
            SeqOp::Retain { m, r: rem, inv } => {
                self.retain(|v| seq_keep(*v, *m, *rem, *inv));
                r.retain(|v| seq_keep(*v, *m, *rem, *inv));
                if r.len() != n {
                    emit(seq_state(r.iter()));
                }
            }
            SeqOp::ShrinkToFit => {
                self.shrink_to_fit();
                emit(seq_state(r.iter()));
            }
            SeqOp::Extend(vs) => {
                self.extend(vs.iter().copied());
                for v in vs {
                    r.push(*v);
                    emit(seq_state(r.iter()));
                }
            }
            SeqOp::PushFront(_) | SeqOp::PopFront | SeqOp::SwapRemoveFront(_) => unreachable!(),
        }
    }

    fn ref_state(r: &Vec<u16>) -> State {
        seq_state(r.iter())
    }
    async fn obs_state(&self) -> State {
        seq_state(self.iter())
    }
    fn fmt_state(s: &State) -> String {
        fmt_seq(s)
    }
    fn is_partial(part: &State, snapshot: &State) -> bool {
        is_prefix(part, snapshot)
    }
    fn subscribe(&self, incremental: bool, buffer: usize) -> Self::Sub {
        if incremental { self.subscribe_incremental(buffer) } else { ObservableVec::subscribe(self, buffer) }
    }
    fn mark_done(&mut self) {
        self.done()
    }
    fn mirror(sub: Self::Sub, max_size: usize) -> Self::Mirror {
        sub.mirror(max_size)
    }
    async fn borrow(m: &Self::Mirror) -> Result<View, RecvError> {
        let v = m.borrow().await?;
        Ok(View { state: seq_state(v.iter()), complete: v.is_complete(), done: v.is_done() })
    }
    async fn borrow_and_update(m: &mut Self::Mirror) -> Result<View, RecvError> {
        let v = m.borrow_and_update().await?;
        Ok(View { state: seq_state(v.iter()), complete: v.is_complete(), done: v.is_done() })
    }
    async fn detach(m: Self::Mirror) -> State {
        seq_state(m.detach().await.iter())
    }
    async fn resubscribe(m: &Self::Mirror, incremental: bool, buffer: usize) -> Option<Result<Self::Sub, RecvError>> {
        Some(if incremental { m.subscribe_incremental(buffer).await } else { m.subscribe(buffer).await })
    }
    async fn hold(m: &Self::Mirror) -> Option<Box<dyn Held + '_>> {
        m.borrow().await.ok().map(|g| Box::new(g) as Box<dyn Held + '_>)
    }
    fn take_initial(sub: &mut Self::Sub) -> Option<Vec<u16>> {
        sub.take_initial()
    }
    async fn recv(sub: &mut Self::Sub) -> Result<Option<Self::Event>, RecvError> {
        sub.recv().await
    }

    fn apply_event(p: &mut Vec<u16>, ev: VecEvent<u16>) -> Result<EvClass, String> {
        match ev {
            VecEvent::InitialComplete => return Ok(EvClass::InitialComplete),
            VecEvent::Done => return Ok(EvClass::Done),
            VecEvent::Push(v) => p.push(v),
            VecEvent::Pop => {
                p.pop().ok_or("Pop on empty contents")?;
            }
            VecEvent::Insert(i, v) => {
                if i > p.len() {
                    return Err(format!("Insert index {i} > len {}", p.len()));
                }
                p.insert(i, v)
            }
            VecEvent::Set(i, v) => *p.get_mut(i).ok_or(format!("Set index {i} out of range"))? = v,
            VecEvent::Remove(i) => {
                if i >= p.len() {
                    return Err(format!("Remove index {i} out of range"));
                }
                p.remove(i);
            }
            VecEvent::SwapRemove(i) => {
                if i >= p.len() {
                    return Err(format!("SwapRemove index {i} out of range"));
                }
                p.swap_remove(i);
            }
            VecEvent::Fill(v) => p.fill(v),
            VecEvent::Resize(l, v) => p.resize(l, v),
            VecEvent::Truncate(l) => p.truncate(l),
            VecEvent::Retain(keep) => {
                let mut i = 0;
                p.retain(|_| {
                    i += 1;
                    keep.contains(&(i - 1))
                });
            }
            VecEvent::RetainNot(rm) => {
                let mut i = 0;
                p.retain(|_| {
                    i += 1;
                    !rm.contains(&(i - 1))
                });
            }
            VecEvent::Clear => p.clear(),
            VecEvent::ShrinkToFit => (),
        }
        Ok(EvClass::Change)
    }
    fn plain_state(p: &Vec<u16>) -> State {
        seq_state(p.iter())
    }
}

// ------------------------------------------------------------------------------------------
// ObservableVecDeque
// ------------------------------------------------------------------------------------------

impl Coll for ObservableVecDeque<u16> {
    const NAME: &'static str = "vec_deque";
    const HAS_MODES: bool = true;
    type Ref = VecDeque<u16>;
    type Op = SeqOp;
    type Sub = VecDequeSubscription<u16>;
    type Mirror = MirroredVecDeque<u16>;
    type Event = VecDequeEvent<u16>;
    type Plain = VecDeque<u16>;

    fn draw_initial(_o: &GenOpts) -> VecDeque<u16> {
        let mut d: VecDeque<u16> = VecDeque::new();
        // Build through both ends so that the ring buffer is wrapped in some runs.
        for v in draw_seq_initial() {
            if kit::coin(1, 3) { d.push_front(v) } else { d.push_back(v) }
        }
        d
    }
    fn draw_op(r: &VecDeque<u16>, o: &GenOpts) -> SeqOp {
        draw_seq_op(r.len(), true, o)
    }
    fn op_probe(op: &SeqOp) -> &'static str {
        seq_probe(op)
    }
    fn from_ref(r: &VecDeque<u16>) -> Self {
        ObservableVecDeque::from(r.clone())
    }

    fn apply(&mut self, r: &mut VecDeque<u16>, op: &SeqOp, emit: &mut dyn FnMut(State)) {
        let n = r.len();
        match op {
            SeqOp::PushBack(v) => {
                self.push_back(*v);
                r.push_back(*v);
                emit(seq_state(r.iter()));
            }
            SeqOp::PushFront(v) => {
                self.push_front(*v);
                r.push_front(*v);
                emit(seq_state(r.iter()));
            }
            SeqOp::PopBack => {
                self.pop_back();
                if r.pop_back().is_some() {
                    emit(seq_state(r.iter()));
                }
            }
            SeqOp::PopFront => {
                self.pop_front();
                if r.pop_front().is_some() {
                    emit(seq_state(r.iter()));
                }
            }
            SeqOp::GetMut { idx, write } => {
                if let Some(mut e) = self.get_mut(*idx) {
                    match write {
                        Some(w) => *e = *w,
                        None => {
                            let _ = *e;
                        }
                    }
                }
                if let (true, Some(w)) = (*idx < n, write) {
                    r[*idx] = *w;
                    emit(seq_state(r.iter()));
                }
            }
            SeqOp::IterMut { rev, stride, offset, val } => {
                let order: Vec<usize> = if *rev { (0..n).rev().collect() } else { (0..n).collect() };
                {
                    let mut it = self.iter_mut();
                    for &i in &order {
                        let mut e = if *rev { it.next_back() } else { it.next() }.expect("iter_mut too short");
                        if i % stride == *offset {
                            *e = *val;
                        } else {
                            let _ = *e;
                        }
                    }
                }
                for &i in &order {
                    if i % stride == *offset {
                        r[i] = *val;
                        emit(seq_state(r.iter()));
                    }
                }
            }
            SeqOp::Insert(i, v) => {
                self.insert(*i, *v);
                r.insert(*i, *v);
                emit(seq_state(r.iter()));
            }
            SeqOp::Remove(i) => {
                self.remove(*i);
                if r.remove(*i).is_some() {
                    emit(seq_state(r.iter()));
                }
            }
            SeqOp::SwapRemoveBack(i) => {
                self.swap_remove_back(*i);
                if r.swap_remove_back(*i).is_some() {
                    emit(seq_state(r.iter()));
                }
            }
            SeqOp::SwapRemoveFront(i) => {
                self.swap_remove_front(*i);
                if r.swap_remove_front(*i).is_some() {
                    emit(seq_state(r.iter()));
                }
            }
            SeqOp::Resize(l, v) => {
                self.resize(*l, *v);
                r.resize(*l, *v);
                if *l != n {
                    emit(seq_state(r.iter()));
                }
            }
            SeqOp::Truncate(l) => {
                self.truncate(*l);
                r.truncate(*l);
                if *l < n {
                    emit(seq_state(r.iter()));
                }
            }
            SeqOp::Clear => {
                self.clear();
                r.clear();
                if n > 0 {
                    emit(seq_state(r.iter()));
                }
            }
            SeqOp::Retain { m, r: rem, inv } => {
                self.retain(|v| seq_keep(*v, *m, *rem, *inv));
                r.retain(|v| seq_keep(*v, *m, *rem, *inv));
                if r.len() != n {
                    emit(seq_state(r.iter()));
                }
            }
            SeqOp::ShrinkToFit => {
                self.shrink_to_fit();
                emit(seq_state(r.iter()));
            }
            SeqOp::Extend(vs) => {
                self.extend(vs.iter().copied());
                for v in vs {
                    r.push_back(*v);
                    emit(seq_state(r.iter()));
                }
            }
            SeqOp::Fill(_) => unreachable!(),
        }
    }

    fn ref_state(r: &VecDeque<u16>) -> State {
        seq_state(r.iter())
    }
    async fn obs_state(&self) -> State {
        seq_state(self.iter())
    }
    fn fmt_state(s: &State) -> String {
        fmt_seq(s)
    }
    fn is_partial(part: &State, snapshot: &State) -> bool {
        is_prefix(part, snapshot)
    }
    fn subscribe(&self, incremental: bool, buffer: usize) -> Self::Sub {
        if incremental { self.subscribe_incremental(buffer) } else { ObservableVecDeque::subscribe(self, buffer) }
    }
    fn mark_done(&mut self) {
        self.done()
    }
    fn mirror(sub: Self::Sub, max_size: usize) -> Self::Mirror {
        sub.mirror(max_size)
    }
    async fn borrow(m: &Self::Mirror) -> Result<View, RecvError> {
        let v = m.borrow().await?;
        Ok(View { state: seq_state(v.iter()), complete: v.is_complete(), done: v.is_done() })
    }
    async fn borrow_and_update(m: &mut Self::Mirror) -> Result<View, RecvError> {
        let v = m.borrow_and_update().await?;
        Ok(View { state: seq_state(v.iter()), complete: v.is_complete(), done: v.is_done() })
    }
    async fn detach(m: Self::Mirror) -> State {
        seq_state(m.detach().await.iter())
    }
    async fn resubscribe(m: &Self::Mirror, incremental: bool, buffer: usize) -> Option<Result<Self::Sub, RecvError>> {
        Some(if incremental { m.subscribe_incremental(buffer).await } else { m.subscribe(buffer).await })
    }
    async fn hold(m: &Self::Mirror) -> Option<Box<dyn Held + '_>> {
        m.borrow().await.ok().map(|g| Box::new(g) as Box<dyn Held + '_>)
    }
    fn take_initial(sub: &mut Self::Sub) -> Option<VecDeque<u16>> {
        sub.take_initial()
    }
    async fn recv(sub: &mut Self::Sub) -> Result<Option<Self::Event>, RecvError> {
        sub.recv().await
    }

    fn apply_event(p: &mut VecDeque<u16>, ev: VecDequeEvent<u16>) -> Result<EvClass, String> {
        match ev {
            VecDequeEvent::InitialComplete => return Ok(EvClass::InitialComplete),
            VecDequeEvent::Done => return Ok(EvClass::Done),
            VecDequeEvent::PushBack(v) => p.push_back(v),
            VecDequeEvent::PushFront(v) => p.push_front(v),
            VecDequeEvent::PopBack => {
                p.pop_back().ok_or("PopBack on empty contents")?;
            }
            VecDequeEvent::PopFront => {
                p.pop_front().ok_or("PopFront on empty contents")?;
            }
            VecDequeEvent::Insert(i, v) => {
                if i > p.len() {
                    return Err(format!("Insert index {i} > len {}", p.len()));
                }
                p.insert(i, v)
            }
            VecDequeEvent::Set(i, v) => *p.get_mut(i).ok_or(format!("Set index {i} out of range"))? = v,
            VecDequeEvent::Remove(i) => {
                p.remove(i).ok_or(format!("Remove index {i} out of range"))?;
            }
            VecDequeEvent::SwapRemoveBack(i) => {
                // Documented meaning: element i removed and replaced by the last element.
                if i >= p.len() {
                    return Err(format!("SwapRemoveBack index {i} out of range"));
                }
                let last = p.pop_back().unwrap();
                if i < p.len() {
                    p[i] = last;
                }
            }
            VecDequeEvent::SwapRemoveFront(i) => {
                // Documented meaning: element i removed and replaced by the first element.
                if i >= p.len() {
                    return Err(format!("SwapRemoveFront index {i} out of range"));
                }
                let first = p.pop_front().unwrap();
                if i > 0 {
                    p[i - 1] = first;
                }
            }
            VecDequeEvent::Resize(l, v) => p.resize(l, v),
            VecDequeEvent::Truncate(l) => p.truncate(l),
            VecDequeEvent::Retain(keep) => {
                let mut i = 0;
                p.retain(|_| {
                    i += 1;
                    keep.contains(&(i - 1))
                });
            }
            VecDequeEvent::RetainNot(rm) => {
                let mut i = 0;
                p.retain(|_| {
                    i += 1;
                    !rm.contains(&(i - 1))
                });
            }
            VecDequeEvent::Clear => p.clear(),
            VecDequeEvent::ShrinkToFit => (),
        }
        Ok(EvClass::Change)
    }
    fn plain_state(p: &VecDeque<u16>) -> State {
        seq_state(p.iter())
    }
}

// ------------------------------------------------------------------------------------------
// Hash containers: keys whose tag is ignored by Eq / Hash
// ------------------------------------------------------------------------------------------

#[derive(Clone, Copy, Debug, Serialize, Deserialize)]
pub struct Key {
    pub k: u8,
    pub tag: u8,
}

impl PartialEq for Key {
    fn eq(&self, o: &Self) -> bool {
        self.k == o.k
    }
}
impl Eq for Key {}
impl Hash for Key {
    fn hash<H: Hasher>(&self, h: &mut H) {
        self.k.hash(h)
    }
}

fn draw_key(tags: bool) -> Key {
    let k = 10 + kit::draw(12) as u8;
    Key { k, tag: if tags { 10 + kit::draw(90) as u8 } else { k } }
}

fn key_keep(k: u8, m: u8, r: u8, inv: bool) -> bool {
    ((k % m) == r) != inv
}

// ------------------------------------------------------------------------------------------
// ObservableHashMap
// ------------------------------------------------------------------------------------------

#[derive(Clone, Debug)]
pub enum MapOp {
    Insert(Key, u16),
    Remove(Key),
    Clear,
    /// keep = ((key % m) == r) != inv; `mutate`: retained values are bumped inside the closure.
    Retain { m: u8, r: u8, inv: bool, mutate: Option<u16> },
    EntryOrInsert(Key, u16, Option<u16>),
    EntryOrInsertWith(Key, u16),
    EntryOrInsertWithKey(Key),
    EntryOrDefault(Key),
    EntryAndModifyOrInsert(Key, u16, u16),
    OccInsert(Key, u16),
    OccRemove(Key),
    OccRemoveEntry(Key),
    OccGetMut(Key, Option<u16>),
    OccIntoMut(Key, Option<u16>),
    VacInsert(Key, u16, Option<u16>),
    GetMut(Key, Option<u16>),
    IterMut { m: u8, r: u8, val: u16 },
    ShrinkToFit,
    Extend(Vec<(Key, u16)>),
}

#[derive(Clone, Default)]
pub struct MapRef {
    /// key -> (tag of the stored key, value)
    pub m: BTreeMap<u8, (u8, u16)>,
    /// Keys whose value was changed inside a `retain` closure and not re-synchronised since.
    pub retain_mutated: BTreeSet<u8>,
}

fn map_state(m: &BTreeMap<u8, (u8, u16)>) -> State {
    m.iter().map(|(k, (t, v))| ((*k as u32) << 24) | ((*t as u32) << 16) | *v as u32).collect()
}

fn map_state_of<'a>(it: impl Iterator<Item = (&'a Key, &'a u16)>) -> State {
    let mut v: State = it.map(|(k, v)| ((k.k as u32) << 24) | ((k.tag as u32) << 16) | *v as u32).collect();
    v.sort();
    v
}

impl MapRef {
    fn set(&mut self, k: Key, v: u16) {
        // std semantics: an existing key object is kept, only the value is replaced.
        let tag = self.m.get(&k.k).map(|e| e.0).unwrap_or(k.tag);
        self.m.insert(k.k, (tag, v));
        self.retain_mutated.remove(&k.k);
    }
    fn del(&mut self, k: u8) -> bool {
        self.retain_mutated.remove(&k);
        self.m.remove(&k).is_some()
    }
    fn st(&self) -> State {
        map_state(&self.m)
    }
}

type OMap = ObservableHashMap<Key, u16>;

impl Coll for OMap {
    const NAME: &'static str = "hash_map";
    const HAS_MODES: bool = true;
    type Ref = MapRef;
    type Op = MapOp;
    type Sub = HashMapSubscription<Key, u16>;
    type Mirror = MirroredHashMap<Key, u16>;
    type Event = HashMapEvent<Key, u16>;
    type Plain = HashMap<Key, u16>;

    fn draw_initial(_o: &GenOpts) -> MapRef {
        let mut r = MapRef::default();
        for _ in 0..kit::pick(&[0u32, 1, 3, 5, 8]) {
            r.set(draw_key(true), draw_val());
        }
        r
    }

    fn draw_op(r: &MapRef, o: &GenOpts) -> MapOp {
        let n = r.m.len();
        let w = || if kit::coin(2, 3) { Some(draw_val()) } else { None };
        for _ in 0..64 {
            let op = match kit::draw(24) {
                0..=2 => MapOp::Insert(draw_key(true), draw_val()),
                3 | 4 => MapOp::Remove(draw_key(true)),
                5 => MapOp::Clear,
                6 | 7 => {
                    let (m, rr, inv) = match kit::draw(4) {
                        0 => (2, kit::draw(2) as u8, false),
                        1 => (1, 0, false),
                        2 => (1, 0, true),
                        _ => (5, kit::draw(5) as u8, true),
                    };
                    MapOp::Retain { m, r: rr, inv, mutate: if o.retain_mutates && kit::coin(2, 3) { Some(kit::draw_range(1, 60) as u16) } else { None } }
                }
                8 => MapOp::EntryOrInsert(draw_key(true), draw_val(), w()),
                9 => MapOp::EntryOrInsertWith(draw_key(true), draw_val()),
                10 => MapOp::EntryOrInsertWithKey(draw_key(true)),
                11 => MapOp::EntryOrDefault(draw_key(true)),
                12 | 13 => MapOp::EntryAndModifyOrInsert(draw_key(true), kit::draw_range(1, 60) as u16, draw_val()),
                14 => MapOp::OccInsert(draw_key(true), draw_val()),
                15 => MapOp::OccRemove(draw_key(true)),
                16 => MapOp::OccRemoveEntry(draw_key(true)),
                17 => MapOp::OccGetMut(draw_key(true), w()),
                18 => MapOp::OccIntoMut(draw_key(true), w()),
                19 => MapOp::VacInsert(draw_key(true), draw_val(), w()),
                20 => MapOp::GetMut(draw_key(true), w()),
                21 => {
                    let m = kit::draw_range(1, 3) as u8;
                    MapOp::IterMut { m, r: kit::draw(m as u32 + 1) as u8, val: draw_val() }
                }
                22 => MapOp::ShrinkToFit,
                _ => MapOp::Extend((0..kit::draw(4)).map(|_| (draw_key(true), draw_val())).collect()),
            };
            if n < o.max_len || !matches!(op, MapOp::Extend(_)) {
                return op;
            }
        }
        MapOp::Clear
    }

    fn op_probe(op: &MapOp) -> &'static str {
        match op {
            MapOp::Insert(..) => "map.insert",
            MapOp::Remove(_) => "map.remove",
            MapOp::Clear => "map.clear",
            MapOp::Retain { mutate: None, .. } => "map.retain",
            MapOp::Retain { mutate: Some(_), .. } => "map.retain_mutating",
            MapOp::EntryOrInsert(..) => "map.entry.or_insert",
            MapOp::EntryOrInsertWith(..) => "map.entry.or_insert_with",
            MapOp::EntryOrInsertWithKey(_) => "map.entry.or_insert_with_key",
            MapOp::EntryOrDefault(_) => "map.entry.or_default",
            MapOp::EntryAndModifyOrInsert(..) => "map.entry.and_modify",
            MapOp::OccInsert(..) => "map.occupied.insert",
            MapOp::OccRemove(_) => "map.occupied.remove",
            MapOp::OccRemoveEntry(_) => "map.occupied.remove_entry",
            MapOp::OccGetMut(..) => "map.occupied.get_mut",
            MapOp::OccIntoMut(..) => "map.occupied.into_mut",
            MapOp::VacInsert(..) => "map.vacant.insert",
            MapOp::GetMut(..) => "map.get_mut",
            MapOp::IterMut { .. } => "map.iter_mut",
            MapOp::ShrinkToFit => "map.shrink_to_fit",
            MapOp::Extend(_) => "map.extend",
        }
    }

    fn from_ref(r: &MapRef) -> Self {
        let hm: HashMap<Key, u16> = r.m.iter().map(|(k, (t, v))| (Key { k: *k, tag: *t }, *v)).collect();
        ObservableHashMap::from(hm)
    }

    fn apply(&mut self, r: &mut MapRef, op: &MapOp, emit: &mut dyn FnMut(State)) {
        let present = |r: &MapRef, k: &Key| r.m.contains_key(&k.k);
        match op {
            MapOp::Insert(k, v) => {
                self.insert(*k, *v);
                r.set(*k, *v);
                emit(r.st());
            }
            MapOp::Remove(k) => {
                self.remove(k);
                if r.del(k.k) {
                    emit(r.st());
                }
            }
            MapOp::Clear => {
                self.clear();
                if !r.m.is_empty() {
                    r.m.clear();
                    r.retain_mutated.clear();
                    emit(r.st());
                }
            }
            MapOp::Retain { m, r: rr, inv, mutate } => {
                let mut removed = Vec::new();
                let mut mutated = Vec::new();
                self.retain(|k, v| {
                    let keep = key_keep(k.k, *m, *rr, *inv);
                    if keep {
                        if let Some(d) = mutate {
                            let nv = bump(*v, *d);
                            if nv != *v {
                                mutated.push((k.k, nv));
                            }
                            *v = nv;
                        }
                    } else {
                        removed.push(k.k);
                    }
                    keep
                });
                for k in removed {
                    r.del(k);
                    emit(r.st());
                }
                for (k, nv) in mutated {
                    // No event is specified for this (nor possible with the current API): see finding F6.
                    if let Some(e) = r.m.get_mut(&k) {
                        e.1 = nv;
                    }
                    r.retain_mutated.insert(k);
                    kit::probe("map.retain_mutated_a_retained_value");
                }
            }
            MapOp::EntryOrInsert(k, v, w) => {
                {
                    let mut e = self.entry(*k).or_insert(*v);
                    if let Some(w) = w {
                        *e = *w;
                    }
                }
                if !present(r, k) {
                    r.set(*k, *v);
                    emit(r.st());
                }
                if let Some(w) = w {
                    r.set(*k, *w);
                    emit(r.st());
                }
            }
            MapOp::EntryOrInsertWith(k, v) => {
                self.entry(*k).or_insert_with(|| *v);
                if !present(r, k) {
                    r.set(*k, *v);
                    emit(r.st());
                }
            }
            MapOp::EntryOrInsertWithKey(k) => {
                self.entry(*k).or_insert_with_key(|key| key.k as u16 + 20);
                if !present(r, k) {
                    r.set(*k, k.k as u16 + 20);
                    emit(r.st());
                }
            }
            MapOp::EntryOrDefault(k) => {
                self.entry(*k).or_default();
                if !present(r, k) {
                    r.set(*k, 0);
                    emit(r.st());
                }
            }
            MapOp::EntryAndModifyOrInsert(k, add, ins) => {
                self.entry(*k).and_modify(|v| *v = bump(*v, *add)).or_insert(*ins);
                let nv = match r.m.get(&k.k) {
                    Some((_, v)) => bump(*v, *add),
                    None => *ins,
                };
                r.set(*k, nv);
                emit(r.st());
            }
            MapOp::OccInsert(k, v) => {
                if let hm::Entry::Occupied(mut o) = self.entry(*k) {
                    o.insert(*v);
                }
                if present(r, k) {
                    r.set(*k, *v);
                    emit(r.st());
                }
            }
            MapOp::OccRemove(k) => {
                if let hm::Entry::Occupied(o) = self.entry(*k) {
                    o.remove();
                }
                if r.del(k.k) {
                    emit(r.st());
                }
            }
            MapOp::OccRemoveEntry(k) => {
                if let hm::Entry::Occupied(o) = self.entry(*k) {
                    o.remove_entry();
                }
                if r.del(k.k) {
                    emit(r.st());
                }
            }
            MapOp::OccGetMut(k, w) => {
                if let hm::Entry::Occupied(mut o) = self.entry(*k) {
                    let mut e = o.get_mut();
                    match w {
                        Some(w) => *e = *w,
                        None => {
                            let _ = *e;
                        }
                    }
                }
                if let (true, Some(w)) = (present(r, k), w) {
                    r.set(*k, *w);
                    emit(r.st());
                }
            }
            MapOp::OccIntoMut(k, w) => {
                if let hm::Entry::Occupied(o) = self.entry(*k) {
                    let mut e = o.into_mut();
                    match w {
                        Some(w) => *e = *w,
                        None => {
                            let _ = *e;
                        }
                    }
                }
                if let (true, Some(w)) = (present(r, k), w) {
                    r.set(*k, *w);
                    emit(r.st());
                }
            }
            MapOp::VacInsert(k, v, w) => {
                if let hm::Entry::Vacant(e) = self.entry(*k) {
                    let mut e = e.insert(*v);
                    if let Some(w) = w {
                        *e = *w;
                    }
                }
                if !present(r, k) {
                    r.set(*k, *v);
                    emit(r.st());
                    if let Some(w) = w {
                        r.set(*k, *w);
                        emit(r.st());
                    }
                }
            }
            MapOp::GetMut(k, w) => {
                if let Some(mut e) = self.get_mut(k) {
                    match w {
                        Some(w) => *e = *w,
                        None => {
                            let _ = *e;
                        }
                    }
                }
                if let (true, Some(w)) = (present(r, k), w) {
                    r.set(*k, *w);
                    emit(r.st());
                }
            }
            MapOp::IterMut { m, r: rr, val } => {
                // The iteration order of the unmodified table is the same for keys() and iter_mut().
                let order: Vec<Key> = self.keys().copied().collect();
                for (i, mut e) in self.iter_mut().enumerate() {
                    if key_keep(order[i].k, *m, *rr, false) {
                        *e = *val;
                    } else {
                        let _ = *e;
                    }
                }
                for k in order {
                    if key_keep(k.k, *m, *rr, false) {
                        r.set(k, *val);
                        emit(r.st());
                    }
                }
            }
            MapOp::ShrinkToFit => {
                self.shrink_to_fit();
                emit(r.st());
            }
            MapOp::Extend(kvs) => {
                self.extend(kvs.iter().copied());
                for (k, v) in kvs {
                    r.set(*k, *v);
                    emit(r.st());
                }
            }
        }
    }

    fn ref_state(r: &MapRef) -> State {
        r.st()
    }
    async fn obs_state(&self) -> State {
        map_state_of(self.iter())
    }
    fn fmt_state(s: &State) -> String {
        let items: Vec<String> = s.iter().map(|e| format!("{}#{}:{}", e >> 24, (e >> 16) & 0xff, e & 0xffff)).collect();
        format!("{{{}}}", items.join(", "))
    }
    fn is_partial(part: &State, snapshot: &State) -> bool {
        is_subset(part, snapshot)
    }
    fn classify(r: &MapRef, got: &State, want: &State) -> Option<&'static str> {
        if r.retain_mutated.is_empty() {
            return None;
        }
        let g: BTreeMap<u32, u32> = got.iter().map(|e| (e >> 24, *e)).collect();
        let w: BTreeMap<u32, u32> = want.iter().map(|e| (e >> 24, *e)).collect();
        let keys: BTreeSet<u32> = g.keys().chain(w.keys()).copied().collect();
        let mut any = false;
        for k in keys {
            if g.get(&k) != w.get(&k) {
                // Only the value of a key mutated inside retain may differ.
                let same_key = matches!((g.get(&k), w.get(&k)), (Some(a), Some(b)) if a >> 16 == b >> 16);
                if !same_key || !r.retain_mutated.contains(&(k as u8)) {
                    return None;
                }
                any = true;
            }
        }
        any.then_some("hash_map.retain:mutated-retained-value")
    }
    fn tainted(r: &MapRef) -> bool {
        !r.retain_mutated.is_empty()
    }
    fn subscribe(&self, incremental: bool, buffer: usize) -> Self::Sub {
        if incremental { self.subscribe_incremental(buffer) } else { ObservableHashMap::subscribe(self, buffer) }
    }
    fn mark_done(&mut self) {
        self.done()
    }
    fn mirror(sub: Self::Sub, max_size: usize) -> Self::Mirror {
        sub.mirror(max_size)
    }
    async fn borrow(m: &Self::Mirror) -> Result<View, RecvError> {
        let v = m.borrow().await?;
        Ok(View { state: map_state_of(v.iter()), complete: v.is_complete(), done: v.is_done() })
    }
    async fn borrow_and_update(m: &mut Self::Mirror) -> Result<View, RecvError> {
        let v = m.borrow_and_update().await?;
        Ok(View { state: map_state_of(v.iter()), complete: v.is_complete(), done: v.is_done() })
    }
    async fn detach(m: Self::Mirror) -> State {
        map_state_of(m.detach().await.iter())
    }
    async fn resubscribe(m: &Self::Mirror, incremental: bool, buffer: usize) -> Option<Result<Self::Sub, RecvError>> {
        Some(if incremental { m.subscribe_incremental(buffer).await } else { m.subscribe(buffer).await })
    }
    async fn hold(m: &Self::Mirror) -> Option<Box<dyn Held + '_>> {
        m.borrow().await.ok().map(|g| Box::new(g) as Box<dyn Held + '_>)
    }
    fn take_initial(sub: &mut Self::Sub) -> Option<HashMap<Key, u16>> {
        sub.take_initial()
    }
    async fn recv(sub: &mut Self::Sub) -> Result<Option<Self::Event>, RecvError> {
        sub.recv().await
    }
    fn apply_event(p: &mut HashMap<Key, u16>, ev: HashMapEvent<Key, u16>) -> Result<EvClass, String> {
        match ev {
            HashMapEvent::InitialComplete => return Ok(EvClass::InitialComplete),
            HashMapEvent::Done => return Ok(EvClass::Done),
            HashMapEvent::Set(k, v) => {
                p.insert(k, v);
            }
            HashMapEvent::Remove(k) => {
                p.remove(&k).ok_or(format!("Remove of absent key {}", k.k))?;
            }
            HashMapEvent::Clear => p.clear(),
            HashMapEvent::ShrinkToFit => (),
        }
        Ok(EvClass::Change)
    }
    fn plain_state(p: &HashMap<Key, u16>) -> State {
        map_state_of(p.iter())
    }
}

// ------------------------------------------------------------------------------------------
// ObservableHashSet
// ------------------------------------------------------------------------------------------

#[derive(Clone, Debug)]
pub enum SetOp {
    Insert(Key),
    Replace(Key),
    Remove(Key),
    Take(Key),
    Clear,
    Retain { m: u8, r: u8, inv: bool },
    ShrinkToFit,
    Extend(Vec<Key>),
}

#[derive(Clone, Default)]
pub struct SetRef {
    /// element -> tag of the stored element
    pub m: BTreeMap<u8, u8>,
    /// Elements that `replace` exchanged for an equal element with another tag, not re-synchronised since.
    pub replaced: BTreeSet<u8>,
    tags: bool,
}

fn set_state(m: &BTreeMap<u8, u8>) -> State {
    m.iter().map(|(k, t)| ((*k as u32) << 8) | *t as u32).collect()
}

fn set_state_of<'a>(it: impl Iterator<Item = &'a Key>) -> State {
    let mut v: State = it.map(|k| ((k.k as u32) << 8) | k.tag as u32).collect();
    v.sort();
    v
}

impl SetRef {
    fn del(&mut self, k: u8) -> bool {
        self.replaced.remove(&k);
        self.m.remove(&k).is_some()
    }
}

type OSet = ObservableHashSet<Key>;

impl Coll for OSet {
    const NAME: &'static str = "hash_set";
    const HAS_MODES: bool = true;
    type Ref = SetRef;
    type Op = SetOp;
    type Sub = HashSetSubscription<Key>;
    type Mirror = MirroredHashSet<Key>;
    type Event = HashSetEvent<Key>;
    type Plain = HashSet<Key>;

    fn draw_initial(o: &GenOpts) -> SetRef {
        let mut r = SetRef { tags: o.set_tags, ..Default::default() };
        for _ in 0..kit::pick(&[0u32, 1, 3, 5, 8]) {
            let k = draw_key(o.set_tags);
            r.m.entry(k.k).or_insert(k.tag);
        }
        r
    }

    fn draw_op(r: &SetRef, o: &GenOpts) -> SetOp {
        let t = r.tags;
        for _ in 0..64 {
            let op = match kit::draw(13) {
                0..=2 => SetOp::Insert(draw_key(t)),
                3 | 4 => SetOp::Replace(draw_key(t)),
                5 | 6 => SetOp::Remove(draw_key(t)),
                7 => SetOp::Take(draw_key(t)),
                8 => SetOp::Clear,
                9 | 10 => match kit::draw(4) {
                    0 => SetOp::Retain { m: 2, r: kit::draw(2) as u8, inv: false },
                    1 => SetOp::Retain { m: 1, r: 0, inv: false },
                    2 => SetOp::Retain { m: 1, r: 0, inv: true },
                    _ => SetOp::Retain { m: 5, r: kit::draw(5) as u8, inv: true },
                },
                11 => SetOp::ShrinkToFit,
                _ => SetOp::Extend((0..kit::draw(4)).map(|_| draw_key(t)).collect()),
            };
            if r.m.len() < o.max_len || !matches!(op, SetOp::Extend(_)) {
                return op;
            }
        }
        SetOp::Clear
    }

    fn op_probe(op: &SetOp) -> &'static str {
        match op {
            SetOp::Insert(_) => "set.insert",
            SetOp::Replace(_) => "set.replace",
            SetOp::Remove(_) => "set.remove",
            SetOp::Take(_) => "set.take",
            SetOp::Clear => "set.clear",
            SetOp::Retain { .. } => "set.retain",
            SetOp::ShrinkToFit => "set.shrink_to_fit",
            SetOp::Extend(_) => "set.extend",
        }
    }

    fn from_ref(r: &SetRef) -> Self {
        let hs: HashSet<Key> = r.m.iter().map(|(k, t)| Key { k: *k, tag: *t }).collect();
        ObservableHashSet::from(hs)
    }

    fn apply(&mut self, r: &mut SetRef, op: &SetOp, emit: &mut dyn FnMut(State)) {
        match op {
            SetOp::Insert(k) => {
                // An equal element already present is kept and no event is sent (nothing changes).
                self.insert(*k);
                if !r.m.contains_key(&k.k) {
                    r.m.insert(k.k, k.tag);
                    emit(set_state(&r.m));
                } else {
                    kit::probe("set.insert_of_present_element");
                }
            }
            SetOp::Replace(k) => {
                self.replace(*k);
                if let Some(old) = r.m.insert(k.k, k.tag)
                    && old != k.tag
                {
                    r.replaced.insert(k.k);
                    kit::probe("set.replace_changed_stored_element");
                }
                emit(set_state(&r.m));
            }
            SetOp::Remove(k) => {
                self.remove(k);
                if r.del(k.k) {
                    emit(set_state(&r.m));
                }
            }
            SetOp::Take(k) => {
                self.take(k);
                if r.del(k.k) {
                    emit(set_state(&r.m));
                }
            }
            SetOp::Clear => {
                self.clear();
                if !r.m.is_empty() {
                    r.m.clear();
                    r.replaced.clear();
                    emit(set_state(&r.m));
                }
            }
            SetOp::Retain { m, r: rr, inv } => {
                let mut removed = Vec::new();
                self.retain(|k| {
                    let keep = key_keep(k.k, *m, *rr, *inv);
                    if !keep {
                        removed.push(k.k);
                    }
                    keep
                });
                for k in removed {
                    r.del(k);
                    emit(set_state(&r.m));
                }
            }
            SetOp::ShrinkToFit => {
                self.shrink_to_fit();
                emit(set_state(&r.m));
            }
            SetOp::Extend(ks) => {
                self.extend(ks.iter().copied());
                for k in ks {
                    // extend = insert per element: an event only for elements that are new.
                    if !r.m.contains_key(&k.k) {
                        r.m.insert(k.k, k.tag);
                        emit(set_state(&r.m));
                    }
                }
            }
        }
    }

    fn ref_state(r: &SetRef) -> State {
        set_state(&r.m)
    }
    async fn obs_state(&self) -> State {
        set_state_of(self.iter())
    }
    fn fmt_state(s: &State) -> String {
        let items: Vec<String> = s.iter().map(|e| format!("{}#{}", e >> 8, e & 0xff)).collect();
        format!("{{{}}}", items.join(", "))
    }
    fn is_partial(part: &State, snapshot: &State) -> bool {
        is_subset(part, snapshot)
    }
    fn classify(r: &SetRef, got: &State, want: &State) -> Option<&'static str> {
        if r.replaced.is_empty() {
            return None;
        }
        let g: BTreeMap<u32, u32> = got.iter().map(|e| (e >> 8, *e)).collect();
        let w: BTreeMap<u32, u32> = want.iter().map(|e| (e >> 8, *e)).collect();
        if g.keys().ne(w.keys()) {
            return None;
        }
        let mut any = false;
        for (k, e) in &g {
            if w[k] != *e {
                if !r.replaced.contains(&(*k as u8)) {
                    return None;
                }
                any = true;
            }
        }
        any.then_some("hash_set.replace:mirror-keeps-old-element")
    }
    fn tainted(r: &SetRef) -> bool {
        !r.replaced.is_empty()
    }
    fn subscribe(&self, incremental: bool, buffer: usize) -> Self::Sub {
        if incremental { self.subscribe_incremental(buffer) } else { ObservableHashSet::subscribe(self, buffer) }
    }
    fn mark_done(&mut self) {
        self.done()
    }
    fn mirror(sub: Self::Sub, max_size: usize) -> Self::Mirror {
        sub.mirror(max_size)
    }
    async fn borrow(m: &Self::Mirror) -> Result<View, RecvError> {
        let v = m.borrow().await?;
        Ok(View { state: set_state_of(v.iter()), complete: v.is_complete(), done: v.is_done() })
    }
    async fn borrow_and_update(m: &mut Self::Mirror) -> Result<View, RecvError> {
        let v = m.borrow_and_update().await?;
        Ok(View { state: set_state_of(v.iter()), complete: v.is_complete(), done: v.is_done() })
    }
    async fn detach(m: Self::Mirror) -> State {
        set_state_of(m.detach().await.iter())
    }
    async fn resubscribe(m: &Self::Mirror, incremental: bool, buffer: usize) -> Option<Result<Self::Sub, RecvError>> {
        Some(if incremental { m.subscribe_incremental(buffer).await } else { m.subscribe(buffer).await })
    }
    async fn hold(m: &Self::Mirror) -> Option<Box<dyn Held + '_>> {
        m.borrow().await.ok().map(|g| Box::new(g) as Box<dyn Held + '_>)
    }
    fn take_initial(sub: &mut Self::Sub) -> Option<HashSet<Key>> {
        sub.take_initial()
    }
    async fn recv(sub: &mut Self::Sub) -> Result<Option<Self::Event>, RecvError> {
        sub.recv().await
    }
    fn apply_event(p: &mut HashSet<Key>, ev: HashSetEvent<Key>) -> Result<EvClass, String> {
        match ev {
            HashSetEvent::InitialComplete => return Ok(EvClass::InitialComplete),
            HashSetEvent::Done => return Ok(EvClass::Done),
            HashSetEvent::Set(k) => {
                // Set = the element was added or replaced an equal one.
                p.replace(k);
            }
            HashSetEvent::Remove(k) => {
                if !p.remove(&k) {
                    return Err(format!("Remove of absent element {}", k.k));
                }
            }
            HashSetEvent::Clear => p.clear(),
            HashSetEvent::ShrinkToFit => (),
        }
        Ok(EvClass::Change)
    }
    fn plain_state(p: &HashSet<Key>) -> State {
        set_state_of(p.iter())
    }
}

// ------------------------------------------------------------------------------------------
// ObservableList
// ------------------------------------------------------------------------------------------

#[derive(Clone, Debug)]
pub enum ListOp {
    Push(u16),
    Extend(Vec<u16>),
}

type OList = ObservableList<u16>;

fn prefixes(v: &[u16]) -> Vec<State> {
    (0..=v.len()).map(|n| seq_state(v[..n].iter())).collect()
}

impl Coll for OList {
    const NAME: &'static str = "list";
    const HAS_MODES: bool = false;
    type Ref = Vec<u16>;
    type Op = ListOp;
    type Sub = ListSubscription<u16>;
    type Mirror = MirroredList<u16>;
    type Event = ListEvent<u16>;
    type Plain = Vec<u16>;

    fn draw_initial(_o: &GenOpts) -> Vec<u16> {
        draw_seq_initial()
    }
    fn draw_op(_r: &Vec<u16>, _o: &GenOpts) -> ListOp {
        if kit::coin(1, 4) { ListOp::Extend((0..kit::draw(5)).map(|_| draw_val()).collect()) } else { ListOp::Push(draw_val()) }
    }
    fn op_probe(op: &ListOp) -> &'static str {
        match op {
            ListOp::Push(_) => "list.push",
            ListOp::Extend(_) => "list.extend",
        }
    }
    fn from_ref(r: &Vec<u16>) -> Self {
        ObservableList::from(r.clone())
    }
    fn apply(&mut self, r: &mut Vec<u16>, op: &ListOp, emit: &mut dyn FnMut(State)) {
        match op {
            ListOp::Push(v) => {
                self.push(*v);
                r.push(*v);
                emit(seq_state(r.iter()));
            }
            ListOp::Extend(vs) => {
                self.extend(vs.iter().copied());
                for v in vs {
                    r.push(*v);
                    emit(seq_state(r.iter()));
                }
            }
        }
    }
    fn ref_state(r: &Vec<u16>) -> State {
        seq_state(r.iter())
    }
    /// A list subscriber receives the list from its first element: all prefixes are states.
    fn initial_history(r: &Vec<u16>) -> Vec<State> {
        prefixes(r)
    }
    async fn obs_state(&self) -> State {
        let b = ObservableList::borrow(self).await;
        seq_state(b.iter())
    }
    fn fmt_state(s: &State) -> String {
        fmt_seq(s)
    }
    fn is_partial(part: &State, snapshot: &State) -> bool {
        is_prefix(part, snapshot)
    }
    fn subscribe(&self, _incremental: bool, _buffer: usize) -> Self::Sub {
        ObservableList::subscribe(self)
    }
    fn mark_done(&mut self) {
        self.done()
    }
    fn mirror(sub: Self::Sub, max_size: usize) -> Self::Mirror {
        sub.mirror(max_size)
    }
    async fn borrow(m: &Self::Mirror) -> Result<View, RecvError> {
        let v = m.borrow().await?;
        Ok(View { state: seq_state(v.iter()), complete: v.is_complete(), done: v.is_done() })
    }
    async fn borrow_and_update(m: &mut Self::Mirror) -> Result<View, RecvError> {
        let v = m.borrow_and_update().await?;
        Ok(View { state: seq_state(v.iter()), complete: v.is_complete(), done: v.is_done() })
    }
    async fn detach(m: Self::Mirror) -> State {
        seq_state(m.detach().await.iter())
    }
    async fn resubscribe(_m: &Self::Mirror, _incremental: bool, _buffer: usize) -> Option<Result<Self::Sub, RecvError>> {
        None
    }
    fn take_initial(_sub: &mut Self::Sub) -> Option<Vec<u16>> {
        None
    }
    async fn recv(sub: &mut Self::Sub) -> Result<Option<Self::Event>, RecvError> {
        sub.recv().await
    }
    fn apply_event(p: &mut Vec<u16>, ev: ListEvent<u16>) -> Result<EvClass, String> {
        match ev {
            ListEvent::InitialComplete => Ok(EvClass::InitialComplete),
            ListEvent::Done => Ok(EvClass::Done),
            ListEvent::Push(v) => {
                p.push(v);
                Ok(EvClass::Change)
            }
        }
    }
    fn plain_state(p: &Vec<u16>) -> State {
        seq_state(p.iter())
    }
}
