//! C10 — every port-open request resolves exactly once and pairs the right ports.
//!
//! Client actors on one endpoint issue `connect`, `connect_ext(wait | no-wait, PortReq ids)` and
//! cancelled connects; a listener actor on the other endpoint answers through `accept`, or
//! `inspect` followed by accept / accept_from / reject(no_ports) / drop, also with cancelled accept
//! futures. Small `max_ports` and `connect_queue` drive every exhaustion path.

use std::{
    collections::BTreeMap,
    sync::{Arc, Mutex},
    time::Duration,
};

use bytes::Bytes;
use futures::FutureExt;
use remoc::chmux::{self, ConnectError, ListenerError, PortReq, PortsExhausted};
use serde_json::json;

use crate::{
    harness::{Check, Scenario, ScenarioFuture},
    kit,
    mux::{self, CfgProfile},
    net::LinkCfg,
    proto::MonitorMode,
    props::{REAL_CHMUX, STUB_NET},
};

#[derive(Clone, Copy, Debug, PartialEq, Eq)]
enum Decision {
    /// `Request::accept` / `Listener::accept`.
    Accept,
    /// `Request::accept_from` with a port allocated by the listener actor.
    AcceptFrom,
    Reject,
    RejectNoPorts,
    Drop,
    /// Accept attempted on a no-wait request while no local port was free.
    AcceptedButNoPorts,
}

#[derive(Clone, Debug)]
enum ClientOp {
    /// `connect_ext(Some(PortReq with id), wait)`; the future may be cancelled after k polls.
    Connect { label: u32, wait: bool, cancel: Option<u32>, await_sent: bool },
    /// `client.connect()` (default policy, no id: label travels as first message).
    PlainConnect { label: u32 },
    Pause(u32),
}

#[derive(Default)]
struct Book {
    /// What the listener side did with the request carrying this id.
    decisions: BTreeMap<u32, Decision>,
    /// Outcome seen by the client for each label.
    outcomes: BTreeMap<u32, String>,
    /// Requests still waiting for an answer (label -> description).
    pending: BTreeMap<u32, String>,
    /// Echo results: label -> what came back.
    echoes: BTreeMap<u32, Vec<u8>>,
    sent_before_marker: Vec<u32>,
    seen_at_marker: Vec<(u32, bool)>,
    /// Listener accepts that were cancelled: each may have dropped a connection that was already accepted.
    cancelled_accepts: usize,
    /// Wait flag of each labelled request.
    req_wait: BTreeMap<u32, bool>,
    /// Decisions on requests without a caller-chosen id (their id is a reusable port number).
    anonymous: Vec<Decision>,
}

fn label_msg(label: u32, from_server: bool) -> Vec<u8> {
    let mut v = vec![if from_server { b'S' } else { b'C' }];
    v.extend_from_slice(&label.to_le_bytes());
    v
}

/// After a successful open: the client sends its label, the server answers with the label it knows
/// for this request; both directions must arrive on exactly this pair.
async fn client_echo(label: u32, mut tx: chmux::Sender, mut rx: chmux::Receiver, book: Arc<Mutex<Book>>) {
    let _ = tx.send(Bytes::from(label_msg(label, false))).await;
    match rx.recv().await {
        Ok(Some(d)) => {
            book.lock().unwrap().echoes.insert(label, Vec::from(d));
        }
        other => {
            book.lock().unwrap().echoes.insert(label, format!("no echo: {other:?}").into_bytes());
        }
    }
    kit::activity();
    // Keep the port a little, then close it so that ports are recycled.
    tokio::time::sleep(Duration::from_micros(kit::pick(&[0u64, 500, 20_000]))).await;
}

async fn server_echo(known_label: Option<u32>, mut tx: chmux::Sender, mut rx: chmux::Receiver) {
    if let Ok(Some(d)) = rx.recv().await {
        let d = Vec::from(d);
        // Echo: server tag + label the server believes this port belongs to (from the request id),
        // or the label received when the request carried no id.
        let label = known_label.unwrap_or_else(|| u32::from_le_bytes(d.get(1..5).and_then(|b| b.try_into().ok()).unwrap_or([0xff; 4])));
        let mut reply = label_msg(label, true);
        reply.extend_from_slice(&d);
        let _ = tx.send(Bytes::from(reply)).await;
    }
    kit::activity();
    // Wait for the client to close, then drop.
    let _ = rx.recv().await;
}

fn expect_for(decision: Decision) -> &'static str {
    match decision {
        Decision::Accept | Decision::AcceptFrom => "ok",
        Decision::Reject | Decision::Drop => "rejected",
        Decision::RejectNoPorts | Decision::AcceptedButNoPorts => "remote-ports-exhausted",
    }
}

fn outcome_name(e: &ConnectError) -> &'static str {
    match e {
        ConnectError::LocalPortsExhausted => "local-ports-exhausted",
        ConnectError::RemotePortsExhausted => "remote-ports-exhausted",
        ConnectError::TooManyPendingConnectionRequests => "too-many-pending",
        ConnectError::Rejected => "rejected",
        ConnectError::ChMux => "chmux",
    }
}

async fn run(policy_clause: bool) {
    kit::draw_sched_policy();
    // Port numbers stay below 64 so that they can never be mistaken for request labels (>= 1000).
    kit::set_port_space(if kit::coin(1, 2) { 64 } else { 32 });
    let mut cfg_a = mux::draw_cfg(CfgProfile::Tiny);
    let mut cfg_b = mux::draw_cfg(CfgProfile::Tiny);
    for c in [&mut cfg_a, &mut cfg_b] {
        c.max_ports = kit::pick(&[2u32, 3, 4, 8]);
        c.connect_queue = kit::pick(&[1u16, 2, 4]);
        c.receive_buffer = c.receive_buffer.max(16);
        c.max_data_size = c.max_data_size.max(64);
        c.connection_timeout = None;
    }
    let policy = kit::pick(&[PortsExhausted::Wait(None), PortsExhausted::Fail, PortsExhausted::Wait(Some(Duration::from_secs(5)))]);
    cfg_a.ports_exhausted = policy;
    let link_cfg = LinkCfg::draw();
    let (a, b, ctl) = match mux::connect_pair("AB", cfg_a.clone(), cfg_b.clone(), link_cfg, MonitorMode::Full).await {
        Ok(v) => v,
        Err(e) => return kit::abort_run(e),
    };
    let mux::Endpoint { client: client_a, listener: listener_a, run: run_a, .. } = a;
    let mux::Endpoint { client: client_b, listener: mut listener_b, run: run_b, .. } = b;
    let book = Arc::new(Mutex::new(Book::default()));

    // ---- plan ----
    // Listener::accept() does not reveal request ids, so the `sent()` clause (which needs to know
    // whether a given request was obtained) is only exercised in runs whose listener uses inspect().
    let plain_accept = kit::coin(1, 2);
    let nclients = kit::draw_range(1, 3);
    let mut plans: Vec<Vec<ClientOp>> = Vec::new();
    let mut label = 1000u32;
    for _ in 0..nclients {
        let n = kit::draw_range(1, 5);
        let mut ops = Vec::new();
        for _ in 0..n {
            label += 1;
            ops.push(match kit::draw(8) {
                0 => ClientOp::PlainConnect { label },
                1 => ClientOp::Pause(kit::pick(&[10u32, 2000, 50_000])),
                2 => ClientOp::Connect { label, wait: true, cancel: Some(kit::draw_range(0, 6)), await_sent: false },
                3 | 4 => ClientOp::Connect { label, wait: false, cancel: None, await_sent: !plain_accept && kit::coin(1, 3) },
                _ => ClientOp::Connect { label, wait: true, cancel: None, await_sent: !plain_accept && kit::coin(1, 3) },
            });
        }
        plans.push(ops);
    }
    kit::mix_plan(kit::hash_str(&format!("{plans:?}")));
    kit::set_sample(json!({"cfg_a": format!("{cfg_a:?}"), "cfg_b": format!("{cfg_b:?}"), "link": format!("{link_cfg:?}"),
        "clients": plans.iter().map(|p| p.iter().map(|o| format!("{o:?}")).collect::<Vec<_>>()).collect::<Vec<_>>() }));

    // A marker port for the `sent()` clause: data sent after `sent()` resolved must not overtake the request.
    let ((marker_tx, _mrx_a), (_mtx_b, mut marker_rx)) = match mux::open_port(&client_a, &mut listener_b).await {
        Ok(v) => v,
        Err(e) => return kit::abort_run(e),
    };
    let marker_tx_shared = Arc::new(tokio::sync::Mutex::new(marker_tx));

    // ---- listener actor on B ----
    let book_l = book.clone();
    let (marker_seen_tx, mut marker_seen_rx) = tokio::sync::mpsc::unbounded_channel::<u32>();
    let alloc_b = listener_b.port_allocator();
    let book_c = book.clone();
    let listener_task = kit::spawn(async move {
        let mut servers = Vec::new();
        enum Ev {
            Marker(u32),
            Cancelled,
            Accepted(chmux::Sender, chmux::Receiver),
            Request(chmux::Request),
            End(&'static str),
        }
        let mut backlog: Vec<chmux::Request> = Vec::new();
        loop {
            let ev = if let Some(req) = backlog.pop() {
                Ev::Request(req)
            } else {
                let mode = if plain_accept { kit::draw(4) } else { 1 };
                let cancel = if kit::coin(1, 4) { Some(kit::draw_range(0, 4)) } else { None };
                let fut = async {
                    if mode == 0 {
                        // Plain accept, sometimes cancelled part-way.
                        let r = match cancel {
                            Some(k) => match kit::cancel_after(listener_b.accept(), k).await {
                                Some(r) => r,
                                None => {
                                    kit::fault_fired("cancel_accept");
                                    book_c.lock().unwrap().cancelled_accepts += 1;
                                    return Ev::Cancelled;
                                }
                            },
                            None => listener_b.accept().await,
                        };
                        match r {
                            Ok(Some((tx, rx))) => Ev::Accepted(tx, rx),
                            Ok(None) => Ev::End("clients-dropped"),
                            Err(ListenerError::LocalPortsExhausted) => Ev::Cancelled,
                            Err(ListenerError::MultiplexerError) => Ev::End("mux-error"),
                        }
                    } else {
                        match listener_b.inspect().await {
                            Ok(Some(req)) => Ev::Request(req),
                            Ok(None) => Ev::End("clients-dropped"),
                            Err(_) => Ev::End("mux-error"),
                        }
                    }
                };
                let ev = tokio::select! {
                    biased;
                    Some(label) = marker_seen_rx.recv() => Ev::Marker(label),
                    ev = fut => ev,
                };
                if mode == 0 && matches!(ev, Ev::Marker(_)) {
                    // The accept in progress was dropped by the select: same as a cancelled accept.
                    book_c.lock().unwrap().cancelled_accepts += 1;
                }
                ev
            };
            let req = match ev {
                Ev::Cancelled => continue,
                Ev::End(_) => break,
                Ev::Accepted(tx, rx) => {
                    // Accepted directly; the label arrives as the first message.
                    kit::probe("listener_accept");
                    servers.push(kit::spawn(server_echo(None, tx, rx)));
                    continue;
                }
                Ev::Marker(label) => {
                    // A message sent after Connect::sent() resolved has arrived: the request must be
                    // obtainable now (or have been obtained before). Poll the listener without waiting.
                    let mut seen = book_l.lock().unwrap().decisions.contains_key(&label);
                    while !seen {
                        match listener_b.inspect().now_or_never() {
                            Some(Ok(Some(req))) => {
                                seen = req.id() == label;
                                backlog.insert(0, req);
                            }
                            _ => break,
                        }
                    }
                    book_l.lock().unwrap().seen_at_marker.push((label, seen));
                    continue;
                }
                Ev::Request(req) => req,
            };
            let id = req.id();
            let wait = req.is_wait();
            // Requests of the default connect() carry their port number as id, not a label.
            let known = if id >= 1000 { Some(id) } else { None };
            let decision = match kit::draw(6) {
                0 | 1 => {
                    // accept(): for no-wait requests this rejects with no_ports when exhausted.
                    match req.accept().await {
                        Ok((tx, rx)) => {
                            servers.push(kit::spawn(server_echo(known, tx, rx)));
                            Decision::Accept
                        }
                        Err(ListenerError::LocalPortsExhausted) if !wait => Decision::AcceptedButNoPorts,
                        Err(_) => break,
                    }
                }
                2 => match alloc_b.try_allocate() {
                    Some(port) => match req.accept_from(port).await {
                        Ok((tx, rx)) => {
                            servers.push(kit::spawn(server_echo(known, tx, rx)));
                            Decision::AcceptFrom
                        }
                        Err(_) => break,
                    },
                    None => {
                        req.reject(true).await;
                        Decision::RejectNoPorts
                    }
                },
                3 => {
                    req.reject(false).await;
                    Decision::Reject
                }
                4 => {
                    req.reject(true).await;
                    Decision::RejectNoPorts
                }
                _ => {
                    drop(req);
                    Decision::Drop
                }
            };
            kit::activity();
            if known.is_some() {
                book_l.lock().unwrap().decisions.insert(id, decision);
            } else {
                book_l.lock().unwrap().anonymous.push(decision);
            }
        }
    });

    // Marker receiver on B: forwards marker labels to the listener actor.
    let marker_task = kit::spawn(async move {
        while let Ok(Some(d)) = marker_rx.recv().await {
            let d = Vec::from(d);
            if d.len() >= 4 {
                let _ = marker_seen_tx.send(u32::from_le_bytes(d[..4].try_into().unwrap()));
            }
        }
    });

    // ---- client actors on A ----
    let mut client_tasks = Vec::new();
    let mut echo_tasks = Vec::new();
    for ops in plans.clone() {
        let client = client_a.clone();
        let book = book.clone();
        let marker_tx = marker_tx_shared.clone();
        client_tasks.push(kit::spawn(async move {
            let mut echoes = Vec::new();
            for op in ops {
                match op {
                    ClientOp::Pause(us) => tokio::time::sleep(Duration::from_micros(us as u64)).await,
                    ClientOp::PlainConnect { label } => {
                        book.lock().unwrap().pending.insert(label, "connect()".into());
                        // Under PortsExhausted::Fail the default connect is a no-wait request.
                        book.lock().unwrap().req_wait.insert(label, !matches!(policy, PortsExhausted::Fail));
                        let r = client.connect().await;
                        book.lock().unwrap().pending.remove(&label);
                        match r {
                            Ok((tx, rx)) => {
                                book.lock().unwrap().outcomes.insert(label, "ok".into());
                                echoes.push(kit::spawn(client_echo(label, tx, rx, book.clone())));
                            }
                            Err(e) => {
                                book.lock().unwrap().outcomes.insert(label, outcome_name(&e).into());
                            }
                        }
                    }
                    ClientOp::Connect { label, wait, cancel, await_sent } => {
                        let Some(port) = client.port_allocator().try_allocate() else {
                            kit::probe("client_no_local_port");
                            book.lock().unwrap().outcomes.insert(label, "skipped".into());
                            continue;
                        };
                        let req = PortReq::new(port).with_id(label);
                        book.lock().unwrap().pending.insert(label, format!("connect_ext(wait={wait})"));
                        book.lock().unwrap().req_wait.insert(label, wait);
                        let connect = match cancel {
                            Some(k) => match kit::cancel_after(client.connect_ext(Some(req), wait), k).await {
                                Some(c) => c,
                                None => {
                                    kit::fault_fired("cancel_connect_ext");
                                    book.lock().unwrap().pending.remove(&label);
                                    book.lock().unwrap().outcomes.insert(label, "cancelled".into());
                                    continue;
                                }
                            },
                            None => client.connect_ext(Some(req), wait).await,
                        };
                        let mut connect = match connect {
                            Ok(c) => c,
                            Err(e) => {
                                book.lock().unwrap().pending.remove(&label);
                                book.lock().unwrap().outcomes.insert(label, outcome_name(&e).into());
                                continue;
                            }
                        };
                        if await_sent {
                            connect.sent().await;
                            book.lock().unwrap().sent_before_marker.push(label);
                            let _ = marker_tx.lock().await.send(Bytes::from(label.to_le_bytes().to_vec())).await;
                            kit::probe("sent_then_marker");
                        }
                        let r = match cancel {
                            Some(k) => match kit::cancel_after(connect, k + 1).await {
                                Some(r) => r,
                                None => {
                                    kit::fault_fired("cancel_connect_response");
                                    book.lock().unwrap().pending.remove(&label);
                                    book.lock().unwrap().outcomes.insert(label, "cancelled".into());
                                    continue;
                                }
                            },
                            None => connect.await,
                        };
                        book.lock().unwrap().pending.remove(&label);
                        match r {
                            Ok((tx, rx)) => {
                                book.lock().unwrap().outcomes.insert(label, "ok".into());
                                echoes.push(kit::spawn(client_echo(label, tx, rx, book.clone())));
                            }
                            Err(e) => {
                                book.lock().unwrap().outcomes.insert(label, outcome_name(&e).into());
                            }
                        }
                    }
                }
                kit::activity();
            }
            echoes
        }));
    }

    kit::settle().await;
    if kit::is_aborted() {
        return;
    }

    // ---- oracle ----
    {
        let bk = book.lock().unwrap();
        // (1) every request resolved (a connect with wait may legitimately wait for a remote port
        // only while the listener has not answered: the listener actor answers everything it sees).
        for (label, what) in &bk.pending {
            kit::class_violation(
                "c10",
                "request-unresolved",
                "c10:request-unresolved",
                format!("request {label} ({what}) still pending at quiescence; listener decisions {:?}", bk.decisions),
            );
            return;
        }
        // (2) outcome matches what the listener did.
        let mut anonymous: Vec<Decision> = bk.anonymous.clone();
        // Each cancelled accept may account for one request it had already taken (dropped or accepted-and-dropped).
        let mut cancelled_accepts = bk.cancelled_accepts;
        for (label, outcome) in &bk.outcomes {
            if matches!(outcome.as_str(), "skipped" | "cancelled") {
                continue;
            }
            match bk.decisions.get(label) {
                Some(d) => {
                    let want = expect_for(*d);
                    if outcome != want {
                        kit::class_violation(
                            "c10",
                            "wrong-outcome",
                            format!("c10:wrong-outcome:{want}->{outcome}"),
                            format!("request {label}: listener side did {d:?} (expected client outcome `{want}`) but the client observed `{outcome}`"),
                        );
                        return;
                    }
                    kit::probe(match *d {
                        Decision::Accept | Decision::AcceptFrom => "resolved_accepted",
                        Decision::Reject => "resolved_rejected",
                        Decision::Drop => "resolved_dropped",
                        Decision::RejectNoPorts | Decision::AcceptedButNoPorts => "resolved_no_ports",
                    });
                }
                None => {
                    // No decision is recorded under this label: either the request was refused locally,
                    // or it is a default `connect()` whose request carries no caller-chosen id (the
                    // listener then sees the port number as id). The latter are matched by kind.
                    let local = matches!(outcome.as_str(), "local-ports-exhausted" | "too-many-pending");
                    if local {
                        kit::probe("refused_locally");
                    } else if outcome == "remote-ports-exhausted" && plain_accept && bk.req_wait.get(label) == Some(&false) {
                        // Listener::accept() itself refuses a no-wait request when no local port is free.
                        kit::probe("refused_by_listener_accept_no_ports");
                    } else if outcome != "ok" {
                        let slot = anonymous.iter().position(|d| expect_for(*d) == outcome.as_str());
                        match slot {
                            Some(i) => {
                                anonymous.remove(i);
                            }
                            None if outcome == "rejected" && cancelled_accepts > 0 => {
                                // A cancelled Listener::accept may have taken the request from the
                                // queue already; dropping it rejects the request.
                                cancelled_accepts -= 1;
                                kit::probe("request_dropped_by_cancelled_accept");
                            }
                            None => {
                                kit::class_violation(
                                    "c10",
                                    "wrong-outcome",
                                    format!("c10:wrong-outcome:unexplained-{outcome}"),
                                    format!("request {label}: client observed `{outcome}` but the listener side never did that to any request (decisions {:?})", bk.decisions),
                                );
                                return;
                            }
                        }
                    }
                }
            }
        }
        // (3) pairing: every opened pair echoed its own label.
        for (label, outcome) in &bk.outcomes {
            if outcome != "ok" {
                continue;
            }
            let Some(echo) = bk.echoes.get(label) else {
                kit::class_violation("c10", "pair-not-connected", "c10:pair-not-connected", format!("request {label}: accepted but no echo arrived at quiescence"));
                return;
            };
            let mut want = label_msg(*label, true);
            want.extend_from_slice(&label_msg(*label, false));
            if echo.starts_with(b"no echo: Ok(None)") && cancelled_accepts > 0 {
                // A cancelled Listener::accept may drop a connection it had already accepted:
                // the client then sees the port opened and closed again at once.
                cancelled_accepts -= 1;
                kit::probe("accepted_then_dropped_by_cancelled_accept");
                continue;
            }
            if *echo != want {
                kit::class_violation(
                    "c10",
                    "wrong-pairing",
                    "c10:wrong-pairing",
                    format!("request {label}: echo {:02x?} / {:?} does not carry the request's own label on both legs", echo, String::from_utf8_lossy(echo)),
                );
                return;
            }
            kit::probe("pair_echo_ok");
        }
        // (4) a request reported as sent is visible to the listener before later data arrives.
        for (label, seen) in &bk.seen_at_marker {
            if !*seen {
                kit::class_violation(
                    "c10",
                    "sent-request-not-visible",
                    "c10:sent-request-not-visible",
                    format!("request {label}: Connect::sent() resolved and a message sent afterwards arrived, but the request was not obtainable from the listener"),
                );
                return;
            }
            kit::probe("sent_request_visible");
        }
        if bk.outcomes.len() >= 2 {
            kit::set_nontrivial();
        }
    }

    // ---- exhaustion policy clause (Cfg::ports_exhausted) ----
    if policy_clause {
        // Take every free local port of A, then call the default `connect()`.
        let alloc = client_a.port_allocator();
        let mut hold = Vec::new();
        while let Some(p) = alloc.try_allocate() {
            hold.push(p);
        }
        let fut = client_a.connect();
        let started = tokio::time::Instant::now();
        let res = tokio::time::timeout(Duration::from_secs(30), fut).await;
        let waited = started.elapsed();
        match (policy, res) {
            (PortsExhausted::Fail, Ok(Err(ConnectError::LocalPortsExhausted))) if waited < Duration::from_millis(1) => kit::probe("policy_fail_ok"),
            (PortsExhausted::Wait(Some(d)), Ok(Err(ConnectError::LocalPortsExhausted))) if waited <= d + Duration::from_millis(100) && waited >= d => {
                kit::probe("policy_wait_timeout_ok")
            }
            (PortsExhausted::Wait(None), Err(_)) => kit::probe("policy_wait_forever_ok"),
            (p, r) => {
                let got = match &r {
                    Ok(Ok(_)) => "connected".to_string(),
                    Ok(Err(e)) => format!("error {e} after {waited:?}"),
                    Err(_) => "still waiting after 30 s".to_string(),
                };
                kit::class_violation(
                    "c10",
                    "exhaustion-policy-ignored",
                    "c10:cfg.ports_exhausted-ignored",
                    format!("Cfg::ports_exhausted = {p:?}, all {} local ports in use, default connect(): {got}", cfg_a.max_ports),
                );
                return;
            }
        }
        drop(hold);
    }

    // ---- orderly end ----
    for t in client_tasks {
        if let Ok(e) = t.await {
            echo_tasks.extend(e);
        }
    }
    drop(marker_tx_shared);
    drop(client_a);
    drop(client_b);
    drop(listener_a);
    kit::settle().await;
    for t in echo_tasks {
        t.abort();
    }
    listener_task.abort();
    marker_task.abort();
    let _ = (run_a, run_b, ctl);
}

fn sc_requests() -> ScenarioFuture {
    Box::pin(run(false))
}

fn sc_policy() -> ScenarioFuture {
    Box::pin(run(true))
}

pub fn checks() -> Vec<Check> {
    vec![Check {
        id: "C10",
        level: "exploration",
        classes: vec!["c10", "openq"],
        scenarios: vec![
            Scenario { name: "requests", weight: 4, max_polls: 400_000, max_virtual_secs: 48 * 3600, run: sc_requests },
            Scenario { name: "requests+exhaustion-policy", weight: 1, max_polls: 400_000, max_virtual_secs: 48 * 3600, run: sc_policy },
        ],
        quick: (300_000, 50),
        thorough: (10_000_000, 600),
        rule: "each evaluation is one seeded run: 1-3 client actors with up to 5 port-open requests each (default connect, connect_ext wait/no-wait with PortReq ids, \
cancelled connects, Connect::sent followed by a marker message), a listener actor drawing accept / inspect+accept / accept_from / reject / reject(no_ports) / drop per request \
(also cancelled accepts), max_ports 2-8, connect_queue 1-4; non-trivial = at least two requests resolved; distinct = distinct (plan hash, poll-order hash)",
        assumptions: vec![
            "the listener's decision per request is recorded by request id; the client outcome must match it",
            "unanswered-request bound (connect queue) is checked by the wire monitor on every OpenPort frame",
        ],
        required_probes: vec!["resolved_accepted", "resolved_rejected", "resolved_dropped", "resolved_no_ports", "refused_locally", "pair_echo_ok", "sent_request_visible", "connect_queue_full"],
        real_components: REAL_CHMUX,
        stub_components: STUB_NET,
    }]
}
