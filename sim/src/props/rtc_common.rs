//! Shared machinery of the remote-call checks C12 and C19: remotable traits, the served objects with
//! their execution log, client-side call histories, the oracles (exactly-once, exclusivity of `&mut`
//! executions, a Wing–Gong style linearizability checker) and server start-up for every server flavour.

use std::{
    collections::BTreeSet,
    future::Future,
    pin::Pin,
    sync::{Arc, Mutex},
    task::{Context, Poll},
    time::Duration,
};

use remoc::{
    RemoteSend,
    chmux::Cfg,
    rch::base,
    rfn::{RFn, RFnMut, RFnOnce},
    rtc::{CallError, OnReqReceiveError},
};
use serde::{Deserialize, Deserializer, Serialize, Serializer, de};
use tokio::task::JoinHandle;

use crate::{
    kit,
    mux::{self, ConnResult},
    net::{self, LinkCfg, LinkCtl},
    proto::MonitorMode,
};

// ------------------------------------------------------------------------------------------
// Argument whose deserialization can be made to fail
// ------------------------------------------------------------------------------------------

/// Serializes fine; deserialization fails when `bad` is set (after consuming the whole value).
#[derive(Clone, Debug, PartialEq)]
pub struct Poison {
    pub bad: bool,
    pub pad: Vec<u8>,
}

impl Serialize for Poison {
    fn serialize<S: Serializer>(&self, s: S) -> Result<S::Ok, S::Error> {
        (self.bad, &self.pad).serialize(s)
    }
}

impl<'de> Deserialize<'de> for Poison {
    fn deserialize<D: Deserializer<'de>>(d: D) -> Result<Self, D::Error> {
        let (bad, pad) = <(bool, Vec<u8>)>::deserialize(d)?;
        if bad {
            return Err(de::Error::custom("injected deserialization failure of a call argument"));
        }
        Ok(Poison { bad, pad })
    }
}

// ------------------------------------------------------------------------------------------
// Remotable traits
// ------------------------------------------------------------------------------------------

/// The trait version the server knows.
pub mod v1 {
    use super::Poison;
    use remoc::rtc::CallError;

    #[remoc::rtc::remote(clone)]
    pub trait Svc: Send + Sync {
        async fn get(&self, id: u32) -> Result<i64, CallError>;
        async fn slow_get(&self, id: u32, wait_us: u32) -> Result<i64, CallError>;
        async fn blob(&self, size: u32, id: u32) -> Result<Vec<u8>, CallError>;
        async fn add(&mut self, x: i64, id: u32) -> Result<i64, CallError>;
        async fn slow_add(&mut self, x: i64, id: u32, wait_us: u32) -> Result<i64, CallError>;
        async fn long(&mut self, x: i64, id: u32) -> Result<i64, CallError>;
        #[no_cancel]
        async fn long_nc(&mut self, x: i64, id: u32) -> Result<i64, CallError>;
        async fn eat(&mut self, food: Poison, id: u32) -> Result<i64, CallError>;
        /// Default-bodied method (doubles the counter through the trait's own methods); the served
        /// object overrides it, as an implementor may. A call must reach the served object as ONE request.
        async fn double_it(&mut self, id: u32) -> Result<i64, CallError> {
            let v = self.get(id | (1 << 30)).await?;
            self.add(v, id | (1 << 31)).await
        }
    }
}

/// A newer version of the same trait: the client knows two methods the server has never heard of.
pub mod v2 {
    use super::Poison;
    use remoc::rtc::CallError;

    #[remoc::rtc::remote(clone)]
    pub trait Svc: Send + Sync {
        async fn get(&self, id: u32) -> Result<i64, CallError>;
        async fn slow_get(&self, id: u32, wait_us: u32) -> Result<i64, CallError>;
        async fn blob(&self, size: u32, id: u32) -> Result<Vec<u8>, CallError>;
        async fn add(&mut self, x: i64, id: u32) -> Result<i64, CallError>;
        async fn slow_add(&mut self, x: i64, id: u32, wait_us: u32) -> Result<i64, CallError>;
        async fn long(&mut self, x: i64, id: u32) -> Result<i64, CallError>;
        #[no_cancel]
        async fn long_nc(&mut self, x: i64, id: u32) -> Result<i64, CallError>;
        async fn eat(&mut self, food: Poison, id: u32) -> Result<i64, CallError>;
        /// Default-bodied method (doubles the counter through the trait's own methods); the served
        /// object overrides it, as an implementor may. A call must reach the served object as ONE request.
        async fn double_it(&mut self, id: u32) -> Result<i64, CallError> {
            let v = self.get(id | (1 << 30)).await?;
            self.add(v, id | (1 << 31)).await
        }
        async fn extra(&mut self, x: i64, id: u32) -> Result<i64, CallError>;
        async fn extra_ref(&self, id: u32) -> Result<i64, CallError>;
    }
}

/// Trait with a by-value method (client not clonable, only the by-value server exists).
#[remoc::rtc::remote]
pub trait SvcV {
    async fn get(&self, id: u32) -> Result<i64, CallError>;
    async fn add(&mut self, x: i64, id: u32) -> Result<i64, CallError>;
    async fn slow_add(&mut self, x: i64, id: u32, wait_us: u32) -> Result<i64, CallError>;
    async fn take(self, id: u32) -> Result<i64, CallError>;
}

/// Trait with `&self` methods only (ServerShared / ServerRef); the object uses interior mutability.
#[remoc::rtc::remote]
pub trait Ro {
    async fn get(&self, id: u32) -> Result<i64, CallError>;
    async fn add(&self, x: i64, id: u32) -> Result<i64, CallError>;
    async fn slow_add(&self, x: i64, id: u32, wait_us: u32) -> Result<i64, CallError>;
}

pub use v1::Svc as _;

// ------------------------------------------------------------------------------------------
// Execution log of the served object
// ------------------------------------------------------------------------------------------

#[derive(Clone, Debug)]
pub struct ExecRec {
    pub id: u32,
    pub method: &'static str,
    pub arg: i64,
    /// The method takes the target by `&mut` or by value.
    pub exclusive: bool,
    pub start: u64,
    pub end: Option<u64>,
    /// The method body ran to its end (false with `end` set: the execution was dropped).
    pub completed: bool,
    /// The state change of the method took place.
    pub applied: bool,
    pub result: Option<i64>,
    pub at_gate: bool,
    pub gate_pass: Option<u64>,
}

pub struct ObjShared {
    pub log: Mutex<Vec<ExecRec>>,
    pub gate: tokio::sync::watch::Receiver<u64>,
}

impl ObjShared {
    pub fn new() -> (Arc<Self>, tokio::sync::watch::Sender<u64>) {
        let (tx, rx) = tokio::sync::watch::channel(0u64);
        (Arc::new(Self { log: Mutex::new(Vec::new()), gate: rx }), tx)
    }

    pub fn snapshot(&self) -> Vec<ExecRec> {
        self.log.lock().unwrap().clone()
    }

    fn begin(self: &Arc<Self>, id: u32, method: &'static str, arg: i64, exclusive: bool) -> ExecGuard {
        kit::activity();
        let start = kit::seq();
        let mut log = self.log.lock().unwrap();
        log.push(ExecRec {
            id,
            method,
            arg,
            exclusive,
            start,
            end: None,
            completed: false,
            applied: false,
            result: None,
            at_gate: false,
            gate_pass: None,
        });
        ExecGuard { sh: self.clone(), idx: log.len() - 1 }
    }
}

pub struct ExecGuard {
    sh: Arc<ObjShared>,
    idx: usize,
}

impl ExecGuard {
    fn with(&self, f: impl FnOnce(&mut ExecRec)) {
        let mut log = self.sh.log.lock().unwrap();
        f(&mut log[self.idx]);
    }

    fn applied(&self) {
        self.with(|r| r.applied = true);
    }

    fn finish(&self, result: i64) {
        kit::activity();
        let end = kit::seq();
        self.with(|r| {
            r.end = Some(end);
            r.completed = true;
            r.result = Some(result);
            r.at_gate = false;
        });
    }

    /// Waits until the harness bumps the gate after this execution arrived at it.
    async fn wait_gate(&self) {
        let mut rx = self.sh.gate.clone();
        let epoch = *rx.borrow_and_update();
        self.with(|r| r.at_gate = true);
        kit::activity();
        kit::probe("exec_waits_at_gate");
        loop {
            if *rx.borrow_and_update() != epoch {
                break;
            }
            if rx.changed().await.is_err() {
                std::future::pending::<()>().await;
            }
        }
        let s = kit::seq();
        self.with(|r| {
            r.at_gate = false;
            r.gate_pass = Some(s);
        });
    }
}

impl Drop for ExecGuard {
    fn drop(&mut self) {
        let mut log = self.sh.log.lock().unwrap_or_else(|e| e.into_inner());
        let r = &mut log[self.idx];
        if r.end.is_none() {
            r.end = Some(kit::seq());
            r.at_gate = false;
            kit::activity();
        }
    }
}

pub fn blob_bytes(id: u32, size: u32) -> Vec<u8> {
    mux::payload(3, id, size as usize)
}

// ------------------------------------------------------------------------------------------
// The served counter (value held by the object itself; `&mut` methods are deliberately
// read-await-write so that any interleaving the server allowed would lose an update)
// ------------------------------------------------------------------------------------------

#[derive(Clone)]
pub struct Obj {
    pub value: i64,
    pub sh: Arc<ObjShared>,
}

impl Obj {
    pub fn new(value: i64, sh: Arc<ObjShared>) -> Self {
        Self { value, sh }
    }

    pub async fn do_get(&self, id: u32) -> i64 {
        let g = self.sh.begin(id, "get", 0, false);
        let v = self.value;
        g.finish(v);
        v
    }

    pub async fn do_slow_get(&self, id: u32, wait_us: u32) -> i64 {
        let g = self.sh.begin(id, "slow_get", 0, false);
        let v = self.value;
        tokio::time::sleep(Duration::from_micros(wait_us as u64)).await;
        // A torn read is reported through the result: the sequential specification cannot produce it.
        let v2 = self.value;
        let r = if v == v2 { v } else { -1_000_000 - v };
        g.finish(r);
        r
    }

    pub async fn do_blob(&self, size: u32, id: u32) -> Vec<u8> {
        let g = self.sh.begin(id, "blob", size as i64, false);
        let v = blob_bytes(id, size);
        g.finish(size as i64);
        v
    }

    pub async fn do_add(&mut self, x: i64, id: u32) -> i64 {
        let g = self.sh.begin(id, "add", x, true);
        self.value += x;
        g.applied();
        let v = self.value;
        g.finish(v);
        v
    }

    pub async fn do_slow_add(&mut self, x: i64, id: u32, wait_us: u32) -> i64 {
        let g = self.sh.begin(id, "slow_add", x, true);
        let v = self.value;
        tokio::time::sleep(Duration::from_micros(wait_us as u64)).await;
        self.value = v + x;
        g.applied();
        g.finish(v + x);
        v + x
    }

    pub async fn do_long(&mut self, x: i64, id: u32, method: &'static str) -> i64 {
        let g = self.sh.begin(id, method, x, true);
        let v = self.value;
        g.wait_gate().await;
        self.value = v + x;
        g.applied();
        g.finish(v + x);
        v + x
    }

    pub async fn do_eat(&mut self, food: Poison, id: u32) -> i64 {
        let x = food.pad.len() as i64;
        let g = self.sh.begin(id, "eat", x, true);
        self.value += x;
        g.applied();
        let v = self.value;
        g.finish(v);
        v
    }

    pub async fn do_double(&mut self, id: u32) -> i64 {
        let g = self.sh.begin(id, "double_it", 0, true);
        let v = self.value;
        self.value = 2 * v;
        g.applied();
        g.finish(2 * v);
        2 * v
    }

    pub async fn do_take(self, id: u32) -> i64 {
        let g = self.sh.begin(id, "take", 0, true);
        let v = self.value;
        g.applied();
        g.finish(v);
        v
    }
}

impl v1::Svc for Obj {
    async fn get(&self, id: u32) -> Result<i64, CallError> {
        Ok(self.do_get(id).await)
    }
    async fn slow_get(&self, id: u32, wait_us: u32) -> Result<i64, CallError> {
        Ok(self.do_slow_get(id, wait_us).await)
    }
    async fn blob(&self, size: u32, id: u32) -> Result<Vec<u8>, CallError> {
        Ok(self.do_blob(size, id).await)
    }
    async fn add(&mut self, x: i64, id: u32) -> Result<i64, CallError> {
        Ok(self.do_add(x, id).await)
    }
    async fn slow_add(&mut self, x: i64, id: u32, wait_us: u32) -> Result<i64, CallError> {
        Ok(self.do_slow_add(x, id, wait_us).await)
    }
    async fn long(&mut self, x: i64, id: u32) -> Result<i64, CallError> {
        Ok(self.do_long(x, id, "long").await)
    }
    async fn long_nc(&mut self, x: i64, id: u32) -> Result<i64, CallError> {
        Ok(self.do_long(x, id, "long_nc").await)
    }
    async fn double_it(&mut self, id: u32) -> Result<i64, CallError> {
        Ok(self.do_double(id).await)
    }
    async fn eat(&mut self, food: Poison, id: u32) -> Result<i64, CallError> {
        Ok(self.do_eat(food, id).await)
    }
}

impl SvcV for Obj {
    async fn get(&self, id: u32) -> Result<i64, CallError> {
        Ok(self.do_get(id).await)
    }
    async fn add(&mut self, x: i64, id: u32) -> Result<i64, CallError> {
        Ok(self.do_add(x, id).await)
    }
    async fn slow_add(&mut self, x: i64, id: u32, wait_us: u32) -> Result<i64, CallError> {
        Ok(self.do_slow_add(x, id, wait_us).await)
    }
    async fn take(self, id: u32) -> Result<i64, CallError> {
        Ok(self.do_take(id).await)
    }
}

/// Object for `&self`-only servers. With `atomic` every method runs under an async mutex (the object
/// itself provides atomicity, the server only has to keep requests and replies apart); without it
/// `slow_add` is a read-await-write sequence that concurrent executions interleave with.
pub struct RoObj {
    pub cell: Arc<Mutex<i64>>,
    pub txn: tokio::sync::Mutex<()>,
    pub atomic: bool,
    pub sh: Arc<ObjShared>,
}

pub const WAIT_AT_GATE: u32 = u32::MAX;

impl RoObj {
    pub fn new(value: i64, atomic: bool, sh: Arc<ObjShared>) -> Self {
        Self { cell: Arc::new(Mutex::new(value)), txn: tokio::sync::Mutex::new(()), atomic, sh }
    }
}

impl Ro for RoObj {
    async fn get(&self, id: u32) -> Result<i64, CallError> {
        let _t = if self.atomic { Some(self.txn.lock().await) } else { None };
        let g = self.sh.begin(id, "get", 0, false);
        let v = *self.cell.lock().unwrap();
        g.finish(v);
        Ok(v)
    }

    async fn add(&self, x: i64, id: u32) -> Result<i64, CallError> {
        let _t = if self.atomic { Some(self.txn.lock().await) } else { None };
        let g = self.sh.begin(id, "add", x, false);
        let v = {
            let mut c = self.cell.lock().unwrap();
            *c += x;
            *c
        };
        g.applied();
        g.finish(v);
        Ok(v)
    }

    async fn slow_add(&self, x: i64, id: u32, wait_us: u32) -> Result<i64, CallError> {
        let _t = if self.atomic { Some(self.txn.lock().await) } else { None };
        let g = self.sh.begin(id, "slow_add", x, false);
        let v = *self.cell.lock().unwrap();
        if wait_us == WAIT_AT_GATE {
            g.wait_gate().await;
        } else {
            tokio::time::sleep(Duration::from_micros(wait_us as u64)).await;
        }
        *self.cell.lock().unwrap() = v + x;
        g.applied();
        g.finish(v + x);
        Ok(v + x)
    }
}

// ------------------------------------------------------------------------------------------
// Remote functions
// ------------------------------------------------------------------------------------------

#[derive(Clone, Debug, Serialize, Deserialize)]
pub struct FnReq {
    pub id: u32,
    /// 0 = get, 1 = add.
    pub kind: u8,
    /// The operation is the `slow_` variant (only its name differs).
    pub slow: bool,
    pub x: i64,
    pub wait_us: u32,
}

pub type CounterFn = RFn<(FnReq,), i64>;
pub type CounterFnMut = RFnMut<(FnReq,), i64>;
pub type CounterFnOnce = RFnOnce<(FnReq,), i64>;

/// Shared-state function: runs concurrently, atomic through a mutex (no await inside the critical section).
pub fn make_rfn(init: i64, sh: Arc<ObjShared>) -> CounterFn {
    let cell = Arc::new(Mutex::new(init));
    RFn::new_1(move |req: FnReq| {
        let cell = cell.clone();
        let sh = sh.clone();
        async move {
            if req.wait_us > 0 {
                tokio::time::sleep(Duration::from_micros(req.wait_us as u64)).await;
            }
            apply_fn(&cell, &sh, &req, false)
        }
    })
}

fn fn_method(req: &FnReq) -> &'static str {
    match (req.kind, req.slow) {
        (0, false) => "get",
        (0, true) => "slow_get",
        (_, false) => "add",
        (_, true) => "slow_add",
    }
}

fn apply_fn(cell: &Mutex<i64>, sh: &Arc<ObjShared>, req: &FnReq, exclusive: bool) -> i64 {
    let g = sh.begin(req.id, fn_method(req), if req.kind == 0 { 0 } else { req.x }, exclusive);
    let v = {
        let mut c = cell.lock().unwrap();
        if req.kind != 0 {
            *c += req.x;
        }
        *c
    };
    if req.kind != 0 {
        g.applied();
    }
    g.finish(v);
    v
}

/// `FnMut` function: the state is owned by the closure, calls are executed one after the other.
pub fn make_rfn_mut(init: i64, sh: Arc<ObjShared>) -> CounterFnMut {
    let mut value = init;
    RFnMut::new_1(move |req: FnReq| {
        // Read-modify-write split over the call: the state change happens when the call starts,
        // the result is produced after an await.
        let g = sh.begin(req.id, fn_method(&req), if req.kind == 0 { 0 } else { req.x }, true);
        if req.kind != 0 {
            value += req.x;
            g.applied();
        }
        let v = value;
        async move {
            if req.wait_us > 0 {
                tokio::time::sleep(Duration::from_micros(req.wait_us as u64)).await;
            }
            g.finish(v);
            v
        }
    })
}

pub fn make_rfn_once(init: i64, sh: Arc<ObjShared>) -> CounterFnOnce {
    RFnOnce::new_1(move |req: FnReq| async move {
        let g = sh.begin(req.id, fn_method(&req), if req.kind == 0 { 0 } else { req.x }, true);
        if req.wait_us > 0 {
            tokio::time::sleep(Duration::from_micros(req.wait_us as u64)).await;
        }
        let v = if req.kind != 0 {
            g.applied();
            init + req.x
        } else {
            init
        };
        g.finish(v);
        v
    })
}

// ------------------------------------------------------------------------------------------
// Operations, clients and call histories
// ------------------------------------------------------------------------------------------

#[derive(Clone, Debug, PartialEq)]
pub enum Op {
    Get,
    SlowGet(u32),
    Blob(u32),
    Add(i64),
    SlowAdd(i64, u32),
    Long(i64),
    LongNc(i64),
    Eat { bad: bool, len: u32 },
    Extra(i64),
    ExtraRef,
    Take,
    /// Default-bodied trait method overridden by the served object: doubles the counter.
    Double,
}

impl Op {
    pub fn method(&self) -> &'static str {
        match self {
            Op::Get => "get",
            Op::SlowGet(_) => "slow_get",
            Op::Blob(_) => "blob",
            Op::Add(_) => "add",
            Op::SlowAdd(..) => "slow_add",
            Op::Long(_) => "long",
            Op::LongNc(_) => "long_nc",
            Op::Eat { .. } => "eat",
            Op::Extra(_) => "extra",
            Op::ExtraRef => "extra_ref",
            Op::Take => "take",
            Op::Double => "double_it",
        }
    }

    /// Argument as it appears in the execution log.
    pub fn arg(&self) -> i64 {
        match self {
            Op::Add(x) | Op::SlowAdd(x, _) | Op::Long(x) | Op::LongNc(x) | Op::Extra(x) => *x,
            Op::Blob(s) => *s as i64,
            Op::Eat { len, .. } => *len as i64,
            _ => 0,
        }
    }

    /// Amount added to the counter when the operation takes effect.
    pub fn delta(&self) -> i64 {
        match self {
            Op::Add(x) | Op::SlowAdd(x, _) | Op::Long(x) | Op::LongNc(x) => *x,
            Op::Eat { len, .. } => *len as i64,
            _ => 0,
        }
    }

    pub fn is_mutator(&self) -> bool {
        self.delta() != 0 || matches!(self, Op::Take | Op::Double)
    }
}

#[derive(Clone, Debug, PartialEq)]
pub enum Outcome {
    Pending,
    Ok(i64),
    Err(String),
    /// The caller dropped the call future.
    Cancelled,
}

#[derive(Clone, Debug)]
pub struct CallRec {
    pub id: u32,
    pub actor: usize,
    pub op: Op,
    pub invoke: u64,
    pub ret: Option<u64>,
    pub outcome: Outcome,
}

pub type History = Arc<Mutex<Vec<CallRec>>>;

pub fn hist_invoke(h: &History, id: u32, actor: usize, op: &Op) -> usize {
    let invoke = kit::seq();
    let mut g = h.lock().unwrap();
    g.push(CallRec { id, actor, op: op.clone(), invoke, ret: None, outcome: Outcome::Pending });
    g.len() - 1
}

pub fn hist_return(h: &History, idx: usize, outcome: Outcome) {
    kit::activity();
    let ret = kit::seq();
    let mut g = h.lock().unwrap();
    g[idx].ret = Some(ret);
    g[idx].outcome = outcome;
}

/// Every kind of client an actor can hold. Serializable so that it can be shipped over a base channel.
#[derive(Serialize, Deserialize)]
pub enum AnyClient {
    Svc(v1::SvcClient),
    V(SvcVClient),
    Ro(RoClient),
    Fn(CounterFn),
    FnMut(CounterFnMut),
    FnOnce(CounterFnOnce),
    Gone,
}

fn blob_result(id: u32, size: u32, r: Result<Vec<u8>, CallError>) -> Result<i64, String> {
    match r {
        Ok(v) if v == blob_bytes(id, size) => Ok(size as i64),
        Ok(v) => Ok(-2_000_000 - v.len() as i64),
        Err(e) => Err(format!("{e:?}")),
    }
}

fn es<T, E: std::fmt::Debug>(r: Result<T, E>) -> Result<T, String> {
    r.map_err(|e| format!("{e:?}"))
}

pub async fn call_v1(c: &mut v1::SvcClient, op: &Op, id: u32) -> Result<i64, String> {
    use v1::Svc;
    match op {
        Op::Get => es(c.get(id).await),
        Op::SlowGet(w) => es(c.slow_get(id, *w).await),
        Op::Blob(s) => blob_result(id, *s, c.blob(*s, id).await),
        Op::Add(x) => es(c.add(*x, id).await),
        Op::SlowAdd(x, w) => es(c.slow_add(*x, id, *w).await),
        Op::Long(x) => es(c.long(*x, id).await),
        Op::LongNc(x) => es(c.long_nc(*x, id).await),
        Op::Eat { bad, len } => es(c.eat(Poison { bad: *bad, pad: vec![7u8; *len as usize] }, id).await),
        Op::Double => es(c.double_it(id).await),
        other => Err(format!("harness: operation {other:?} not available on a v1 client")),
    }
}

pub async fn call_v2(c: &mut v2::SvcClient, op: &Op, id: u32) -> Result<i64, String> {
    use v2::Svc;
    match op {
        Op::Get => es(c.get(id).await),
        Op::SlowGet(w) => es(c.slow_get(id, *w).await),
        Op::Blob(s) => blob_result(id, *s, c.blob(*s, id).await),
        Op::Add(x) => es(c.add(*x, id).await),
        Op::SlowAdd(x, w) => es(c.slow_add(*x, id, *w).await),
        Op::Long(x) => es(c.long(*x, id).await),
        Op::LongNc(x) => es(c.long_nc(*x, id).await),
        Op::Eat { bad, len } => es(c.eat(Poison { bad: *bad, pad: vec![7u8; *len as usize] }, id).await),
        Op::Extra(x) => es(c.extra(*x, id).await),
        Op::ExtraRef => es(c.extra_ref(id).await),
        Op::Double => es(c.double_it(id).await),
        other => Err(format!("harness: operation {other:?} not available on a v2 client")),
    }
}

impl AnyClient {
    pub fn try_clone(&self) -> Option<AnyClient> {
        match self {
            AnyClient::Svc(c) => Some(AnyClient::Svc(c.clone())),
            AnyClient::Ro(c) => Some(AnyClient::Ro(c.clone())),
            AnyClient::Fn(c) => Some(AnyClient::Fn(c.clone())),
            _ => None,
        }
    }

    pub async fn call(&mut self, op: &Op, id: u32) -> Result<i64, String> {
        match self {
            AnyClient::Svc(c) => call_v1(c, op, id).await,
            AnyClient::V(c) => match op {
                Op::Get => es(SvcV::get(c, id).await),
                Op::Add(x) => es(SvcV::add(c, *x, id).await),
                Op::SlowAdd(x, w) => es(SvcV::slow_add(c, *x, id, *w).await),
                Op::Take => {
                    let AnyClient::V(c) = std::mem::replace(self, AnyClient::Gone) else { unreachable!() };
                    es(c.take(id).await)
                }
                other => Err(format!("harness: operation {other:?} not available")),
            },
            AnyClient::Ro(c) => match op {
                Op::Get => es(Ro::get(c, id).await),
                Op::Add(x) => es(Ro::add(c, *x, id).await),
                Op::SlowAdd(x, w) => es(Ro::slow_add(c, *x, id, *w).await),
                other => Err(format!("harness: operation {other:?} not available")),
            },
            AnyClient::Fn(f) => match fn_req(op, id) {
                Some(req) => es(f.try_call(req).await),
                None => Err("harness: operation not available".into()),
            },
            AnyClient::FnMut(f) => match fn_req(op, id) {
                Some(req) => es(f.try_call(req).await),
                None => Err("harness: operation not available".into()),
            },
            AnyClient::FnOnce(_) => match fn_req(op, id) {
                Some(req) => {
                    let AnyClient::FnOnce(f) = std::mem::replace(self, AnyClient::Gone) else { unreachable!() };
                    es(f.try_call(req).await)
                }
                None => Err("harness: operation not available".into()),
            },
            AnyClient::Gone => Err("harness: client already consumed".into()),
        }
    }
}

fn fn_req(op: &Op, id: u32) -> Option<FnReq> {
    match op {
        Op::Get => Some(FnReq { id, kind: 0, slow: false, x: 0, wait_us: 0 }),
        Op::SlowGet(w) => Some(FnReq { id, kind: 0, slow: true, x: 0, wait_us: *w }),
        Op::Add(x) => Some(FnReq { id, kind: 1, slow: false, x: *x, wait_us: 0 }),
        Op::SlowAdd(x, w) => Some(FnReq { id, kind: 1, slow: true, x: *x, wait_us: *w }),
        _ => None,
    }
}

// ------------------------------------------------------------------------------------------
// Servers
// ------------------------------------------------------------------------------------------

#[derive(Clone, Copy, Debug, PartialEq, Eq)]
pub enum Flavour {
    /// `SvcServer` (target by value).
    Value,
    /// `SvcServerRefMut`.
    RefMut,
    /// `SvcServerSharedMut` with the given `spawn` argument.
    SharedMut(bool),
    /// `SvcReqReceiver`, requests handled by harness code calling the object.
    ReqReceiver,
}

#[derive(Debug)]
pub struct ServeEnd {
    /// Result of `serve()` (Debug-formatted error).
    pub result: Result<(), String>,
    /// Value of the object when it was handed back or still reachable.
    pub final_value: Option<i64>,
}

/// What the request-receiver flavour does with a request (drawn per request).
#[derive(Clone, Default)]
pub struct ReqRecvFaults {
    /// Ids whose reply is dropped after the call was executed (the caller sees `Dropped`).
    pub drop_reply: Arc<Mutex<BTreeSet<u32>>>,
    pub drop_reply_permille: u32,
}

fn serve_err(r: Result<(), remoc::rtc::ServeError>) -> Result<(), String> {
    r.map_err(|e| format!("{e:?}"))
}

/// Starts a server of the given flavour for `obj` in its own task and returns the first client.
pub async fn start_svc_server(
    flavour: Flavour, obj: Obj, buffer: usize, policy: OnReqReceiveError, faults: ReqRecvFaults,
) -> Option<(JoinHandle<ServeEnd>, v1::SvcClient)> {
    use remoc::rtc::{ReqReceiver, Server, ServerBase, ServerRefMut, ServerSharedMut};
    let (ctx, crx) = tokio::sync::oneshot::channel::<v1::SvcClient>();
    let task = match flavour {
        Flavour::Value => kit::spawn(async move {
            let (mut server, client) = v1::SvcServer::<_, remoc::codec::Default>::new(obj, buffer);
            server.set_on_req_receive_error(policy);
            let _ = ctx.send(client);
            let (obj, res) = server.serve().await;
            kit::activity();
            ServeEnd { result: serve_err(res), final_value: obj.map(|o| o.value) }
        }),
        Flavour::RefMut => kit::spawn(async move {
            let mut obj = obj;
            let res = {
                let (mut server, client) = v1::SvcServerRefMut::<_, remoc::codec::Default>::new(&mut obj, buffer);
                server.set_on_req_receive_error(policy);
                let _ = ctx.send(client);
                server.serve().await
            };
            kit::activity();
            ServeEnd { result: serve_err(res), final_value: Some(obj.value) }
        }),
        Flavour::SharedMut(spawn) => kit::spawn(async move {
            let obj = Arc::new(tokio::sync::RwLock::new(obj));
            let (mut server, client) = v1::SvcServerSharedMut::<_, remoc::codec::Default>::new(obj.clone(), buffer);
            server.set_on_req_receive_error(policy);
            let _ = ctx.send(client);
            let res = server.serve(spawn).await;
            kit::activity();
            let final_value = obj.try_read().ok().map(|o| o.value);
            ServeEnd { result: serve_err(res), final_value }
        }),
        Flavour::ReqReceiver => kit::spawn(async move {
            let mut obj = obj;
            let (mut rx, client) = v1::SvcReqReceiver::<remoc::codec::Default>::new(buffer);
            let _ = ctx.send(client);
            let mut result = Ok(());
            loop {
                let req = match rx.recv().await {
                    Ok(Some(req)) => req,
                    Ok(None) => break,
                    Err(e) if e.is_final() => break,
                    Err(e) => {
                        kit::probe("req_receiver_nonfinal_error");
                        if matches!(policy, OnReqReceiveError::Fail) {
                            result = Err(format!("{e:?}"));
                            break;
                        }
                        continue;
                    }
                };
                kit::activity();
                let drop_reply = faults.drop_reply_permille > 0 && kit::coin(faults.drop_reply_permille, 1000);
                macro_rules! reply {
                    ($tx:expr, $id:expr, $val:expr) => {{
                        let v = $val;
                        if drop_reply {
                            faults.drop_reply.lock().unwrap().insert($id);
                            kit::fault_fired("reply_dropped_by_request_handler");
                            drop($tx);
                        } else {
                            let _ = $tx.send(Ok(v));
                        }
                    }};
                }
                match req {
                    v1::SvcReq::Get { __reply_tx, id } => reply!(__reply_tx, id, obj.do_get(id).await),
                    v1::SvcReq::SlowGet { __reply_tx, id, wait_us } => reply!(__reply_tx, id, obj.do_slow_get(id, wait_us).await),
                    v1::SvcReq::Blob { __reply_tx, size, id } => reply!(__reply_tx, id, obj.do_blob(size, id).await),
                    v1::SvcReq::Add { __reply_tx, x, id } => reply!(__reply_tx, id, obj.do_add(x, id).await),
                    v1::SvcReq::SlowAdd { __reply_tx, x, id, wait_us } => {
                        reply!(__reply_tx, id, obj.do_slow_add(x, id, wait_us).await)
                    }
                    v1::SvcReq::Long { __reply_tx, x, id } => reply!(__reply_tx, id, obj.do_long(x, id, "long").await),
                    v1::SvcReq::LongNc { __reply_tx, x, id } => reply!(__reply_tx, id, obj.do_long(x, id, "long_nc").await),
                    v1::SvcReq::Eat { __reply_tx, food, id } => reply!(__reply_tx, id, obj.do_eat(food, id).await),
                    v1::SvcReq::DoubleIt { __reply_tx, id } => reply!(__reply_tx, id, obj.do_double(id).await),
                    _ => (),
                }
            }
            kit::activity();
            ServeEnd { result, final_value: Some(obj.value) }
        }),
    };
    match crx.await {
        Ok(client) => Some((task, client)),
        Err(_) => {
            kit::abort_run("server task did not hand out its client");
            None
        }
    }
}

/// By-value server of the trait with a `take(self)` method.
pub async fn start_take_server(obj: Obj, buffer: usize) -> Option<(JoinHandle<ServeEnd>, SvcVClient)> {
    use remoc::rtc::Server;
    let (ctx, crx) = tokio::sync::oneshot::channel::<SvcVClient>();
    let task = kit::spawn(async move {
        let (server, client) = SvcVServer::<_, remoc::codec::Default>::new(obj, buffer);
        let _ = ctx.send(client);
        let (obj, res) = server.serve().await;
        kit::activity();
        ServeEnd { result: serve_err(res), final_value: obj.map(|o| o.value) }
    });
    match crx.await {
        Ok(client) => Some((task, client)),
        Err(_) => {
            kit::abort_run("server task did not hand out its client");
            None
        }
    }
}

#[derive(Clone, Copy, Debug, PartialEq, Eq)]
pub enum RoFlavour {
    /// `RoServerShared` with the given `spawn` argument.
    Shared(bool),
    /// `RoServerRef`.
    Ref,
}

pub async fn start_ro_server(flavour: RoFlavour, obj: RoObj, buffer: usize) -> Option<(JoinHandle<ServeEnd>, RoClient)> {
    use remoc::rtc::{ServerRef, ServerShared};
    let (ctx, crx) = tokio::sync::oneshot::channel::<RoClient>();
    let task = match flavour {
        RoFlavour::Shared(spawn) => kit::spawn(async move {
            let obj = Arc::new(obj);
            let (server, client) = RoServerShared::<_, remoc::codec::Default>::new(obj.clone(), buffer);
            let _ = ctx.send(client);
            let res = server.serve(spawn).await;
            kit::activity();
            let v = *obj.cell.lock().unwrap();
            ServeEnd { result: serve_err(res), final_value: Some(v) }
        }),
        RoFlavour::Ref => kit::spawn(async move {
            let obj = obj;
            let res = {
                let (server, client) = RoServerRef::<_, remoc::codec::Default>::new(&obj, buffer);
                let _ = ctx.send(client);
                server.serve().await
            };
            kit::activity();
            let v = *obj.cell.lock().unwrap();
            ServeEnd { result: serve_err(res), final_value: Some(v) }
        }),
    };
    match crx.await {
        Ok(client) => Some((task, client)),
        Err(_) => {
            kit::abort_run("server task did not hand out its client");
            None
        }
    }
}

// ------------------------------------------------------------------------------------------
// Connections whose two ends may use different item types (old server, new client)
// ------------------------------------------------------------------------------------------

pub struct Conn<ATx, ARx, BTx, BRx> {
    pub a_tx: base::Sender<ATx>,
    pub a_rx: base::Receiver<ARx>,
    pub b_tx: base::Sender<BTx>,
    pub b_rx: base::Receiver<BRx>,
    pub conn_a: JoinHandle<ConnResult>,
    pub conn_b: JoinHandle<ConnResult>,
    pub ctl: LinkCtl,
}

/// Like `mux::connect_rch`, but endpoint B may deserialize what A sends as another (wire compatible) type.
pub async fn connect_typed<ATx, ARx, BTx, BRx>(
    name: &'static str, cfg_a: Cfg, cfg_b: Cfg, link_cfg: LinkCfg,
) -> Result<Conn<ATx, ARx, BTx, BRx>, String>
where
    ATx: RemoteSend,
    ARx: RemoteSend,
    BTx: RemoteSend,
    BRx: RemoteSend,
{
    let ((sink_a, stream_a), (sink_b, stream_b), ctl) = net::link(name, link_cfg, MonitorMode::Full);
    ctl.monitor(|m| {
        m.max_ports = [Some(cfg_a.max_ports), Some(cfg_b.max_ports)];
    });
    let fa = remoc::Connect::framed::<_, _, ATx, ARx, remoc::codec::Default>(cfg_a, sink_a, stream_a);
    let fb = remoc::Connect::framed::<_, _, BTx, BRx, remoc::codec::Default>(cfg_b, sink_b, stream_b);
    let (ra, rb) = tokio::join!(fa, fb);
    let (conn_a, a_tx, a_rx) = ra.map_err(|e| format!("connect A failed: {e}"))?;
    let (conn_b, b_tx, b_rx) = rb.map_err(|e| format!("connect B failed: {e}"))?;
    let conn_a = kit::spawn(conn_a);
    let conn_b = kit::spawn(conn_b);
    Ok(Conn { a_tx, a_rx, b_tx, b_rx, conn_a, conn_b, ctl })
}

/// Chmux configuration for a link that carries remote calls: tiny buffers, but enough ports for the
/// request channel plus one reply channel per concurrent call.
pub fn draw_call_cfg() -> Cfg {
    let mut c = mux::draw_cfg(mux::CfgProfile::Tiny);
    c.max_data_size = kit::pick(&[16usize, 33, 64, 256]);
    c.max_ports = c.max_ports.max(32);
    c.max_received_ports = c.max_received_ports.max(4);
    c.connection_timeout = None;
    c
}

/// Calls `hook` once when `delay` of virtual time has passed and `fut` is still pending, and keeps polling `fut`.
pub struct HookAt<F, H> {
    fut: Pin<Box<F>>,
    sleep: Option<Pin<Box<tokio::time::Sleep>>>,
    hook: Option<H>,
}

pub fn hook_at<F: Future, H: FnOnce()>(fut: F, delay: Duration, hook: H) -> HookAt<F, H> {
    HookAt { fut: Box::pin(fut), sleep: Some(Box::pin(tokio::time::sleep(delay))), hook: Some(hook) }
}

impl<F: Future, H: FnOnce() + Unpin> Future for HookAt<F, H> {
    type Output = F::Output;
    fn poll(mut self: Pin<&mut Self>, cx: &mut Context<'_>) -> Poll<F::Output> {
        if let Some(sleep) = self.sleep.as_mut()
            && sleep.as_mut().poll(cx).is_ready()
        {
            self.sleep = None;
            if let Some(h) = self.hook.take() {
                h();
            }
        }
        self.fut.as_mut().poll(cx)
    }
}

// ------------------------------------------------------------------------------------------
// Oracles
// ------------------------------------------------------------------------------------------

pub type Verdict = Option<(&'static str, String)>;

pub fn fmt_calls(calls: &[CallRec]) -> String {
    calls
        .iter()
        .map(|c| {
            format!(
                "#{} actor{} {:?} [{}..{}] {:?}",
                c.id,
                c.actor,
                c.op,
                c.invoke,
                c.ret.map(|r| r.to_string()).unwrap_or_else(|| "-".into()),
                c.outcome
            )
        })
        .collect::<Vec<_>>()
        .join("; ")
}

pub fn fmt_log(log: &[ExecRec]) -> String {
    log.iter()
        .map(|e| {
            format!(
                "#{} {}({}) [{}..{}]{}{} -> {:?}",
                e.id,
                e.method,
                e.arg,
                e.start,
                e.end.map(|r| r.to_string()).unwrap_or_else(|| "running".into()),
                if e.completed { "" } else { " dropped" },
                if e.applied { " applied" } else { "" },
                e.result
            )
        })
        .collect::<Vec<_>>()
        .join("; ")
}

/// Exactly-once part: every execution belongs to a known call and carries its arguments, no call was
/// executed twice, a call that returned `Ok(r)` was executed exactly once, to completion, with result `r`.
pub fn check_exactly_once(calls: &[CallRec], log: &[ExecRec]) -> Verdict {
    for e in log {
        let Some(c) = calls.iter().find(|c| c.id == e.id) else {
            return Some(("foreign-execution", format!("execution {e:?} belongs to no call; calls: {}", fmt_calls(calls))));
        };
        if c.op.method() != e.method || c.op.arg() != e.arg {
            return Some((
                "wrong-arguments",
                format!("call #{} was {:?} but the object executed {}({}); log: {}", c.id, c.op, e.method, e.arg, fmt_log(log)),
            ));
        }
    }
    for c in calls {
        let execs: Vec<&ExecRec> = log.iter().filter(|e| e.id == c.id).collect();
        if execs.len() > 1 {
            return Some((
                "executed-twice",
                format!("call #{} ({:?}, outcome {:?}) was executed {} times; log: {}", c.id, c.op, c.outcome, execs.len(), fmt_log(log)),
            ));
        }
        if let Outcome::Ok(r) = &c.outcome {
            match execs.first() {
                None => {
                    return Some((
                        "result-without-execution",
                        format!("call #{} ({:?}) returned Ok({r}) but was never executed; log: {}", c.id, c.op, fmt_log(log)),
                    ));
                }
                Some(e) if !e.completed => {
                    return Some((
                        "result-of-unfinished-execution",
                        format!("call #{} ({:?}) returned Ok({r}) but its execution did not complete: {e:?}", c.id, c.op),
                    ));
                }
                Some(e) if e.result != Some(*r) => {
                    return Some((
                        "foreign-result",
                        format!(
                            "call #{} ({:?}) returned Ok({r}) but its execution produced {:?}; calls: {}; log: {}",
                            c.id,
                            c.op,
                            e.result,
                            fmt_calls(calls),
                            fmt_log(log)
                        ),
                    ));
                }
                Some(e) => {
                    if e.start < c.invoke || c.ret.map(|r| e.end.unwrap_or(u64::MAX) > r).unwrap_or(false) {
                        return Some((
                            "execution-outside-call",
                            format!("call #{} [{}..{:?}] but its execution ran [{}..{:?}]", c.id, c.invoke, c.ret, e.start, e.end),
                        ));
                    }
                }
            }
        }
    }
    None
}

/// Executions of `&mut self` / `self` methods must not overlap any other execution on the same target.
pub fn check_exclusive(log: &[ExecRec]) -> Verdict {
    for (i, a) in log.iter().enumerate() {
        if !a.exclusive {
            continue;
        }
        for (j, b) in log.iter().enumerate() {
            if i == j {
                continue;
            }
            let a_end = a.end.unwrap_or(u64::MAX);
            let b_end = b.end.unwrap_or(u64::MAX);
            if a.start < b_end && b.start < a_end {
                return Some((
                    "overlapping-mutable-execution",
                    format!("execution {a:?} of a `&mut self` method overlaps {b:?}; log: {}", fmt_log(log)),
                ));
            }
        }
    }
    None
}

// Linearizability (Wing & Gong style search with memoisation) against a sequential counter.

#[derive(Clone, Debug, PartialEq)]
pub enum LinKind {
    /// Returns the value.
    Get,
    /// Adds and returns the new value.
    Add(i64),
    /// Returns the value; nothing may take effect afterwards.
    Take,
    /// Doubles the value and returns the new value.
    Double,
}

#[derive(Clone, Debug)]
pub struct LinOp {
    pub id: u32,
    pub kind: LinKind,
    pub inv: u64,
    /// `None`: never returned (pending), may be linearized at any time after `inv`.
    pub ret: Option<u64>,
    /// `None`: result not observed.
    pub result: Option<i64>,
    /// The operation must appear in the linearization (otherwise it may).
    pub required: bool,
}

pub const MAX_LIN_OPS: usize = 14;

/// Returns `Some(order)` (ids in linearization order) when the history is linearizable.
pub fn linearize(ops: &[LinOp], init: i64) -> Option<Vec<u32>> {
    assert!(ops.len() <= 20, "history too long for the linearizability search");
    // State: (value, taken).
    fn go(
        ops: &[LinOp], done: u32, value: i64, taken: bool, order: &mut Vec<u32>, dead: &mut BTreeSet<(u32, i64, bool)>,
    ) -> bool {
        if ops.iter().enumerate().all(|(i, o)| done & (1 << i) != 0 || !o.required) {
            return true;
        }
        if dead.contains(&(done, value, taken)) {
            return false;
        }
        // Earliest return among the not yet linearized operations that have to be linearized:
        // nothing invoked after it may go first.
        let min_ret = ops
            .iter()
            .enumerate()
            .filter(|(i, o)| done & (1 << i) == 0 && o.required)
            .filter_map(|(_, o)| o.ret)
            .min()
            .unwrap_or(u64::MAX);
        for (i, o) in ops.iter().enumerate() {
            if done & (1 << i) != 0 || o.inv > min_ret {
                continue;
            }
            if taken {
                continue;
            }
            let (nv, res, ntaken) = match o.kind {
                LinKind::Get => (value, value, false),
                LinKind::Add(x) => (value + x, value + x, false),
                LinKind::Take => (value, value, true),
                LinKind::Double => (2 * value, 2 * value, false),
            };
            if let Some(r) = o.result
                && r != res
            {
                continue;
            }
            order.push(o.id);
            if go(ops, done | (1 << i), nv, ntaken, order, dead) {
                return true;
            }
            order.pop();
        }
        dead.insert((done, value, taken));
        false
    }
    let mut order = Vec::new();
    let mut dead = BTreeSet::new();
    if go(ops, 0, init, false, &mut order, &mut dead) { Some(order) } else { None }
}

/// Builds the linearizability problem from the client history; the execution log (ground truth of the
/// harness-owned object) decides whether an operation without an observed result took effect.
pub fn lin_ops(calls: &[CallRec], log: &[ExecRec]) -> Vec<LinOp> {
    let mut ops = Vec::new();
    for c in calls {
        let kind = match &c.op {
            Op::Get | Op::SlowGet(_) => LinKind::Get,
            Op::Take => LinKind::Take,
            Op::Double => LinKind::Double,
            Op::Blob(_) | Op::Extra(_) | Op::ExtraRef => continue,
            op => LinKind::Add(op.delta()),
        };
        match &c.outcome {
            Outcome::Ok(r) => ops.push(LinOp { id: c.id, kind, inv: c.invoke, ret: c.ret, result: Some(*r), required: true }),
            _ => {
                // Failed, cancelled or still pending: a reader has no effect; a mutator is an operation
                // that never returned and took effect iff the object says so.
                if kind == LinKind::Get {
                    continue;
                }
                let applied = log.iter().any(|e| e.id == c.id && e.applied);
                if applied {
                    ops.push(LinOp { id: c.id, kind, inv: c.invoke, ret: None, result: None, required: true });
                }
            }
        }
    }
    ops
}

pub fn check_linearizable(calls: &[CallRec], log: &[ExecRec], init: i64) -> Verdict {
    let ops = lin_ops(calls, log);
    if ops.len() > MAX_LIN_OPS {
        kit::probe("history_too_long_for_linearizability_search");
        return None;
    }
    kit::probe("linearizability_checked");
    match linearize(&ops, init) {
        Some(_) => None,
        None => Some((
            "not-linearizable",
            format!(
                "no sequential order of the calls (initial value {init}) explains the observed results; calls: {}; log: {}",
                fmt_calls(calls),
                fmt_log(log)
            ),
        )),
    }
}

/// Unit tests of the checker itself on hand-written histories; returns a description of the first failure.
pub fn linearize_self_test() -> Result<(), String> {
    let op = |id: u32, kind: LinKind, inv: u64, ret: Option<u64>, result: Option<i64>, required: bool| LinOp {
        id,
        kind,
        inv,
        ret,
        result,
        required,
    };
    // Sequential history.
    let h = vec![op(1, LinKind::Add(1), 1, Some(2), Some(1), true), op(2, LinKind::Get, 3, Some(4), Some(1), true)];
    if linearize(&h, 0).is_none() {
        return Err("sequential history rejected".into());
    }
    // Stale read: get after a completed add still sees the old value.
    let h = vec![op(1, LinKind::Add(1), 1, Some(2), Some(1), true), op(2, LinKind::Get, 3, Some(4), Some(0), true)];
    if linearize(&h, 0).is_some() {
        return Err("stale read accepted".into());
    }
    // Concurrent get may see either value.
    for seen in [0, 1] {
        let h = vec![op(1, LinKind::Add(1), 1, Some(4), Some(1), true), op(2, LinKind::Get, 2, Some(3), Some(seen), true)];
        if linearize(&h, 0).is_none() {
            return Err(format!("concurrent get seeing {seen} rejected"));
        }
    }
    // Lost update: two concurrent adds both report 1, a later get sees 1.
    let h = vec![
        op(1, LinKind::Add(1), 1, Some(5), Some(1), true),
        op(2, LinKind::Add(1), 2, Some(6), Some(1), true),
        op(3, LinKind::Get, 7, Some(8), Some(1), true),
    ];
    if linearize(&h, 0).is_some() {
        return Err("lost update accepted".into());
    }
    // Pending add explains a later value only when it is allowed to take effect.
    let h = vec![op(1, LinKind::Add(4), 1, None, None, false), op(2, LinKind::Get, 5, Some(6), Some(4), true)];
    if linearize(&h, 0).is_none() {
        return Err("optional pending add not used".into());
    }
    let h = vec![op(2, LinKind::Get, 5, Some(6), Some(4), true)];
    if linearize(&h, 0).is_some() {
        return Err("value out of thin air accepted".into());
    }
    // A required pending add must show up in a later read.
    let h = vec![op(1, LinKind::Add(4), 1, None, None, true), op(2, LinKind::Get, 5, Some(6), Some(0), true)];
    if linearize(&h, 0).is_none() {
        return Err("pending add linearized after the read rejected".into());
    }
    // Real-time order: an add that returned before a get was invoked must be visible.
    let h = vec![
        op(1, LinKind::Add(2), 1, Some(2), Some(2), true),
        op(2, LinKind::Add(4), 3, Some(4), Some(6), true),
        op(3, LinKind::Get, 5, Some(6), Some(2), true),
    ];
    if linearize(&h, 0).is_some() {
        return Err("read that skips a completed add accepted".into());
    }
    // Take ends the object.
    let h = vec![op(1, LinKind::Take, 1, Some(2), Some(0), true), op(2, LinKind::Get, 3, Some(4), Some(0), true)];
    if linearize(&h, 0).is_some() {
        return Err("operation after take accepted".into());
    }
    Ok(())
}
