//! C18 — I/O channels (`rch::io`) deliver exactly the written bytes; short streams are errors.
//!
//! Two or three real endpoints on a line (links "AB", "BC"). One endpoint creates a sized or
//! unsized I/O channel and ships the halves as (part of) a value over `rch::base` channels to the
//! endpoints where the writer and the reader live (halves local / remote / both remote, one or two
//! hops, optionally the sender is handed over again in mid-stream). The writer executes a drawn op
//! list (single writes incl. empty ones and sizes around `chunk_size` / `receive_buffer`, flushes,
//! pauses, shutdown, drop with or without flush, over-long writes); the reader reads with drawn
//! buffer sizes >= 1 until end-of-file or error (or drops the receiver early).
//!
//! Oracle
//!  * at every read: bytes read so far are a prefix of the bytes accepted so far (`Ok(n)` of write);
//!  * `Ok(0)` (EOF) only if the total equals the fixed size (sized) or the size announced by a
//!    successful shutdown, which equals the bytes accepted (unsized);
//!  * sized: never more than `size` bytes accepted; shutdown succeeds only with exactly `size` bytes;
//!  * nothing is accepted after shutdown;
//!  * after `settle()`: neither side is pending; a stream that was finished properly on a healthy
//!    connection ends with `Ok(0)` after all bytes; a short / unfinished stream ends with an error;
//!  * bytes accepted by a write whose transmission only starts with the next call: if the connection
//!    carrying the sender has already terminated by then, that call must fail;
//!  * using a half once more after it reported an error never panics, and a read after an error is
//!    judged by the same end-of-file rules (scenario `io-use-after-error`);
//!  * the same holds when the carrier value exceeds `max_data_size` and is therefore serialised twice
//!    (scenario `io-streamed-carrier`).

use std::{
    collections::BTreeMap,
    io::ErrorKind,
    panic::AssertUnwindSafe,
    sync::{Arc, Mutex},
    time::Duration,
};

use futures::FutureExt;
use remoc::rch::{base, io};
use serde::{Deserialize, Serialize};
use serde_json::json;
use tokio::io::{AsyncReadExt, AsyncWriteExt};

use crate::{
    harness::{Check, Scenario, ScenarioFuture},
    kit,
    mux::{self, CfgProfile},
    net::{Fault, FaultKind, LinkCfg, LinkCtl},
    proto::MonitorMode,
    props::STUB_NET,
};

/// Value that carries a half to the endpoint at the end of `route` (hop by hop).
#[derive(Serialize, Deserialize)]
enum Msg {
    Tx { route: Vec<u8>, pad: Vec<u8>, tx: io::Sender, tail: Vec<u8> },
    Rx { route: Vec<u8>, pad: Vec<u8>, rx: io::Receiver, tail: Vec<u8> },
}

#[derive(Clone, Debug)]
enum WOp {
    /// One `write` call with up to this many bytes (fewer or none if the planned payload is exhausted).
    Write(usize),
    /// `write_all` of this many bytes.
    WriteAll(usize),
    Flush,
    Shutdown,
    Pause(u32),
    /// Flush, then hand the sender over to another endpoint, which continues with the remaining ops.
    Move(usize),
}

#[derive(Clone, Debug, PartialEq)]
enum REnd {
    Eof,
    Err(String),
    Dropped,
}

#[derive(Default)]
struct St {
    sized: Option<u64>,
    payload: Vec<u8>,
    /// Number of payload bytes accepted by the sender so far (`W = payload[..accepted]`).
    accepted: usize,
    read: Vec<u8>,
    // writer
    ops: Vec<WOp>,
    next_op: usize,
    w_at: usize,
    w_in_transit: bool,
    w_lost: Option<String>,
    w_started: bool,
    w_done: bool,
    w_error: Option<String>,
    w_flushed_all: bool,
    w_shutdown: Option<Result<u64, String>>,
    w_dropped_unflushed: bool,
    // reader
    read_sizes: Vec<usize>,
    stop_after: Option<usize>,
    r_in_transit: bool,
    r_lost: Option<String>,
    r_started: bool,
    r_end: Option<REnd>,
    poke_after_error: bool,
}

type BaseTx = Arc<tokio::sync::Mutex<base::Sender<Msg>>>;

struct World {
    /// `senders[e][n]`: base sender of endpoint `e` towards neighbour `n`.
    senders: Vec<BTreeMap<usize, BaseTx>>,
    /// `conn_done[e][n]`: true once endpoint `e`'s connection towards `n` has terminated.
    conn_done: Vec<BTreeMap<usize, Arc<Mutex<bool>>>>,
    st: Mutex<St>,
    faulty: bool,
}

thread_local! {
    /// True in the scenario whose carrier values exceed `max_data_size`.
    static STREAMED_CARRIER: std::cell::Cell<bool> = const { std::cell::Cell::new(false) };
}

/// Known defect (see known_findings.json): `io::Sender` / `io::Receiver` serialisation consumes the half, and a
/// value that does not fit into `max_data_size` is serialised twice, so the half arrives dead or is refused.
const SIG_STREAMED_CARRIER: &str = "io.serialize:half-destroyed-by-streamed-carrier";

fn viol(kind: &'static str, detail: String) {
    let known = STREAMED_CARRIER.with(|s| s.get())
        && matches!(kind, "size-info-changed" | "complete-stream-failed" | "writer-failed" | "half-not-transferred" | "half-not-delivered");
    let sig = if known { SIG_STREAMED_CARRIER.to_string() } else { format!("c18:{kind}") };
    kit::class_violation("c18", kind, sig, detail);
}

fn path(from: usize, to: usize) -> Vec<u8> {
    let mut v = Vec::new();
    let mut at = from;
    while at != to {
        if to > at {
            at += 1
        } else {
            at -= 1
        }
        v.push(at as u8);
    }
    v
}

fn describe(st: &St) -> String {
    format!(
        "sized={:?} planned={}B accepted={}B read={}B writer(at {}, started {}, done {}, error {:?}, shutdown {:?}, flushed_all {}, lost {:?}) reader(started {}, end {:?}, lost {:?}, stop_after {:?})",
        st.sized,
        st.payload.len(),
        st.accepted,
        st.read.len(),
        st.w_at,
        st.w_started,
        st.w_done,
        st.w_error,
        st.w_shutdown,
        st.w_flushed_all,
        st.w_lost,
        st.r_started,
        st.r_end,
        st.r_lost,
        st.stop_after
    )
}

/// Sends a half towards `route` from endpoint `at`. Returns an error text if it could not be sent.
async fn ship(world: &Arc<World>, at: usize, msg: Msg) -> Result<(), String> {
    let next = match &msg {
        Msg::Tx { route, .. } | Msg::Rx { route, .. } => route[0] as usize,
    };
    let Some(tx) = world.senders[at].get(&next).cloned() else { return Err(format!("no link {at}->{next}")) };
    let mut tx = tx.lock().await;
    tx.send(msg).await.map_err(|e| format!("{:?}", e.kind))
}

fn deliver(world: &Arc<World>, at: usize, from: usize, msg: Msg) {
    let world = world.clone();
    match msg {
        Msg::Tx { mut route, pad, tx, tail } => {
            if route.len() > 1 {
                route.remove(0);
                kit::probe("half_forwarded_by_endpoint");
                kit::spawn(async move {
                    if let Err(e) = ship(&world, at, Msg::Tx { route, pad, tx, tail }).await {
                        let mut st = world.st.lock().unwrap();
                        st.w_lost = Some(format!("forwarding at endpoint {at} failed: {e}"));
                        kit::activity();
                    }
                });
            } else {
                kit::spawn(writer(world, at, from, tx));
            }
        }
        Msg::Rx { mut route, pad, rx, tail } => {
            if route.len() > 1 {
                route.remove(0);
                kit::probe("half_forwarded_by_endpoint");
                kit::spawn(async move {
                    if let Err(e) = ship(&world, at, Msg::Rx { route, pad, rx, tail }).await {
                        let mut st = world.st.lock().unwrap();
                        st.r_lost = Some(format!("forwarding at endpoint {at} failed: {e}"));
                        kit::activity();
                    }
                });
            } else {
                kit::spawn(reader(world, rx));
            }
        }
    }
}

async fn recv_loop(world: Arc<World>, at: usize, from: usize, mut rx: base::Receiver<Msg>) {
    loop {
        if kit::is_aborted() {
            break;
        }
        match rx.recv().await {
            Ok(Some(msg)) => {
                kit::activity();
                deliver(&world, at, from, msg);
            }
            Ok(None) => break,
            Err(e) if e.is_final() => break,
            Err(e) => {
                kit::note(format!("endpoint {at}: non-final receive error {e}"));
                kit::probe("carrier_recv_error");
            }
        }
    }
}

/// Polls an operation once more after the half reported an error: it must fail again
/// (never pretend success) and must not panic.
async fn poke<F: std::future::Future<Output = std::io::Result<usize>>>(what: &'static str, fut: F) {
    match AssertUnwindSafe(fut).catch_unwind().await {
        Ok(Err(_)) => kit::probe("use_after_error_fails_again"),
        Ok(Ok(n)) => {
            let _ = (what, n);
            kit::probe("use_after_error_ok")
        }
        Err(_) => {
            kit::probe("use_after_error_panics");
            kit::class_violation(
                "c18",
                "panic-after-error",
                "c18:io-half-polled-after-error-panics",
                format!("{what} after the half had reported an error panicked instead of returning an error"),
            );
        }
    }
}

async fn writer(world: Arc<World>, at: usize, via: usize, mut tx: io::Sender) {
    {
        let mut st = world.st.lock().unwrap();
        st.w_started = true;
        st.w_in_transit = false;
        st.w_at = at;
        if tx.expected_size() != st.sized {
            viol("size-info-changed", format!("sender reports expected_size {:?} after transfer, created with {:?}", tx.expected_size(), st.sized));
        }
        if tx.bytes_written() != st.accepted as u64 {
            viol("bytes-written-changed", format!("sender reports {} bytes written after transfer, {} were accepted", tx.bytes_written(), st.accepted));
        }
    }
    kit::activity();
    // True once the connection that carries the sender's port has terminated.
    let conn_down = |world: &World| world.conn_done[at].get(&via).map(|d| *d.lock().unwrap()).unwrap_or(false);
    let mut refused = false;
    // Bytes accepted by the last call that have not been handed to the channel yet: the transmission
    // starts with the next call on the sender.
    let mut unsent = false;
    let mut unflushed = false;
    let mut fatal: Option<String> = None;
    'ops: loop {
        if kit::is_aborted() {
            return;
        }
        let op = {
            let mut st = world.st.lock().unwrap();
            let op = st.ops.get(st.next_op).cloned();
            st.next_op += 1;
            op
        };
        let Some(op) = op else { break };
        match op {
            WOp::Pause(us) => tokio::time::sleep(Duration::from_micros(us as u64)).await,
            WOp::Write(len) | WOp::WriteAll(len) => {
                let all = matches!(op, WOp::WriteAll(_));
                let mut left = len;
                let mut first = true;
                loop {
                    let (buf, shut, size_reached) = {
                        let st = world.st.lock().unwrap();
                        let end = (st.accepted + left).min(st.payload.len());
                        (st.payload[st.accepted..end].to_vec(), st.w_shutdown.is_some(), st.sized.map(|s| st.accepted as u64 >= s).unwrap_or(false))
                    };
                    if (!first && buf.is_empty()) || (refused && !buf.is_empty()) {
                        break;
                    }
                    first = false;
                    let must_fail = unsent && conn_down(&world);
                    unsent = false;
                    let res = tx.write(&buf).await;
                    kit::activity();
                    match res {
                        Ok(n) => {
                            let mut st = world.st.lock().unwrap();
                            if must_fail {
                                kit::probe("ok_after_connection_loss");
                                viol("ok-after-connection-loss", format!("write returned Ok({n}) although the previously accepted bytes could not be transmitted (connection already terminated); {}", describe(&st)));
                            }
                            if n > buf.len() {
                                viol("write-count", format!("write of {} bytes returned Ok({n})", buf.len()));
                                break 'ops;
                            }
                            if n == 0 && !buf.is_empty() {
                                viol("write-zero", format!("write of {} bytes returned Ok(0); {}", buf.len(), describe(&st)));
                                break 'ops;
                            }
                            if n > 0 && shut {
                                viol("write-after-shutdown", format!("write accepted {n} bytes after shutdown; {}", describe(&st)));
                            }
                            if n > 0 && size_reached {
                                viol("overlong-write-accepted", format!("write accepted {n} bytes beyond the fixed size; {}", describe(&st)));
                            }
                            st.accepted += n;
                            if let Some(s) = st.sized
                                && st.accepted as u64 > s
                            {
                                viol("overlong-write-accepted", format!("{} bytes accepted by a channel of size {s}", st.accepted));
                            }
                            if tx.bytes_written() != st.accepted as u64 {
                                viol("bytes-written-counter", format!("sender counts {} bytes written, {} were accepted", tx.bytes_written(), st.accepted));
                            }
                            if n > 0 {
                                st.w_flushed_all = false;
                                unflushed = true;
                                unsent = true;
                            }
                            if buf.is_empty() {
                                kit::probe("empty_write");
                            } else if n < buf.len() {
                                kit::probe("partial_write");
                            }
                            left -= n.min(left);
                            if !all || buf.is_empty() {
                                break;
                            }
                        }
                        Err(e) => {
                            let mut st = world.st.lock().unwrap();
                            if size_reached && !shut && !buf.is_empty() && e.kind() == ErrorKind::WriteZero {
                                kit::probe("overlong_write_refused");
                                refused = true;
                                break;
                            }
                            if shut {
                                kit::probe("write_after_shutdown_refused");
                                refused = true;
                                break;
                            }
                            if must_fail {
                                kit::probe("error_after_connection_loss");
                            }
                            fatal = Some(format!("write: {:?} {e}", e.kind()));
                            st.w_error = fatal.clone();
                            break 'ops;
                        }
                    }
                }
            }
            WOp::Flush => {
                let must_fail = unsent && conn_down(&world);
                unsent = false;
                let shut = world.st.lock().unwrap().w_shutdown.is_some();
                match tx.flush().await {
                    Ok(()) => {
                        let mut st = world.st.lock().unwrap();
                        if must_fail {
                            kit::probe("ok_after_connection_loss");
                            viol("ok-after-connection-loss", format!("flush returned Ok although the accepted bytes could not be transmitted (connection already terminated); {}", describe(&st)));
                        }
                        unflushed = false;
                        st.w_flushed_all = true;
                        kit::probe("flush_ok");
                    }
                    Err(e) => {
                        if must_fail {
                            kit::probe("error_after_connection_loss");
                        }
                        if shut {
                            continue;
                        }
                        fatal = Some(format!("flush: {:?} {e}", e.kind()));
                        world.st.lock().unwrap().w_error = fatal.clone();
                        break 'ops;
                    }
                }
            }
            WOp::Shutdown => {
                let must_fail = unsent && conn_down(&world);
                unsent = false;
                let res = tx.shutdown().await;
                kit::activity();
                let mut st = world.st.lock().unwrap();
                if st.w_shutdown.is_some() {
                    // Repeated shutdown: result not judged.
                    continue;
                }
                match res {
                    Ok(()) => {
                        if must_fail {
                            kit::probe("ok_after_connection_loss");
                            viol("ok-after-connection-loss", format!("shutdown returned Ok although the accepted bytes could not be transmitted (connection already terminated); {}", describe(&st)));
                        }
                        if let Some(s) = st.sized
                            && st.accepted as u64 != s
                        {
                            viol("short-shutdown-ok", format!("shutdown succeeded with {} of {s} bytes written", st.accepted));
                        }
                        unflushed = false;
                        st.w_flushed_all = true;
                        st.w_shutdown = Some(Ok(st.accepted as u64));
                        kit::probe("shutdown_ok");
                    }
                    Err(e) => {
                        if must_fail {
                            kit::probe("error_after_connection_loss");
                        }
                        if e.kind() == ErrorKind::UnexpectedEof && st.sized.map(|s| (st.accepted as u64) < s).unwrap_or(false) {
                            kit::probe("short_shutdown_refused");
                            st.w_shutdown = Some(Err(format!("{e}")));
                            unflushed = false;
                        } else {
                            fatal = Some(format!("shutdown: {:?} {e}", e.kind()));
                            st.w_error = fatal.clone();
                            break 'ops;
                        }
                    }
                }
            }
            WOp::Move(dest) => {
                let shut = world.st.lock().unwrap().w_shutdown.is_some();
                if shut {
                    continue;
                }
                if let Err(e) = tx.flush().await {
                    fatal = Some(format!("flush before hand-over: {:?} {e}", e.kind()));
                    world.st.lock().unwrap().w_error = fatal.clone();
                    break 'ops;
                }
                {
                    let mut st = world.st.lock().unwrap();
                    st.w_flushed_all = true;
                    st.w_in_transit = true;
                }
                kit::probe("sender_moved_midstream");
                let route = path(at, dest);
                if let Err(e) = ship(&world, at, Msg::Tx { route, pad: Vec::new(), tx, tail: Vec::new() }).await {
                    world.st.lock().unwrap().w_lost = Some(format!("hand-over from endpoint {at} failed: {e}"));
                }
                kit::activity();
                return;
            }
        }
    }
    let poke_it = world.st.lock().unwrap().poke_after_error;
    if fatal.is_some() {
        kit::probe("writer_error");
        if poke_it {
            match kit::draw(3) {
                0 => poke("flush", async { tx.flush().await.map(|()| 1) }).await,
                1 => {
                    let w = world.clone();
                    poke("shutdown", async {
                        tx.shutdown().await.map(|()| {
                            // The size is announced now: a reader that obtained everything may see a clean end.
                            let mut st = w.st.lock().unwrap();
                            if st.w_shutdown.is_none() {
                                st.w_shutdown = Some(Ok(st.accepted as u64));
                            }
                            1
                        })
                    })
                    .await
                }
                _ => poke("write", tx.write(&[1, 2, 3])).await,
            }
        }
    }
    {
        let mut st = world.st.lock().unwrap();
        if unflushed && fatal.is_none() {
            st.w_dropped_unflushed = true;
            kit::probe("dropped_without_flush");
        }
        if st.w_shutdown.is_none() && fatal.is_none() {
            kit::probe("dropped_without_shutdown");
        }
    }
    drop(tx);
    world.st.lock().unwrap().w_done = true;
    kit::activity();
}

async fn reader(world: Arc<World>, mut rx: io::Receiver) {
    {
        let mut st = world.st.lock().unwrap();
        st.r_started = true;
        st.r_in_transit = false;
        if let Some(s) = st.sized
            && rx.size() != Some(s)
        {
            viol("size-info-changed", format!("receiver reports size {:?} after transfer, created with {s}", rx.size()));
        }
        if st.sized.is_none() && rx.size().is_some() {
            viol("size-info-changed", format!("receiver of an unsized channel reports size {:?} before EOF", rx.size()));
        }
    }
    kit::activity();
    let mut i = 0usize;
    let poke_it = world.st.lock().unwrap().poke_after_error;
    let mut first_error: Option<String> = None;
    let end = loop {
        if kit::is_aborted() {
            return;
        }
        let n = {
            let st = world.st.lock().unwrap();
            if let Some(k) = st.stop_after
                && st.read.len() >= k
            {
                kit::probe("reader_dropped_early");
                break REnd::Dropped;
            }
            st.read_sizes[i % st.read_sizes.len()]
        };
        i += 1;
        let mut buf = vec![0u8; n];
        let res = match AssertUnwindSafe(rx.read(&mut buf)).catch_unwind().await {
            Ok(res) => res,
            Err(_) => {
                kit::probe("use_after_error_panics");
                viol("panic-after-error", format!("read panicked (previous error: {first_error:?})"));
                break REnd::Err("panic".into());
            }
        };
        kit::activity();
        if first_error.is_some() {
            match &res {
                Ok(_) => kit::probe("use_after_error_ok"),
                Err(_) => kit::probe("use_after_error_fails_again"),
            }
        }
        match res {
            Ok(0) => {
                let st = world.st.lock().unwrap();
                match st.sized {
                    Some(s) => {
                        if st.read.len() as u64 != s {
                            viol("eof-before-size", format!("sized channel: Ok(0) after {} of {s} bytes; {}", st.read.len(), describe(&st)));
                        }
                    }
                    None => match &st.w_shutdown {
                        Some(Ok(announced)) => {
                            if *announced != st.read.len() as u64 || st.read.len() != st.accepted {
                                viol(
                                    "eof-size-mismatch",
                                    format!("unsized channel: Ok(0) after {} bytes, announced {announced}, accepted {}; {}", st.read.len(), st.accepted, describe(&st)),
                                );
                            }
                        }
                        _ => viol("eof-without-shutdown", format!("unsized channel: Ok(0) although the sender never completed shutdown; {}", describe(&st))),
                    },
                }
                if rx.size() != Some(st.read.len() as u64) {
                    viol("size-after-eof", format!("receiver reports size {:?} after EOF at {} bytes", rx.size(), st.read.len()));
                }
                if rx.bytes_received() != st.read.len() as u64 {
                    viol("bytes-read-counter", format!("receiver counts {} bytes, {} were read", rx.bytes_received(), st.read.len()));
                }
                kit::probe("reader_eof_ok");
                if let Some(e) = first_error {
                    // All bytes and the matching size had arrived before the error: the error stands as the result.
                    break REnd::Err(e);
                }
                break REnd::Eof;
            }
            Ok(m) => {
                kit::seq();
                let mut st = world.st.lock().unwrap();
                if m > n {
                    viol("read-count", format!("read into {n} bytes returned Ok({m})"));
                    break REnd::Err("harness".into());
                }
                st.read.extend_from_slice(&buf[..m]);
                let k = st.read.len();
                if k > st.accepted || st.read[k - m..] != st.payload[k - m..k] {
                    let kind = if k > st.accepted && st.read[k - m..] == st.payload[k - m..k.min(st.payload.len())] {
                        "bytes-never-accepted"
                    } else {
                        "bytes-differ"
                    };
                    viol(kind, format!("after reading {k} bytes the stream is not a prefix of the {} accepted bytes; {}", st.accepted, describe(&st)));
                    break REnd::Err("harness".into());
                }
                if let Some(s) = st.sized
                    && k as u64 > s
                {
                    viol("read-beyond-size", format!("{k} bytes read from a channel of size {s}"));
                }
            }
            Err(e) => {
                kit::probe("reader_error");
                let text = format!("{:?} {e}", e.kind());
                if poke_it && first_error.is_none() {
                    // Read once more after the error: every oracle above applies to the result.
                    first_error = Some(text);
                    continue;
                }
                break REnd::Err(first_error.unwrap_or(text));
            }
        }
    };
    drop(rx);
    world.st.lock().unwrap().r_end = Some(end);
    kit::activity();
}

#[derive(Clone, Copy)]
struct Opts {
    cut: bool,
    poke: bool,
    three: bool,
    /// At least two forwarders in the data path and a reader that goes away early.
    chain_drop: bool,
    /// The value that carries a half is larger than `max_data_size`: it is serialised twice
    /// (buffered attempt, then streamed by a helper thread).
    big_carrier: bool,
}

async fn run(opts: Opts) {
    STREAMED_CARRIER.with(|s| s.set(opts.big_carrier));
    kit::draw_sched_policy();
    kit::set_port_space(if kit::coin(1, 2) { 0 } else { 256 });
    let n_ep = if opts.three { 3 } else { 2 };

    // Configurations: one per endpoint.
    let mut cfgs = Vec::new();
    for _ in 0..n_ep {
        let mut c = mux::draw_cfg(CfgProfile::Tiny);
        // The carrier value (a few dozen bytes) must fit into one buffered message; ports must not run out.
        c.max_data_size = if opts.big_carrier { kit::pick(&[64usize, 100]) } else { kit::pick(&[512usize, 4096]) };
        c.max_ports = kit::pick(&[16u32, 64]);
        c.max_received_ports = 128;
        c.connection_timeout = None;
        cfgs.push(c);
    }
    let mut senders: Vec<BTreeMap<usize, BaseTx>> = (0..n_ep).map(|_| BTreeMap::new()).collect();
    let mut conn_done: Vec<BTreeMap<usize, Arc<Mutex<bool>>>> = (0..n_ep).map(|_| BTreeMap::new()).collect();
    let mut receivers = Vec::new();
    let mut ctls: Vec<LinkCtl> = Vec::new();
    let mut conns = Vec::new();
    let mut links = Vec::new();
    for l in 0..n_ep - 1 {
        let link_cfg = LinkCfg::draw();
        links.push(format!("{link_cfg:?}"));
        let name = if l == 0 { "AB" } else { "BC" };
        let pair = match mux::connect_rch::<Msg, Msg>(name, cfgs[l].clone(), cfgs[l + 1].clone(), link_cfg, MonitorMode::Full).await {
            Ok(p) => p,
            Err(e) => {
                kit::abort_run(format!("setup failed: {e}"));
                return;
            }
        };
        let mux::RchPair { a_tx, a_rx, b_tx, b_rx, conn_a, conn_b, ctl } = pair;
        senders[l].insert(l + 1, Arc::new(tokio::sync::Mutex::new(a_tx)));
        senders[l + 1].insert(l, Arc::new(tokio::sync::Mutex::new(b_tx)));
        receivers.push((l, l + 1, a_rx));
        receivers.push((l + 1, l, b_rx));
        for (e, n, conn) in [(l, l + 1, conn_a), (l + 1, l, conn_b)] {
            let flag = Arc::new(Mutex::new(false));
            conn_done[e].insert(n, flag.clone());
            conns.push(kit::spawn(async move {
                let _ = conn.await;
                *flag.lock().unwrap() = true;
                kit::activity();
            }));
        }
        if std::env::var_os("SIM_TRACE").is_some() {
            ctl.enable_trace();
        }
        ctls.push(ctl);
    }

    // Placement.
    let creator = kit::draw(n_ep as u32) as usize;
    let mut placements = Vec::new();
    for w in 0..n_ep {
        for r in 0..n_ep {
            let ok = if opts.chain_drop { w != creator } else { w != creator || r != creator };
            if ok {
                placements.push((w, r));
            }
        }
    }
    placements.sort_by_key(|(w, r)| (*w != creator) as usize + path(creator, *w).len() + path(creator, *r).len());
    let (w_at, r_at) = kit::pick(&placements);
    let both_remote = w_at != creator && r_at != creator;
    match (w_at == creator, r_at == creator) {
        (true, false) => kit::probe("place_rx_remote"),
        (false, true) => kit::probe("place_tx_remote"),
        _ => kit::probe("place_both_remote"),
    }
    if path(creator, w_at).len() > 1 || path(creator, r_at).len() > 1 {
        kit::probe("place_two_hops");
    }

    // Stream plan. Sizes are governed by the chunk size the writer will see and by the receive buffers.
    let cs = cfgs.iter().map(|c| c.chunk_size as usize).min().unwrap();
    let cs_max = cfgs.iter().map(|c| c.chunk_size as usize).max().unwrap();
    let rb = cfgs.iter().map(|c| c.receive_buffer as usize).min().unwrap();
    let planned = match kit::draw(6) {
        0 => 0,
        1 => kit::draw(4) as usize,
        2 => kit::pick(&[cs - 1, cs, cs + 1, cs_max, rb - 1, rb, rb + 1]).min(8 * cs_max),
        _ => kit::draw((8 * cs_max) as u32 + 1) as usize,
    };
    let sized: Option<u64> = match kit::draw(5) {
        0 | 1 => None,
        2 | 3 => Some(planned as u64),
        _ => {
            // short or over-long with respect to the plan
            if kit::coin(1, 2) { Some((planned + 1 + kit::draw(cs as u32 + 2) as usize) as u64) } else { Some(planned.saturating_sub(1 + kit::draw(cs as u32 + 2) as usize) as u64) }
        }
    };
    let payload = mux::payload(18, 1, planned);
    let lens = [0usize, 1, 2, cs.saturating_sub(1), cs, cs + 1, 2 * cs, cs_max, rb.saturating_sub(1), rb, rb + 1, 3 * cs + 1];
    let mut ops = Vec::new();
    let mut budget = planned + 2 * cs;
    let mut n_writes = 0;
    let may_move = kit::coin(1, 4);
    let hops_w = path(creator, w_at).len();
    let hops_r = path(creator, r_at).len();
    let force_moves = if opts.chain_drop { 3usize.saturating_sub(hops_w + both_remote as usize) } else { 0 };
    let mut moved = 0;
    let mut at = w_at;
    while budget > 0 && n_writes < 20 {
        let len = if kit::coin(1, 3) { kit::draw(2 * cs_max as u32 + 2) as usize } else { kit::pick(&lens) }.min(budget.max(1));
        ops.push(if kit::coin(1, 3) { WOp::WriteAll(len) } else { WOp::Write(len) });
        budget = budget.saturating_sub(len.max(1));
        n_writes += 1;
        let d = if moved < force_moves { 3 } else { kit::draw(12) };
        match d {
            0 | 1 => ops.push(WOp::Flush),
            2 => ops.push(WOp::Pause(kit::pick(&[10u32, 1500, 30_000]))),
            3 if (may_move || moved < force_moves) && moved < 2 => {
                // Hand the sender over to a neighbouring endpoint.
                let dest = if at == 0 {
                    1
                } else if at == n_ep - 1 {
                    at - 1
                } else if kit::coin(1, 2) {
                    at + 1
                } else {
                    at - 1
                };
                ops.push(WOp::Move(dest));
                at = dest;
                moved += 1;
            }
            _ => {}
        }
        if moved >= force_moves && kit::coin(1, 12) {
            break;
        }
    }
    // Number of chmux forwarders between the writer and the reader.
    let forwarders = hops_w.saturating_sub(1) + hops_r.saturating_sub(1) + moved + both_remote as usize;
    let second_half = both_remote || (w_at == creator && moved > 0);
    if forwarders >= 2 {
        kit::probe("two_or_more_forwarders");
    }
    if second_half {
        kit::probe("second_half_of_local_channel_sent");
    }
    // Ending: 0 = flush + shutdown, 1 = shutdown only, 2 = flush then drop, 3 = plain drop.
    let ending = kit::pick(&[0u32, 0, 1, 1, 2, 3]);
    match ending {
        0 => {
            ops.push(WOp::Flush);
            ops.push(WOp::Shutdown);
        }
        1 => ops.push(WOp::Shutdown),
        2 => ops.push(WOp::Flush),
        _ => {}
    }
    if ending <= 1 && kit::coin(1, 4) {
        // Nothing may be accepted after shutdown.
        ops.push(WOp::Write(kit::pick(&[1usize, cs])));
        ops.push(WOp::Shutdown);
    }
    let read_sizes: Vec<usize> = (0..kit::draw_range(1, 4))
        .map(|_| kit::pick(&[1usize, 2, 3, cs.saturating_sub(1).max(1), cs, cs + 1, rb, 4 * cs_max + 3, 4096]))
        .collect();
    let stop_after = if opts.chain_drop {
        Some(kit::draw(planned as u32 / 2 + 1) as usize)
    } else if kit::coin(1, 8) {
        Some(kit::draw(planned as u32 + 1) as usize)
    } else {
        None
    };
    // In the streamed-carrier scenario the bulk of the value comes before or after the half.
    let bulk_first = kit::coin(1, 2);
    let bulk = if opts.big_carrier { kit::pick(&[200usize, 700]) } else { 0 };
    let pad_len = if opts.big_carrier { if bulk_first { bulk } else { 0 } } else { kit::pick(&[0usize, 0, 7, 40]) };
    let tail_len = if opts.big_carrier && !bulk_first { bulk } else { 0 };

    let plan = json!({
        "endpoints": n_ep, "creator": creator, "writer_at": w_at, "reader_at": r_at,
        "sized": sized, "planned_bytes": planned, "ops": format!("{ops:?}"), "read_sizes": read_sizes, "reader_stops_after": stop_after,
        "cfgs": cfgs.iter().map(|c| format!("chunk_size {} receive_buffer {} max_data_size {} shared_send_queue {}", c.chunk_size, c.receive_buffer, c.max_data_size, c.shared_send_queue)).collect::<Vec<_>>(),
        "links": links, "cut": opts.cut, "forwarders": forwarders, "second_half_of_local_channel_sent": second_half,
    });
    kit::mix_plan(kit::hash_str(&plan.to_string()));
    kit::set_sample(plan);

    let world = Arc::new(World {
        senders,
        conn_done,
        st: Mutex::new(St {
            sized,
            payload,
            ops,
            read_sizes,
            stop_after,
            w_at,
            w_in_transit: true,
            r_in_transit: true,
            w_flushed_all: true,
            poke_after_error: opts.poke,
            ..Default::default()
        }),
        faulty: opts.cut,
    });
    let mut loops = Vec::new();
    for (e, n, rx) in receivers {
        loops.push(kit::spawn(recv_loop(world.clone(), e, n, rx)));
    }

    if opts.cut {
        let l = kit::draw(ctls.len() as u32) as usize;
        let dir = kit::draw(2) as usize;
        let at = ctls[l].sent(dir) + kit::draw(40) as u64;
        let kind = kit::pick(&[FaultKind::SinkError, FaultKind::StreamError, FaultKind::Eof]);
        ctls[l].add_fault(Fault { dir, at, kind, heal_after_us: None });
    }

    // Create the channel and dispatch the halves.
    let (tx, rx) = match sized {
        Some(s) => io::sized(s),
        None => io::channel(),
    };
    let tx_first = kit::coin(1, 2);
    let mut tx = Some(tx);
    let mut rx = Some(rx);
    for step in 0..2 {
        let do_tx = (step == 0) == tx_first;
        if do_tx {
            let tx = tx.take().unwrap();
            if w_at == creator {
                kit::spawn(writer(world.clone(), creator, path(creator, r_at)[0] as usize, tx));
            } else if let Err(e) = ship(&world, creator, Msg::Tx { route: path(creator, w_at), pad: vec![0xAA; pad_len], tx, tail: vec![0xCC; tail_len] }).await {
                world.st.lock().unwrap().w_lost = Some(format!("initial send failed: {e}"));
            }
        } else {
            let rx = rx.take().unwrap();
            if r_at == creator {
                kit::spawn(reader(world.clone(), rx));
            } else if let Err(e) = ship(&world, creator, Msg::Rx { route: path(creator, r_at), pad: vec![0xBB; pad_len], rx, tail: vec![0xDD; tail_len] }).await {
                world.st.lock().unwrap().r_lost = Some(format!("initial send failed: {e}"));
            }
        }
        if kit::coin(1, 4) {
            tokio::time::sleep(Duration::from_micros(kit::pick(&[50u64, 5000]))).await;
        }
    }

    kit::settle().await;
    if kit::is_aborted() {
        return;
    }

    {
        let st = world.st.lock().unwrap();
        let any_conn_down = world.conn_done.iter().any(|m| m.values().any(|d| *d.lock().unwrap()));
        let healthy = !world.faulty && !any_conn_down;
        if world.faulty && any_conn_down {
            kit::probe("link_cut_took_effect");
        }
        if st.accepted > 0 && st.r_started {
            kit::set_nontrivial();
        }
        'judge: {
            if healthy {
                if let Some(e) = st.w_lost.as_ref().or(st.r_lost.as_ref()) {
                    viol("half-not-transferred", format!("{e}; {}", describe(&st)));
                    break 'judge;
                }
                if !st.w_started || !st.r_started || st.w_in_transit {
                    viol("half-not-delivered", format!("a half never arrived at its endpoint on a healthy connection; {}", describe(&st)));
                    break 'judge;
                }
            }
            // Liveness: nobody is pending at quiescence.
            let w_gone = !st.w_started || st.w_in_transit || st.w_lost.is_some();
            if st.w_started && !st.w_in_transit && st.w_lost.is_none() && !st.w_done {
                viol("writer-hangs", format!("writer still pending at quiescence (op {} of {}); {}", st.next_op, st.ops.len(), describe(&st)));
                break 'judge;
            }
            if st.r_started && st.r_end.is_none() {
                viol("reader-hangs", format!("reader still pending at quiescence (writer gone: {w_gone}); {}", describe(&st)));
                break 'judge;
            }
            if !st.r_started {
                break 'judge;
            }
            let r_end = st.r_end.clone().unwrap();
            let early_stop = r_end == REnd::Dropped;
            if healthy && st.w_error.is_some() && !early_stop {
                viol("writer-failed", format!("writer failed on a healthy connection with a reader that reads everything; {}", describe(&st)));
                break 'judge;
            }
            if early_stop {
                break 'judge;
            }
            // Was the stream finished properly (all accepted bytes handed over, size known to match)?
            let complete = match st.sized {
                Some(s) => st.accepted as u64 == s && st.w_flushed_all && st.w_error.is_none(),
                None => matches!(st.w_shutdown, Some(Ok(_))) && st.w_error.is_none(),
            };
            let short = match st.sized {
                Some(s) => (st.accepted as u64) < s,
                None => !matches!(st.w_shutdown, Some(Ok(_))),
            };
            if healthy && complete {
                kit::probe("complete_stream");
                if r_end != REnd::Eof || st.read.len() != st.accepted {
                    viol("complete-stream-failed", format!("a properly finished stream on a healthy connection did not end with Ok(0) after all bytes; {}", describe(&st)));
                }
            }
            if short {
                kit::probe("short_stream");
                if r_end == REnd::Eof {
                    viol("short-stream-eof", format!("short or unfinished stream ended with Ok(0); {}", describe(&st)));
                } else {
                    kit::probe("short_stream_reader_error");
                }
            }
        }
    }

    if std::env::var_os("SIM_TRACE").is_some() {
        for (i, ctl) in ctls.iter().enumerate() {
            ctl.with(|l| {
                let mut after_data = false;
                for (dir, idx, data) in l.trace.as_deref().unwrap_or(&[]) {
                    let d = crate::proto::decode(data);
                    if after_data {
                        after_data = false;
                        kit::note(format!("link {i} dir {dir} #{idx}:      payload {:?}", data));
                        continue;
                    }
                    if let Ok(crate::proto::Frame::Data { port, .. }) = d {
                        after_data = true;
                        if port <= 3 { continue; }
                    }
                    if let Ok(crate::proto::Frame::PortCredits { port, .. }) = d && port <= 3 { continue; }
                    kit::note(format!("link {i} dir {dir} #{idx}: {:?} ({}B)", crate::proto::decode(data), data.len()));
                }
            });
        }
    }
    for l in loops {
        l.abort();
    }
    for c in conns {
        c.abort();
    }
}

const BASE: Opts = Opts { cut: false, poke: false, three: false, chain_drop: false, big_carrier: false };

fn sc_two() -> ScenarioFuture {
    Box::pin(run(BASE))
}

fn sc_three() -> ScenarioFuture {
    Box::pin(run(Opts { three: true, ..BASE }))
}

fn sc_cut() -> ScenarioFuture {
    Box::pin(async {
        let three = kit::coin(1, 2);
        run(Opts { cut: true, three, ..BASE }).await
    })
}

fn sc_poke() -> ScenarioFuture {
    Box::pin(async {
        let three = kit::coin(1, 3);
        run(Opts { cut: true, poke: true, three, ..BASE }).await
    })
}

fn sc_big_carrier() -> ScenarioFuture {
    Box::pin(async {
        let three = kit::coin(1, 2);
        run(Opts { three, big_carrier: true, ..BASE }).await
    })
}

fn sc_chain_drop() -> ScenarioFuture {
    Box::pin(run(Opts { three: true, chain_drop: true, ..BASE }))
}

pub fn checks() -> Vec<Check> {
    vec![Check {
        id: "C18",
        level: "exploration",
        classes: vec!["c18"],
        scenarios: vec![
            Scenario { name: "io-two-endpoints", weight: 4, max_polls: 400_000, max_virtual_secs: 48 * 3600, run: sc_two },
            Scenario { name: "io-three-endpoints", weight: 4, max_polls: 400_000, max_virtual_secs: 48 * 3600, run: sc_three },
            Scenario { name: "io-link-cut", weight: 3, max_polls: 400_000, max_virtual_secs: 48 * 3600, run: sc_cut },
            Scenario { name: "io-use-after-error", weight: 1, max_polls: 400_000, max_virtual_secs: 48 * 3600, run: sc_poke },
            Scenario { name: "io-forward-chain-reader-drop", weight: 1, max_polls: 400_000, max_virtual_secs: 48 * 3600, run: sc_chain_drop },
            Scenario { name: "io-streamed-carrier", weight: 1, max_polls: 400_000, max_virtual_secs: 48 * 3600, run: sc_big_carrier },
        ],
        quick: (200_000, 50),
        thorough: (3_000_000, 600),
        rule: "each evaluation is one seeded run: 2 or 3 endpoints with drawn configurations and link profiles, scheduler policy, one sized or unsized I/O channel whose halves \
are placed local / remote / both remote (1..2 hops, optional mid-stream hand-over of the sender), a byte string of 0..8*chunk_size bytes split into up to 20 writes with flushes and pauses, \
an ending (flush+shutdown, shutdown, flush+drop, drop; short and over-long with respect to the fixed size), drawn read buffer sizes, optional early drop of the reader, optional link cut at a drawn frame; \
non-trivial = at least one byte accepted and the reader started; distinct = distinct (plan hash, poll-order hash) pairs",
        assumptions: vec![
            "bytes count as accepted when write returns Ok(n); the reference is updated in the same poll",
            "except in scenario io-streamed-carrier the carrier value fits into one buffered message (max_data_size >= 512): a carrier that is serialised twice (buffered attempt, then streamed) destroys the I/O half (known finding io.serialize:half-destroyed-by-streamed-carrier)",
            "a stream counts as properly finished if (sized) all bytes were accepted and flushed or (unsized) shutdown returned Ok",
        ],
        required_probes: vec![
            "reader_eof_ok",
            "reader_error",
            "overlong_write_refused",
            "short_shutdown_refused",
            "short_stream_reader_error",
            "dropped_without_flush",
            "dropped_without_shutdown",
            "partial_write",
            "empty_write",
            "place_both_remote",
            "second_half_of_local_channel_sent",
            "two_or_more_forwarders",
            "reader_dropped_early",
            "use_after_error_fails_again",
            "place_two_hops",
            "sender_moved_midstream",
            "link_cut_took_effect",
            "complete_stream",
        ],
        real_components: "remoc::rch::io sender/receiver, rch::bin, rch::oneshot/mpsc (size message), rch::base, chmux incl. port forwarding, Connect::framed, default codec",
        stub_components: STUB_NET,
    }]
}
