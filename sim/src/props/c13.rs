//! C13 — a mirror of an observable collection equals the collection.
//!
//! For each of the five observable collections: random initial contents, operation sequences over
//! the full mutating API, subscriptions (snapshot / incremental) taken anywhere in the sequence and
//! consumed by local mirrors, remote mirrors (1–2 connections), mirrors re-subscribed from mirrors and
//! by hand (events replayed onto a plain std collection). Event buffers are large: lag is C14's subject.
//!
//! Oracle (see `robs_common.rs`): reference = the same operations on std collections. At every
//! quiescence each mirror / replayed stream == observable == reference, `is_complete`, `is_done` ⇔
//! `done()` was called, hand-consumed streams carry exactly one event per expected event and reproduce
//! the reference after *every* event; at any time a mirror's contents are a state of the history
//! (monotone) or a part of the snapshot of an incremental subscription that is not complete yet.

use remoc::robs::{hash_map::ObservableHashMap, hash_set::ObservableHashSet, list::ObservableList, vec::ObservableVec, vec_deque::ObservableVecDeque};

use super::{
    robs_colls::Key,
    robs_common::{GenOpts, Opts, run},
};
use crate::{
    harness::{Check, Scenario, ScenarioFuture},
    props::STUB_NET,
};

fn opts(retain_mutates: bool, set_tags: bool, hash: bool) -> Opts {
    opts2(retain_mutates, set_tags, hash, false)
}

fn opts2(retain_mutates: bool, set_tags: bool, hash: bool, incremental_after_done: bool) -> Opts {
    Opts {
        class: "c13",
        genr: GenOpts { retain_mutates, set_tags, grow_only_push: false, max_len: 24 },
        small_buffers: false,
        small_max_size: false,
        remote: true,
        cut: false,
        drop_before_done: false,
        resub: true,
        exact: !(retain_mutates || set_tags),
        max_steps: 40,
        hash_order_on_wire: hash,
        incremental_after_done,
        resub_incomplete_remote: incremental_after_done,
    }
}

fn sc_vec() -> ScenarioFuture {
    // Retain / RetainNot events carry a HashSet<usize>: its wire order depends on the hash seed.
    Box::pin(run::<ObservableVec<u16>>(opts(false, false, true)))
}
fn sc_deque() -> ScenarioFuture {
    Box::pin(run::<ObservableVecDeque<u16>>(opts(false, false, true)))
}
fn sc_map() -> ScenarioFuture {
    Box::pin(run::<ObservableHashMap<Key, u16>>(opts(false, false, true)))
}
fn sc_map_retain_mut() -> ScenarioFuture {
    Box::pin(run::<ObservableHashMap<Key, u16>>(opts(true, false, true)))
}
fn sc_set() -> ScenarioFuture {
    Box::pin(run::<ObservableHashSet<Key>>(opts(false, false, true)))
}
fn sc_set_tags() -> ScenarioFuture {
    Box::pin(run::<ObservableHashSet<Key>>(opts(false, true, true)))
}
fn sc_vec_incr_after_done() -> ScenarioFuture {
    Box::pin(run::<ObservableVec<u16>>(opts2(false, false, true, true)))
}
fn sc_map_incr_after_done() -> ScenarioFuture {
    Box::pin(run::<ObservableHashMap<Key, u16>>(opts2(false, false, true, true)))
}
fn sc_list() -> ScenarioFuture {
    Box::pin(run::<ObservableList<u16>>(opts(false, false, false)))
}

pub fn checks() -> Vec<Check> {
    let sc = |name, weight, run| Scenario { name, weight, max_polls: 600_000, max_virtual_secs: 48 * 3600, run };
    vec![Check {
        id: "C13",
        level: "exploration",
        classes: vec!["c13"],
        scenarios: vec![
            sc("vec", 5, sc_vec),
            sc("vec-deque", 5, sc_deque),
            sc("hash-map", 5, sc_map),
            sc("hash-map-retain-mutating", 1, sc_map_retain_mut),
            sc("hash-set", 4, sc_set),
            sc("hash-set-tagged-elements", 1, sc_set_tags),
            sc("list", 2, sc_list),
            sc("vec-subscription-corner-cases", 1, sc_vec_incr_after_done),
            sc("hash-map-subscription-corner-cases", 1, sc_map_incr_after_done),
        ],
        quick: (30_000, 50),
        thorough: (300_000, 600),
        rule: "each evaluation is one seeded run: one collection type, drawn initial contents, 3..40 steps (operations over the full mutating API incl. no-op cases, \
subscriptions in snapshot/incremental mode consumed by local mirrors, mirrors 1-2 connections away, mirrors re-subscribed from mirrors and hand-consumed event streams, \
borrow/borrow_and_update peeks, pauses, intermediate quiescence checks, done()), scheduler policy, link and chmux configurations; non-trivial = at least one subscriber and \
two events; distinct = distinct (plan hash, poll-order hash) pairs",
        assumptions: vec![
            "reference semantics: the same call on the std collection (BTreeMap-based models for hash containers, existing key/element objects are kept on insert as in std)",
            "element and key values have a constant encoded size so that std's per-process hash seed cannot change frame counts; wire bytes of hash-ordered data are kept out of the trace hash",
            "event buffers of 4096 events and max_size 100000 so that Lagged / MaxSizeExceeded cannot legitimately occur",
            "the scenarios hash-map-retain-mutating and hash-set-tagged-elements contain the triggers of the known findings; all other scenarios avoid them",
        ],
        required_probes: vec![
            "mirror_local", "mirror_remote_1hop", "mirror_remote_2hop", "mirror_resubscribed", "hand_consumer_local", "hand_consumer_remote",
            "subscribe_incremental", "subscribe_snapshot", "subscribe_after_done", "peek_partial_initial", "settle_check", "done_called",
            "op_without_event", "op_with_several_events", "seq.swap_remove_front", "seq.resize", "seq.iter_mut", "seq.retain",
            "map.occupied.insert", "map.entry.and_modify", "map.vacant.insert", "map.iter_mut", "map.retain", "set.replace", "set.take", "list.extend",
        ],
        real_components: "remoc::robs::{vec,vec_deque,hash_map,hash_set,list} observables, subscriptions, mirror tasks; remoc::rch::{broadcast,mpsc,base} incl. port forwarding over 2 connections; remoc::chmux; default codec",
        stub_components: STUB_NET,
    }]
}
