pub mod chmux_wl;
pub mod c01;
pub mod c04;

use crate::harness::Check;

pub fn all() -> Vec<Check> {
    let mut v = Vec::new();
    v.extend(c01::checks());
    v.extend(c04::checks());
    v
}

pub const REAL_CHMUX: &str = "remoc::chmux (ChMux::run dispatcher, ports, credits, client, listener, port allocator), tokio::sync, tokio current-thread scheduler and timer wheel (paused clock)";
pub const STUB_NET: &str = "transport = in-memory simnet link (seeded latency, back-pressure, faults); port numbers / storage keys from the run's PRNG (hook H3); task polls deferrable (hook H1)";
