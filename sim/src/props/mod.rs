pub mod chmux_wl;
pub mod c01;
pub mod c04;
pub mod c05;
pub mod c05b;
pub mod c06;
pub mod c07;
pub mod c08;
pub mod c09;
pub mod c10;
pub mod c11;
pub mod c12;
pub mod c13;
pub mod c14;
pub mod robs_colls;
pub mod robs_common;
pub mod c19;
pub mod rtc_common;
pub mod c15;
pub mod c16;
pub mod c17;
pub mod c18;
pub mod c20;

use crate::harness::Check;

pub fn all() -> Vec<Check> {
    let mut v = Vec::new();
    v.extend(c01::checks());
    v.extend(c04::checks());
    v.extend(c05::checks());
    v.extend(c06::checks());
    v.extend(c07::checks());
    v.extend(c08::checks());
    v.extend(c09::checks());
    v.extend(c10::checks());
    v.extend(c11::checks());
    v.extend(c12::checks());
    v.extend(c13::checks());
    v.extend(c14::checks());
    v.extend(c19::checks());
    v.extend(c15::checks());
    v.extend(c16::checks());
    v.extend(c17::checks());
    v.extend(c18::checks());
    v.extend(c20::checks());
    v
}

pub const REAL_CHMUX: &str = "remoc::chmux (ChMux::run dispatcher, ports, credits, client, listener, port allocator), tokio::sync, tokio current-thread scheduler and timer wheel (paused clock)";
pub const STUB_NET: &str = "transport = in-memory simnet link (seeded latency, back-pressure, faults); port numbers / storage keys from the run's PRNG (hook H3); task polls deferrable (hook H1)";

/// Number of runs for checks that enumerate a case space (quick/thorough run count 0 in their Check).
pub fn dynamic_runs(id: &str, tier: &str) -> u64 {
    match id {
        "C06" => c06::space_runs(if tier == "thorough" { 600 } else { 30 }),
        "C11" => c11::space_runs(if tier == "thorough" { 2000 } else { 180 }),
        _ => 1000,
    }
}
