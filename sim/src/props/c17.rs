//! C17 — remote read/write lock: exclusion, latest-committed reads, no deadlock.
//!
//! `Owner` on endpoint A; `RwLock` / `ReadLock` instances on A (shared cache), on B, on C (direct
//! or forwarded through B) and on A after a round trip through B; cold and warmed caches; several
//! tasks per instance (shared-cache path). Every task stamps invoke / acquire / release / commit
//! events with `kit::seq()`.
//!
//! Oracles
//!  * exclusion: no write-guard interval overlaps a read-guard or another write-guard interval;
//!  * register linearizability (Wing & Gong search, <= 14 ops): a read returns the last commit as of
//!    an instant in [invoke, return]; a committed write is a read-modify-write whose linearization
//!    point lies in [commit invoked, commit returned]; a dropped write guard changes nothing;
//!  * liveness: at quiescence, with every guard released, no request is pending;
//!  * fault-free runs: no request fails.
//!
//! Scenario families
//!  * `gated-*`: the workload never *starts* a read on a previously used or shared cache while a
//!    write request is outstanding (and vice versa). This avoids the trigger of the known deadlock
//!    F4 (see `free-*`), everything else (guards held across write requests, cold readers racing
//!    writers, several writers, remote / forwarded instances) is exercised.
//!  * `free-*`: no such restriction. On the pinned tree this deadlocks (`ReadLock::fetch` takes the
//!    cache write lock while a stale `Value` is cached; the owner waits for that value's drop).
//!  * `holder-cut`: the link of an endpoint that holds a guard is cut; the others must progress.

use std::{
    collections::{BTreeMap, BTreeSet},
    sync::{
        Arc, Mutex,
        atomic::{AtomicBool, Ordering},
    },
    time::Duration,
};

use remoc::robj::rw_lock::{Owner, ReadLock, RwLock};
use serde::{Deserialize, Serialize};
use serde_json::json;
use tokio::sync::Notify;

use crate::{
    harness::{Check, Scenario, ScenarioFuture},
    kit,
    mux::{self, CfgProfile},
    net::LinkCfg,
    props::STUB_NET,
};

// ------------------------------------------------------------------------------------------
// Small mesh of endpoints connected by rch::base channel pairs (shared with C20)
// ------------------------------------------------------------------------------------------

pub mod mesh {
    use std::{
        sync::{Arc, Mutex},
        time::Duration,
    };

    use remoc::{RemoteSend, chmux::Cfg, rch::base};
    use tokio::{sync::Notify, task::JoinHandle};

    use crate::{
        kit,
        mux::{self, ConnResult},
        net::{LinkCfg, LinkCtl},
        proto::MonitorMode,
    };

    pub trait Tagged {
        fn tag(&self) -> u32;
    }

    pub struct Inbox<M> {
        items: Mutex<Vec<(usize, usize, M)>>,
        /// Non-final receive errors (endpoint, link, text).
        pub errors: Mutex<Vec<(usize, usize, String)>>,
        /// Receivers that ended (endpoint, link, reason).
        pub ended: Mutex<Vec<(usize, usize, String)>>,
        notify: Notify,
    }

    pub struct MeshLink<M> {
        pub name: &'static str,
        pub ends: [usize; 2],
        /// Senders `ends[0] -> ends[1]` and `ends[1] -> ends[0]`.
        pub tx: [Option<base::Sender<M>>; 2],
        pub conns: Vec<JoinHandle<ConnResult>>,
        pub routers: Vec<JoinHandle<()>>,
        pub ctl: LinkCtl,
    }

    pub struct Mesh<M> {
        pub links: Vec<MeshLink<M>>,
        pub inbox: Arc<Inbox<M>>,
    }

    async fn router<M: RemoteSend>(inbox: Arc<Inbox<M>>, endpoint: usize, link: usize, mut rx: base::Receiver<M>) {
        loop {
            if kit::is_aborted() {
                break;
            }
            match rx.recv().await {
                Ok(Some(m)) => {
                    kit::activity();
                    inbox.items.lock().unwrap().push((endpoint, link, m));
                    inbox.notify.notify_waiters();
                }
                Ok(None) => {
                    inbox.ended.lock().unwrap().push((endpoint, link, "end".into()));
                    break;
                }
                Err(e) if e.is_final() => {
                    inbox.ended.lock().unwrap().push((endpoint, link, format!("{e}")));
                    break;
                }
                Err(e) => {
                    kit::activity();
                    inbox.errors.lock().unwrap().push((endpoint, link, format!("{e}")));
                    inbox.notify.notify_waiters();
                }
            }
        }
        inbox.notify.notify_waiters();
    }

    impl<M: RemoteSend + Tagged> Mesh<M> {
        /// `specs`: (link name, endpoint x, endpoint y); `cfgs`: chmux configuration per endpoint.
        pub async fn connect(specs: &[(&'static str, usize, usize)], cfgs: &[Cfg], link_cfgs: &[LinkCfg]) -> Result<Self, String> {
            let inbox = Arc::new(Inbox {
                items: Mutex::new(Vec::new()),
                errors: Mutex::new(Vec::new()),
                ended: Mutex::new(Vec::new()),
                notify: Notify::new(),
            });
            let mut links = Vec::new();
            for (i, (name, x, y)) in specs.iter().enumerate() {
                let pair = mux::connect_rch::<M, M>(name, cfgs[*x].clone(), cfgs[*y].clone(), link_cfgs[i], MonitorMode::Full).await?;
                let mux::RchPair { a_tx, a_rx, b_tx, b_rx, conn_a, conn_b, ctl } = pair;
                let r0 = kit::spawn(router(inbox.clone(), *y, i, b_rx));
                let r1 = kit::spawn(router(inbox.clone(), *x, i, a_rx));
                links.push(MeshLink {
                    name,
                    ends: [*x, *y],
                    tx: [Some(a_tx), Some(b_tx)],
                    conns: vec![conn_a, conn_b],
                    routers: vec![r0, r1],
                    ctl,
                });
            }
            Ok(Self { links, inbox })
        }

        /// Index of the link connecting the two endpoints.
        pub fn link_between(&self, a: usize, b: usize) -> Option<usize> {
            self.links.iter().position(|l| (l.ends[0] == a && l.ends[1] == b) || (l.ends[0] == b && l.ends[1] == a))
        }

        pub async fn send(&mut self, link: usize, from: usize, msg: M) -> Result<(), String> {
            let l = &mut self.links[link];
            let dir = if l.ends[0] == from { 0 } else { 1 };
            let Some(tx) = l.tx[dir].as_mut() else { return Err("sender gone".into()) };
            tx.send(msg).await.map_err(|e| format!("{:?}", e.kind))
        }

        pub fn try_take(&self, endpoint: usize, tag: u32) -> Option<(usize, M)> {
            let mut items = self.inbox.items.lock().unwrap();
            let pos = items.iter().position(|(e, _, m)| *e == endpoint && m.tag() == tag)?;
            let (_, link, m) = items.remove(pos);
            Some((link, m))
        }

        /// Waits until the message with the tag arrived at the endpoint (gives up when the whole
        /// simulation has been idle for `idle`).
        pub async fn recv_tag(&self, endpoint: usize, tag: u32, idle: Duration) -> Option<(usize, M)> {
            loop {
                let notified = self.inbox.notify.notified();
                tokio::pin!(notified);
                notified.as_mut().enable();
                if let Some(x) = self.try_take(endpoint, tag) {
                    return Some(x);
                }
                if kit::is_aborted() {
                    return None;
                }
                if tokio::time::timeout(idle, notified).await.is_err() {
                    return self.try_take(endpoint, tag);
                }
            }
        }

        pub fn shutdown(self) {
            for l in self.links {
                for r in l.routers {
                    r.abort();
                }
                for c in l.conns {
                    c.abort();
                }
            }
        }
    }
}

use mesh::{Mesh, Tagged};

// ------------------------------------------------------------------------------------------
// Values and messages
// ------------------------------------------------------------------------------------------

#[derive(Clone, Debug, PartialEq, Eq, Serialize, Deserialize)]
pub struct Val {
    v: u64,
    pad: Vec<u8>,
}

fn val(v: u64, pad_len: usize) -> Val {
    Val { v, pad: mux::payload(17, v as u32, pad_len) }
}

fn val_intact(x: &Val, pad_len: usize) -> bool {
    x.pad == mux::payload(17, x.v as u32, pad_len)
}

#[derive(Serialize, Deserialize)]
enum LockMsg {
    Rw(u32, RwLock<Val>),
    Rd(u32, ReadLock<Val>),
}

impl Tagged for LockMsg {
    fn tag(&self) -> u32 {
        match self {
            LockMsg::Rw(t, _) | LockMsg::Rd(t, _) => *t,
        }
    }
}

enum Lock {
    Rw(RwLock<Val>),
    Rd(ReadLock<Val>),
}

const INIT: u64 = 7;
const NAMES: [&str; 3] = ["A", "B", "C"];

// ------------------------------------------------------------------------------------------
// Plan
// ------------------------------------------------------------------------------------------

#[derive(Clone, Copy, Debug, PartialEq, Eq)]
enum Mode {
    /// No coordination between readers and writers (F4 reachable).
    Free,
    /// Reads on used/shared caches never start while a write request is outstanding.
    Gated,
}

#[derive(Clone, Copy, Debug)]
enum Step {
    Yield,
    Sleep(u32),
}

#[derive(Clone, Debug)]
enum Op {
    Read { hold: Vec<Step>, park: bool },
    Write { hold: Vec<Step>, commit: bool, park: bool, newv: u64 },
    Pause(u32),
}

#[derive(Clone, Debug)]
struct InstPlan {
    /// Endpoints visited, starting at A (0); the last one is where the instance lives.
    path: Vec<usize>,
    rw: bool,
    warm: bool,
}

#[derive(Clone, Debug)]
struct TaskPlan {
    inst: usize,
    ops: Vec<Op>,
}

fn draw_hold() -> Vec<Step> {
    let n = kit::pick(&[0u32, 1, 2, 4, 8]);
    (0..n).map(|_| if kit::coin(1, 2) { Step::Yield } else { Step::Sleep(kit::pick(&[1u32, 50, 2000, 100_000])) }).collect()
}

fn fmt_op(op: &Op) -> String {
    match op {
        Op::Read { hold, park } => format!("Read(hold {} steps{})", hold.len(), if *park { ", park until cut" } else { "" }),
        Op::Write { hold, commit, park, newv } => {
            format!("Write(hold {} steps, {} {newv}{})", hold.len(), if *commit { "commit" } else { "set+drop" }, if *park { ", park until cut" } else { "" })
        }
        Op::Pause(us) => format!("Pause({us}us)"),
    }
}

// ------------------------------------------------------------------------------------------
// History
// ------------------------------------------------------------------------------------------

#[derive(Clone, Copy, Debug, PartialEq, Eq)]
enum Stage {
    AtGate,
    InRead,
    InWrite,
    Holding,
    InCommit,
    Parked,
    Done,
}

#[derive(Clone, Debug)]
struct OpRec {
    task: usize,
    inst: usize,
    cache: usize,
    endpoint: usize,
    write: bool,
    commit: bool,
    /// First use of a cache that nobody else uses.
    cold: bool,
    stage: Stage,
    inv: u64,
    acq: Option<u64>,
    observed: Option<u64>,
    rel: Option<u64>,
    newv: u64,
    commit_ret: Option<(u64, bool)>,
    err: Option<String>,
    /// The instance was already cut off from the owner when the operation was invoked / acquired.
    severed_at_inv: bool,
    severed_at_acq: bool,
}

struct Gate {
    holds: Mutex<BTreeMap<usize, char>>,
    notify: Notify,
}

impl Gate {
    async fn begin(&self, task: usize, kind: char) -> bool {
        let mut waited = false;
        loop {
            let notified = self.notify.notified();
            tokio::pin!(notified);
            notified.as_mut().enable();
            {
                let mut h = self.holds.lock().unwrap();
                if !h.values().any(|k| *k != kind) {
                    h.insert(task, kind);
                    return waited;
                }
            }
            waited = true;
            notified.await;
        }
    }

    fn end(&self, task: usize) {
        if self.holds.lock().unwrap().remove(&task).is_some() {
            self.notify.notify_waiters();
        }
    }
}

struct Inst {
    id: usize,
    cache: usize,
    endpoint: usize,
    lock: Lock,
    /// Number of tasks using the cache of this instance.
    cache_users: usize,
    severed: AtomicBool,
}

struct Shared {
    mode: Mode,
    pad_len: usize,
    hist: Mutex<Vec<OpRec>>,
    gate: Gate,
    cache_used: Vec<AtomicBool>,
    /// A parking operation holds its guard.
    holder_ready: Notify,
    holder_count: Mutex<u32>,
    cut_done: AtomicBool,
    cut_notify: Notify,
    bad_value: Mutex<Option<String>>,
}

impl Shared {
    fn rec<R>(&self, idx: usize, f: impl FnOnce(&mut OpRec) -> R) -> R {
        kit::activity();
        f(&mut self.hist.lock().unwrap()[idx])
    }

    fn check_val(&self, x: &Val, what: &str) {
        if !val_intact(x, self.pad_len) {
            let mut b = self.bad_value.lock().unwrap();
            if b.is_none() {
                *b = Some(format!("{what}: value {} with corrupt padding ({} bytes)", x.v, x.pad.len()));
            }
        }
    }

    async fn wait_cut(&self) {
        loop {
            let notified = self.cut_notify.notified();
            tokio::pin!(notified);
            notified.as_mut().enable();
            if self.cut_done.load(Ordering::SeqCst) {
                return;
            }
            notified.await;
        }
    }
}

async fn hold(steps: &[Step]) {
    for s in steps {
        match s {
            Step::Yield => kit::yield_now().await,
            Step::Sleep(us) => tokio::time::sleep(Duration::from_micros(*us as u64)).await,
        }
        kit::activity();
    }
}

async fn task_actor(sh: Arc<Shared>, inst: Arc<Inst>, task: usize, ops: Vec<Op>) {
    for op in ops {
        if kit::is_aborted() {
            break;
        }
        let severed = inst.severed.load(Ordering::SeqCst);
        match op {
            Op::Pause(us) => {
                tokio::time::sleep(Duration::from_micros(us as u64)).await;
                kit::activity();
            }
            Op::Read { hold: steps, park } => {
                let first_use = !sh.cache_used[inst.cache].swap(true, Ordering::SeqCst);
                let cold = first_use && inst.cache_users == 1;
                let use_gate = sh.mode == Mode::Gated && !cold && !severed;
                let idx = {
                    let mut h = sh.hist.lock().unwrap();
                    h.push(OpRec {
                        task,
                        inst: inst.id,
                        cache: inst.cache,
                        endpoint: inst.endpoint,
                        write: false,
                        commit: false,
                        cold,
                        stage: Stage::AtGate,
                        inv: 0,
                        acq: None,
                        observed: None,
                        rel: None,
                        newv: 0,
                        commit_ret: None,
                        err: None,
                        severed_at_inv: severed,
                        severed_at_acq: false,
                    });
                    h.len() - 1
                };
                if use_gate && sh.gate.begin(task, 'R').await {
                    kit::probe("gate_blocked_reader");
                }
                if inst.severed.load(Ordering::SeqCst) {
                    // Cut off while waiting: the request cannot reach the owner any more.
                    sh.gate.end(task);
                }
                sh.rec(idx, |r| {
                    r.inv = kit::seq();
                    r.stage = Stage::InRead;
                });
                let res = match &inst.lock {
                    Lock::Rw(l) => l.read().await,
                    Lock::Rd(l) => l.read().await,
                };
                match res {
                    Ok(guard) => {
                        let sev = inst.severed.load(Ordering::SeqCst);
                        sh.rec(idx, |r| {
                            r.acq = Some(kit::seq());
                            r.observed = Some(guard.v);
                            r.stage = Stage::Holding;
                            r.severed_at_acq = sev;
                        });
                        sh.check_val(&guard, "read guard");
                        sh.gate.end(task);
                        hold(&steps).await;
                        if park && !sh.cut_done.load(Ordering::SeqCst) {
                            *sh.holder_count.lock().unwrap() += 1;
                            sh.holder_ready.notify_waiters();
                            kit::probe("holder_parked_with_read_guard");
                            sh.wait_cut().await;
                            sh.rec(idx, |r| r.stage = Stage::Parked);
                            // Keep the guard until the run is torn down.
                            std::future::pending::<()>().await;
                        }
                        sh.rec(idx, |r| {
                            r.rel = Some(kit::seq());
                            r.stage = Stage::Done;
                        });
                        drop(guard);
                    }
                    Err(e) => {
                        sh.rec(idx, |r| {
                            r.err = Some(format!("read: {e}"));
                            r.stage = Stage::Done;
                            r.rel = Some(kit::seq());
                        });
                        // A request of a cut-off endpoint may still be in progress at the owner: the
                        // director releases the gate once the system has settled after the cut.
                        if !inst.severed.load(Ordering::SeqCst) {
                            sh.gate.end(task);
                        }
                    }
                }
            }
            Op::Write { hold: steps, commit, park, newv } => {
                let Lock::Rw(lock) = &inst.lock else { continue };
                let use_gate = sh.mode == Mode::Gated && !severed;
                let idx = {
                    let mut h = sh.hist.lock().unwrap();
                    h.push(OpRec {
                        task,
                        inst: inst.id,
                        cache: inst.cache,
                        endpoint: inst.endpoint,
                        write: true,
                        commit,
                        cold: false,
                        stage: Stage::AtGate,
                        inv: 0,
                        acq: None,
                        observed: None,
                        rel: None,
                        newv,
                        commit_ret: None,
                        err: None,
                        severed_at_inv: severed,
                        severed_at_acq: false,
                    });
                    h.len() - 1
                };
                if use_gate && sh.gate.begin(task, 'W').await {
                    kit::probe("gate_blocked_writer");
                }
                if inst.severed.load(Ordering::SeqCst) {
                    sh.gate.end(task);
                }
                sh.rec(idx, |r| {
                    r.inv = kit::seq();
                    r.stage = Stage::InWrite;
                });
                match lock.write().await {
                    Ok(mut guard) => {
                        let sev = inst.severed.load(Ordering::SeqCst);
                        sh.rec(idx, |r| {
                            r.acq = Some(kit::seq());
                            r.observed = Some(guard.v);
                            r.stage = Stage::Holding;
                            r.severed_at_acq = sev;
                        });
                        sh.check_val(&guard, "write guard");
                        hold(&steps).await;
                        if park && !sh.cut_done.load(Ordering::SeqCst) {
                            *sh.holder_count.lock().unwrap() += 1;
                            sh.holder_ready.notify_waiters();
                            kit::probe("holder_parked_with_write_guard");
                            sh.wait_cut().await;
                            sh.rec(idx, |r| r.stage = Stage::Parked);
                            std::future::pending::<()>().await;
                        }
                        // The new value is written into the guard in both cases: a dropped guard
                        // must not publish it.
                        *guard = val(newv, sh.pad_len);
                        if commit {
                            sh.rec(idx, |r| {
                                r.rel = Some(kit::seq());
                                r.stage = Stage::InCommit;
                            });
                            let res = guard.commit().await;
                            sh.rec(idx, |r| {
                                r.commit_ret = Some((kit::seq(), res.is_ok()));
                                if let Err(e) = &res {
                                    r.err = Some(format!("commit: {e}"));
                                }
                                r.stage = Stage::Done;
                            });
                        } else {
                            sh.rec(idx, |r| {
                                r.rel = Some(kit::seq());
                                r.stage = Stage::Done;
                            });
                            drop(guard);
                        }
                        sh.gate.end(task);
                    }
                    Err(e) => {
                        sh.rec(idx, |r| {
                            r.err = Some(format!("write: {e}"));
                            r.stage = Stage::Done;
                            r.rel = Some(kit::seq());
                        });
                        if !inst.severed.load(Ordering::SeqCst) {
                            sh.gate.end(task);
                        }
                    }
                }
            }
        }
    }
    kit::activity();
}

// ------------------------------------------------------------------------------------------
// Register linearizability (Wing & Gong with memoisation)
// ------------------------------------------------------------------------------------------

#[derive(Clone, Debug)]
enum RegOp {
    Read(u64),
    /// Read-modify-write: requires the state `old`, sets `new`. `optional`: may have had no effect.
    Rmw { old: u64, new: u64, optional: bool },
}

#[derive(Clone, Debug)]
struct LinOp {
    inv: u64,
    ret: u64,
    op: RegOp,
    desc: String,
}

fn linearizable(init: u64, ops: &[LinOp]) -> bool {
    fn go(ops: &[LinOp], done: u32, state: u64, dead: &mut BTreeSet<(u32, u64)>) -> bool {
        if done.count_ones() as usize == ops.len() {
            return true;
        }
        if dead.contains(&(done, state)) {
            return false;
        }
        let min_ret = ops.iter().enumerate().filter(|(i, _)| done & (1 << i) == 0).map(|(_, o)| o.ret).min().unwrap();
        for (i, o) in ops.iter().enumerate() {
            if done & (1 << i) != 0 || o.inv > min_ret {
                continue;
            }
            match &o.op {
                RegOp::Read(v) => {
                    if *v == state && go(ops, done | (1 << i), state, dead) {
                        return true;
                    }
                }
                RegOp::Rmw { old, new, optional } => {
                    if *old == state && go(ops, done | (1 << i), *new, dead) {
                        return true;
                    }
                    if *optional && go(ops, done | (1 << i), state, dead) {
                        return true;
                    }
                }
            }
        }
        dead.insert((done, state));
        false
    }
    assert!(ops.len() <= 24);
    go(ops, 0, init, &mut BTreeSet::new())
}

// ------------------------------------------------------------------------------------------
// Run
// ------------------------------------------------------------------------------------------

#[derive(Clone, Copy)]
struct Opts {
    mode: Mode,
    /// Cut the link of a guard holder.
    cut: bool,
    /// Tiny, local-only variant for the F4 witness.
    minimal: bool,
}

fn path_name(p: &[usize]) -> String {
    p.iter().map(|e| NAMES[*e]).collect::<Vec<_>>().join(">")
}

fn fmt_rec(r: &OpRec) -> String {
    let who = format!("t{}@{}#i{}", r.task, NAMES[r.endpoint], r.inst);
    let opt = |x: Option<u64>| x.map(|v| v.to_string()).unwrap_or("-".into());
    if r.write {
        format!(
            "{who} write[inv {} acq {} saw {} rel {} new {} {} ret {}{}{}]",
            r.inv,
            opt(r.acq),
            opt(r.observed),
            opt(r.rel),
            r.newv,
            if r.commit { "commit" } else { "drop" },
            r.commit_ret.map(|(s, ok)| format!("{s}{}", if ok { " ok" } else { " err" })).unwrap_or("-".into()),
            r.err.as_ref().map(|e| format!(" ERR {e}")).unwrap_or_default(),
            if r.stage != Stage::Done { format!(" {:?}", r.stage) } else { String::new() }
        )
    } else {
        format!(
            "{who} read[inv {} acq {} saw {} rel {}{}{}{}]",
            r.inv,
            opt(r.acq),
            opt(r.observed),
            opt(r.rel),
            if r.cold { " cold" } else { "" },
            r.err.as_ref().map(|e| format!(" ERR {e}")).unwrap_or_default(),
            if r.stage != Stage::Done { format!(" {:?}", r.stage) } else { String::new() }
        )
    }
}

async fn run(opts: Opts) {
    kit::draw_sched_policy();
    kit::set_port_space(if kit::coin(1, 2) { 0 } else { 4096 });

    // ---- plan ----
    let paths_all: [&[usize]; 5] = [&[0], &[0, 1], &[0, 2], &[0, 1, 2], &[0, 1, 0]];
    let n_inst = if opts.minimal { 1 } else { kit::draw_range(1, 4) as usize };
    let mut insts: Vec<InstPlan> = Vec::new();
    for i in 0..n_inst {
        let path: Vec<usize> = if opts.minimal {
            vec![0]
        } else if opts.cut && i == 0 {
            // The holder lives on a remote endpoint.
            kit::pick(&[&[0usize, 1][..], &[0, 2], &[0, 1, 2]]).to_vec()
        } else {
            paths_all[kit::pick(&[0usize, 0, 1, 1, 2, 3, 4])].to_vec()
        };
        let rw = i == 0 || kit::coin(2, 3);
        insts.push(InstPlan { path, rw, warm: kit::coin(1, 2) });
    }
    if opts.cut && !insts.iter().any(|p| p.path.len() == 1) && kit::coin(3, 4) {
        // Somebody who is not cut off should be around.
        insts.push(InstPlan { path: vec![0], rw: true, warm: kit::coin(1, 2) });
    }
    // Link to cut: one used by instance 0.
    let cut_link: Option<(usize, usize)> = if opts.cut {
        let p = &insts[0].path;
        let k = kit::draw((p.len() - 1) as u32) as usize;
        let (a, b) = (p[k], p[k + 1]);
        Some((a.min(b), a.max(b)))
    } else {
        None
    };
    let uses_link = |p: &[usize], l: (usize, usize)| p.windows(2).any(|w| (w[0].min(w[1]), w[0].max(w[1])) == l);

    let n_tasks = if opts.minimal { 2 } else { kit::draw_range(1, 5) as usize };
    let mut tasks: Vec<TaskPlan> = Vec::new();
    let mut total_ops = 0;
    let mut next_val = 100u64;
    for t in 0..n_tasks {
        let inst = if t < insts.len() { t } else { kit::draw(insts.len() as u32) as usize };
        let severable = cut_link.map(|l| uses_link(&insts[inst].path, l)).unwrap_or(false);
        let n_ops = kit::draw_range(1, 4).min(12 - total_ops as u32).max(1);
        let mut ops = Vec::new();
        for k in 0..n_ops {
            if total_ops >= 12 {
                break;
            }
            let want_write = insts[inst].rw && kit::coin(2, 5);
            // In the cut scenario the first operation of the first task parks its guard.
            let park = severable && ((t == 0 && k == 0) || kit::coin(1, 6));
            if want_write {
                next_val += 1;
                ops.push(Op::Write { hold: draw_hold(), commit: park || !kit::coin(1, 4), park, newv: next_val });
            } else {
                ops.push(Op::Read { hold: draw_hold(), park });
            }
            total_ops += 1;
            if park {
                break;
            }
            if kit::coin(1, 6) {
                ops.push(Op::Pause(kit::pick(&[1u32, 300, 20_000])));
            }
        }
        tasks.push(TaskPlan { inst, ops });
    }
    let pad_len = kit::pick(&[0usize, 0, 3, 40, 300]);

    // ---- network ----
    let mut need: BTreeSet<(usize, usize)> = BTreeSet::new();
    for p in &insts {
        for w in p.path.windows(2) {
            need.insert((w[0].min(w[1]), w[0].max(w[1])));
        }
    }
    let link_names: BTreeMap<(usize, usize), &'static str> = [((0, 1), "AB"), ((0, 2), "AC"), ((1, 2), "BC")].into_iter().collect();
    let specs: Vec<(&'static str, usize, usize)> = need.iter().map(|l| (link_names[l], l.0, l.1)).collect();
    let mut cfgs = Vec::new();
    for _ in 0..3 {
        let mut c = mux::draw_cfg(if kit::coin(1, 4) { CfgProfile::Default } else { CfgProfile::Roomy });
        c.max_ports = c.max_ports.max(2048);
        c.connection_timeout = None;
        if kit::coin(1, 4) {
            c.max_data_size = kit::pick(&[32usize, 128]);
        }
        cfgs.push(c);
    }
    let link_cfgs: Vec<LinkCfg> = specs.iter().map(|_| LinkCfg::draw()).collect();

    let plan_json = json!({
        "mode": format!("{:?}", opts.mode),
        "pad_len": pad_len,
        "instances": insts.iter().enumerate().map(|(i, p)| format!("i{i}: {} {} {}", path_name(&p.path), if p.rw { "RwLock" } else { "ReadLock" }, if p.warm { "warm" } else { "cold" })).collect::<Vec<_>>(),
        "tasks": tasks.iter().enumerate().map(|(t, p)| format!("t{t} on i{}: {}", p.inst, p.ops.iter().map(fmt_op).collect::<Vec<_>>().join(", "))).collect::<Vec<_>>(),
        "links": specs.iter().zip(&link_cfgs).map(|(s, l)| format!("{}: {l:?}", s.0)).collect::<Vec<_>>(),
        "cut_link": cut_link.map(|l| link_names[&l]),
    });
    kit::mix_plan(kit::hash_str(&plan_json.to_string()));
    kit::set_sample(plan_json);

    let mut mesh: Mesh<LockMsg> = match Mesh::connect(&specs, &cfgs, &link_cfgs).await {
        Ok(m) => m,
        Err(e) => {
            kit::abort_run(format!("setup failed: {e}"));
            return;
        }
    };

    // ---- owner and instances ----
    let owner: Owner<Val> = Owner::new(val(INIT, pad_len));
    let idle = Duration::from_secs(3600);
    let mut cache_of: Vec<usize> = Vec::new();
    let mut locks: Vec<Lock> = Vec::new();
    for (i, p) in insts.iter().enumerate() {
        let mut msg = if p.rw { LockMsg::Rw(i as u32, owner.rw_lock()) } else { LockMsg::Rd(i as u32, owner.read_lock()) };
        for w in p.path.windows(2) {
            let link = mesh.link_between(w[0], w[1]).expect("link exists");
            if let Err(e) = mesh.send(link, w[0], msg).await {
                kit::abort_run(format!("setup: sending lock i{i} {}>{} failed: {e}", NAMES[w[0]], NAMES[w[1]]));
                return;
            }
            msg = match mesh.recv_tag(w[1], i as u32, idle).await {
                Some((_, m)) => m,
                None => {
                    kit::abort_run(format!("setup: lock i{i} did not arrive at {}", NAMES[w[1]]));
                    return;
                }
            };
        }
        // All instances that never left A share the owner's cache.
        cache_of.push(if p.path.len() == 1 { 0 } else { i + 1 });
        locks.push(match msg {
            LockMsg::Rw(_, l) => Lock::Rw(l),
            LockMsg::Rd(_, l) => Lock::Rd(l),
        });
        if p.path.len() > 2 {
            kit::probe("instance_forwarded");
        }
        if p.path.len() > 1 {
            kit::probe("instance_remote");
        }
    }
    let n_caches = insts.len() + 1;
    let mut cache_users = vec![0usize; n_caches];
    for t in &tasks {
        cache_users[cache_of[t.inst]] += 1;
    }

    let sh = Arc::new(Shared {
        mode: opts.mode,
        pad_len,
        hist: Mutex::new(Vec::new()),
        gate: Gate { holds: Mutex::new(BTreeMap::new()), notify: Notify::new() },
        cache_used: (0..n_caches).map(|_| AtomicBool::new(false)).collect(),
        holder_ready: Notify::new(),
        holder_count: Mutex::new(0),
        cut_done: AtomicBool::new(false),
        cut_notify: Notify::new(),
        bad_value: Mutex::new(None),
    });

    // ---- warm-up ----
    let mut fault_free_error: Option<String> = None;
    for (i, p) in insts.iter().enumerate() {
        if !p.warm {
            continue;
        }
        let res = match &locks[i] {
            Lock::Rw(l) => kit::within(idle, l.read()).await,
            Lock::Rd(l) => kit::within(idle, l.read()).await,
        };
        match res {
            Some(Ok(g)) => {
                if g.v != INIT {
                    fault_free_error = Some(format!("warm-up read on i{i} returned {} instead of the initial value", g.v));
                }
                sh.cache_used[cache_of[i]].store(true, Ordering::SeqCst);
                kit::probe("cache_warmed");
            }
            Some(Err(e)) => fault_free_error = Some(format!("warm-up read on i{i} failed: {e}")),
            None => fault_free_error = Some(format!("warm-up read on i{i} never completed")),
        }
    }
    if let Some(e) = fault_free_error {
        kit::class_violation("c17", "unexpected-error", "c17:setup-read-failed", e);
        mesh.shutdown();
        return;
    }

    // ---- actors ----
    let inst_arcs: Vec<Arc<Inst>> = locks
        .into_iter()
        .enumerate()
        .map(|(i, lock)| {
            Arc::new(Inst {
                id: i,
                cache: cache_of[i],
                endpoint: *insts[i].path.last().unwrap(),
                lock,
                cache_users: cache_users[cache_of[i]],
                severed: AtomicBool::new(false),
            })
        })
        .collect();
    let mut handles = Vec::new();
    for (t, tp) in tasks.iter().enumerate() {
        handles.push(kit::spawn(task_actor(sh.clone(), inst_arcs[tp.inst].clone(), t, tp.ops.clone())));
    }

    // ---- cut ----
    let mut cut_seq: Option<u64> = None;
    if let Some(l) = cut_link {
        // Wait until a parking operation holds its guard (or the system went idle).
        {
            let notified = sh.holder_ready.notified();
            tokio::pin!(notified);
            notified.as_mut().enable();
            if *sh.holder_count.lock().unwrap() == 0 {
                let _ = tokio::time::timeout(Duration::from_secs(5), notified).await;
            }
        }
        let delay = kit::pick(&[0u64, 10, 1000, 50_000]);
        if delay > 0 {
            tokio::time::sleep(Duration::from_micros(delay)).await;
        }
        if *sh.holder_count.lock().unwrap() > 0 {
            kit::probe("cut_while_guard_held");
        }
        let li = mesh.link_between(l.0, l.1).unwrap();
        for (i, p) in insts.iter().enumerate() {
            if uses_link(&p.path, l) {
                inst_arcs[i].severed.store(true, Ordering::SeqCst);
            }
        }
        cut_seq = Some(kit::seq());
        mesh.links[li].ctl.cut_now();
        sh.cut_done.store(true, Ordering::SeqCst);
        sh.cut_notify.notify_waiters();
        // Let the owner digest what the cut-off endpoints had in progress, then stop counting
        // their requests as outstanding.
        kit::settle().await;
        let severed_tasks: Vec<usize> = tasks.iter().enumerate().filter(|(_, tp)| inst_arcs[tp.inst].severed.load(Ordering::SeqCst)).map(|(t, _)| t).collect();
        for t in severed_tasks {
            sh.gate.end(t);
        }
    }

    kit::settle().await;
    if kit::is_aborted() {
        return;
    }

    // History as of quiescence (terminating the owner below fails whatever is still pending).
    let hist = sh.hist.lock().unwrap().clone();

    // ---- final value ----
    let final_inv = kit::seq();
    let final_val = kit::within(idle, owner.into_inner()).await;
    let final_ret = kit::seq();

    // ---- judge ----
    let dump = || hist.iter().map(fmt_rec).collect::<Vec<_>>().join("; ");
    let is_sev_late = |r: &OpRec| r.severed_at_inv || r.severed_at_acq;

    if let Some(b) = sh.bad_value.lock().unwrap().clone() {
        kit::class_violation("c17", "corrupt-value", "c17:corrupt-value", b);
    }

    // Exclusion.
    let end_of = |r: &OpRec| -> u64 {
        let e = r.rel.unwrap_or(u64::MAX);
        // Guards of a cut-off endpoint are void from the cut on.
        match cut_seq {
            Some(c) if inst_arcs[r.inst].severed.load(Ordering::SeqCst) => e.min(c),
            _ => e,
        }
    };
    let guards: Vec<&OpRec> = hist
        .iter()
        .filter(|r| r.acq.is_some() && !is_sev_late(r))
        .collect();
    'excl: for (i, w) in guards.iter().enumerate() {
        if !w.write {
            continue;
        }
        for (j, o) in guards.iter().enumerate() {
            if i == j || (o.write && j < i) {
                continue;
            }
            let (ws, we, os, oe) = (w.acq.unwrap(), end_of(w), o.acq.unwrap(), end_of(o));
            if ws < oe && os < we {
                let what = if o.write { "write" } else { "read" };
                kit::class_violation(
                    "c17",
                    "guard-overlap",
                    format!("c17:write-guard-overlaps-{what}-guard"),
                    format!("write guard {} is held together with {what} guard {}; history: {}", fmt_rec(w), fmt_rec(o), dump()),
                );
                break 'excl;
            }
        }
    }

    // Probes about what happened.
    let mut reads_ok = 0;
    let mut commits_ok = 0;
    for r in &hist {
        if r.acq.is_some() && !r.write {
            reads_ok += 1;
            kit::probe("read_guard_acquired");
            if r.endpoint != 0 {
                kit::probe("read_guard_on_remote_endpoint");
            }
        }
        if r.write && r.acq.is_some() {
            kit::probe("write_guard_acquired");
            if r.endpoint != 0 {
                kit::probe("write_guard_on_remote_endpoint");
            }
            if !r.commit && r.rel.is_some() {
                kit::probe("write_guard_dropped_uncommitted");
            }
            if matches!(r.commit_ret, Some((_, true))) {
                commits_ok += 1;
                kit::probe("write_committed");
            }
            // Somebody held a read guard when this write was requested and released it before the
            // write guard was handed out.
            if hist.iter().any(|o| !o.write && o.acq.map(|a| a < r.inv).unwrap_or(false) && o.rel.map(|x| x > r.inv && x < r.acq.unwrap()).unwrap_or(false)) {
                kit::probe("writer_waited_for_read_guard");
            }
            if hist.iter().any(|o| o.write && !std::ptr::eq(o, r) && o.acq.map(|a| a < r.inv).unwrap_or(false) && o.rel.map(|x| x > r.inv).unwrap_or(false)) {
                kit::probe("writer_waited_for_write_guard");
            }
            if let Some(c) = cut_seq
                && r.acq.unwrap() > c
                && !inst_arcs[r.inst].severed.load(Ordering::SeqCst)
            {
                kit::probe("write_guard_acquired_after_cut");
            }
        }
    }
    for (i, a) in hist.iter().enumerate() {
        for b in hist.iter().skip(i + 1) {
            if !a.write && !b.write && a.cache == b.cache && a.task != b.task {
                if let (Some(x), Some(y)) = (a.acq, b.acq) {
                    if x < b.rel.unwrap_or(u64::MAX) && y < a.rel.unwrap_or(u64::MAX) {
                        kit::probe("read_guards_shared_on_one_cache");
                    }
                }
            }
        }
    }
    for r in hist.iter().filter(|r| !r.write && r.acq.is_some()) {
        if hist.iter().any(|w| w.write && w.inv > 0 && w.inv < r.acq.unwrap() && w.commit_ret.map(|c| c.0).or(w.rel).unwrap_or(u64::MAX) > r.inv) {
            kit::probe(if r.cold { "cold_read_raced_write_request" } else { "read_raced_write_request" });
        }
    }
    if reads_ok >= 2 && hist.iter().any(|r| r.write && r.acq.is_some()) {
        kit::set_nontrivial();
    }
    let _ = commits_ok;

    // Uncommitted or unknown values.
    let mut legal: BTreeSet<u64> = BTreeSet::new();
    legal.insert(INIT);
    let mut never_published: BTreeSet<u64> = BTreeSet::new();
    for r in &hist {
        if r.write && r.acq.is_some() {
            if r.commit && r.rel.is_some() {
                legal.insert(r.newv);
            } else {
                never_published.insert(r.newv);
            }
        }
    }
    let mut observed: Vec<(u64, String)> = hist.iter().filter_map(|r| r.observed.map(|v| (v, fmt_rec(r)))).collect();
    if let Some(v) = &final_val {
        observed.push((v.v, "Owner::into_inner".into()));
        sh.check_val(v, "Owner::into_inner");
    }
    for (v, who) in &observed {
        if never_published.contains(v) {
            kit::class_violation(
                "c17",
                "uncommitted-value-visible",
                "c17:uncommitted-value-visible",
                format!("{who} observed {v}, which was only ever written into a write guard that was dropped without commit; history: {}", dump()),
            );
        } else if !legal.contains(v) {
            kit::class_violation("c17", "phantom-value", "c17:phantom-value", format!("{who} observed {v}, which nobody committed; history: {}", dump()));
        }
    }

    // Linearizability over the operations of endpoints that were connected when they ran.
    let mut lin: Vec<LinOp> = Vec::new();
    for r in &hist {
        let sev_inst = inst_arcs[r.inst].severed.load(Ordering::SeqCst);
        if r.write {
            let Some(acq) = r.acq else { continue };
            if is_sev_late(r) {
                continue;
            }
            let obs = r.observed.unwrap();
            match (r.commit, r.rel, r.commit_ret) {
                (true, Some(rel), Some((ret, true))) => lin.push(LinOp { inv: rel, ret, op: RegOp::Rmw { old: obs, new: r.newv, optional: false }, desc: fmt_rec(r) }),
                (true, Some(rel), _) => {
                    // Commit failed or never returned: it may or may not have taken effect; what the
                    // guard showed is a read in any case.
                    lin.push(LinOp { inv: r.inv, ret: acq, op: RegOp::Read(obs), desc: fmt_rec(r) });
                    lin.push(LinOp { inv: rel, ret: u64::MAX, op: RegOp::Rmw { old: obs, new: r.newv, optional: true }, desc: fmt_rec(r) });
                }
                _ => lin.push(LinOp { inv: r.inv, ret: acq, op: RegOp::Read(obs), desc: fmt_rec(r) }),
            }
            let _ = sev_inst;
        } else if let (Some(acq), Some(obs)) = (r.acq, r.observed) {
            if is_sev_late(r) {
                continue;
            }
            lin.push(LinOp { inv: r.inv, ret: acq, op: RegOp::Read(obs), desc: fmt_rec(r) });
        }
    }
    match &final_val {
        Some(v) => lin.push(LinOp { inv: final_inv, ret: final_ret, op: RegOp::Read(v.v), desc: "Owner::into_inner".into() }),
        None => kit::class_violation("c17", "owner-hangs", "c17:owner-into-inner-hangs", "Owner::into_inner never returned".to_string()),
    }
    if lin.len() <= 16 {
        kit::probe("linearizability_checked");
        if !linearizable(INIT, &lin) {
            kit::class_violation(
                "c17",
                "non-linearizable",
                "c17:non-linearizable",
                format!(
                    "no linearization of the register history (initial {INIT}): {}",
                    lin.iter().map(|o| format!("[{}..{}] {:?}", o.inv, if o.ret == u64::MAX { "inf".to_string() } else { o.ret.to_string() }, o.op)).collect::<Vec<_>>().join(", ")
                ),
            );
        }
    } else {
        kit::probe("linearizability_skipped_too_long");
    }
    let _ = lin.iter().map(|o| o.desc.len()).sum::<usize>();

    // Errors on connected endpoints.
    for r in &hist {
        if let Some(e) = &r.err
            && !inst_arcs[r.inst].severed.load(Ordering::SeqCst)
        {
            kit::class_violation("c17", "unexpected-error", "c17:request-failed-on-healthy-connection", format!("{} failed: {e}; history: {}", fmt_rec(r), dump()));
        }
        if r.err.is_some() {
            kit::probe("request_failed_on_cut_off_endpoint");
        }
    }

    // Liveness.
    let pending: Vec<&OpRec> = hist.iter().filter(|r| !matches!(r.stage, Stage::Done | Stage::Parked)).collect();
    let pending_connected: Vec<&&OpRec> = pending.iter().filter(|r| !inst_arcs[r.inst].severed.load(Ordering::SeqCst)).collect();
    if pending.len() > pending_connected.len() {
        kit::probe("request_pending_on_cut_off_endpoint");
    }
    if !pending_connected.is_empty() {
        let stale_reader = pending.iter().any(|r| !r.write && r.stage == Stage::InRead && !r.cold);
        let writer = pending.iter().any(|r| r.write && r.stage == Stage::InWrite);
        let (kind, sig) = if opts.mode == Mode::Free && stale_reader && writer {
            kit::probe("f4_deadlock");
            ("deadlock", "rw_lock.fetch:stale-cache-deadlock")
        } else {
            ("pending-at-quiescence", "c17:pending-at-quiescence")
        };
        kit::class_violation(
            "c17",
            kind,
            sig,
            format!(
                "at quiescence, with every acquired guard released, {} request(s) are still pending: {}; full history: {}",
                pending_connected.len(),
                pending_connected.iter().map(|r| fmt_rec(r)).collect::<Vec<_>>().join("; "),
                dump()
            ),
        );
    } else if hist.iter().any(|r| r.write && r.acq.is_some()) {
        kit::probe("all_requests_completed");
    }

    for h in handles {
        h.abort();
    }
    drop(inst_arcs);
    mesh.shutdown();
}

fn sc_gated() -> ScenarioFuture {
    Box::pin(run(Opts { mode: Mode::Gated, cut: false, minimal: false }))
}

fn sc_free() -> ScenarioFuture {
    Box::pin(run(Opts { mode: Mode::Free, cut: false, minimal: false }))
}

fn sc_free_minimal() -> ScenarioFuture {
    Box::pin(run(Opts { mode: Mode::Free, cut: false, minimal: true }))
}

fn sc_cut() -> ScenarioFuture {
    Box::pin(run(Opts { mode: Mode::Gated, cut: true, minimal: false }))
}

pub fn checks() -> Vec<Check> {
    vec![Check {
        id: "C17",
        level: "exploration",
        classes: vec!["c17"],
        scenarios: vec![
            Scenario { name: "gated-mixed", weight: 6, max_polls: 400_000, max_virtual_secs: 48 * 3600, run: sc_gated },
            Scenario { name: "holder-cut", weight: 3, max_polls: 400_000, max_virtual_secs: 48 * 3600, run: sc_cut },
            Scenario { name: "free-mixed", weight: 2, max_polls: 400_000, max_virtual_secs: 48 * 3600, run: sc_free },
            Scenario { name: "free-local-minimal", weight: 1, max_polls: 400_000, max_virtual_secs: 48 * 3600, run: sc_free_minimal },
        ],
        quick: (9_000, 50),
        thorough: (150_000, 600),
        rule: "each evaluation is one seeded run: owner on A, 1..5 lock instances (RwLock/ReadLock; on A, on B, on C directly or forwarded through B, on A after a round trip; cold or warmed cache), \
1..5 tasks (several may share an instance) with up to 12 read / write+commit / write+drop operations holding their guards for drawn numbers of yields and virtual sleeps, scheduler policy, link profiles, \
optionally a cut of a guard holder's link; non-trivial = at least two read guards and one write guard were acquired; distinct = distinct (plan hash, poll-order hash) pairs",
        assumptions: vec![
            "guard intervals are stamped inside the acquiring/releasing poll (acquire after read()/write() returned, release before the guard is dropped or commit() is invoked), i.e. they are sub-intervals of the real ones",
            "a committed write is one read-modify-write whose effect happens between the invocation and the return of commit(); a commit that failed or never returned may or may not have taken effect",
            "operations of an endpoint that is cut off from the owner are not constrained after the cut (the design has no leases); its guards count as released at the cut",
            "gated scenarios: the workload does not start a read on a used or shared cache while a write request is outstanding, and vice versa (avoids known finding F4 only)",
        ],
        required_probes: vec![
            "read_guard_on_remote_endpoint",
            "write_guard_on_remote_endpoint",
            "writer_waited_for_read_guard",
            "writer_waited_for_write_guard",
            "read_guards_shared_on_one_cache",
            "write_guard_dropped_uncommitted",
            "instance_forwarded",
            "cut_while_guard_held",
            "write_guard_acquired_after_cut",
            "linearizability_checked",
            "all_requests_completed",
        ],
        real_components: "remoc::robj::rw_lock (Owner, RwLock, ReadLock, guards), remoc::rch::{mpsc, oneshot, watch, base} incl. forwarding, remoc::chmux, Connect::framed, tokio::sync",
        stub_components: STUB_NET,
    }]
}
