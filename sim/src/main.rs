#![allow(dead_code)]
mod harness;
mod kit;
mod mux;
mod net;
mod peer;
mod props;
mod proto;

use std::path::Path;

fn usage() -> ! {
    eprintln!("usage: sim check <ID> [--tier quick|thorough] | sim replay <file> [-v] | sim list | sim determinism [ID] [n]");
    std::process::exit(2);
}

fn main() {
    let args: Vec<String> = std::env::args().collect();
    if args.len() < 2 {
        usage();
    }
    if std::env::var_os("SIM_TRACING").is_some() {
        // Debug aid: print remoc's internal tracing events (filter from SIM_TRACING, e.g. "remoc=trace").
        let filter = tracing_subscriber::EnvFilter::new(std::env::var("SIM_TRACING").unwrap_or_default());
        tracing_subscriber::fmt().with_env_filter(filter).without_time().with_target(true).init();
    }
    kit::install();
    let checks = props::all();
    match args[1].as_str() {
        "list" => {
            for c in &checks {
                println!("{} {}", c.id, c.scenarios.iter().map(|s| s.name).collect::<Vec<_>>().join(","));
            }
        }
        "check" => {
            let id = args.get(2).unwrap_or_else(|| usage());
            let mut tier = std::env::var("VERIF_TIER").unwrap_or_else(|_| "quick".into());
            if let Some(i) = args.iter().position(|a| a == "--tier") {
                tier = args.get(i + 1).cloned().unwrap_or(tier);
            }
            let Some(check) = checks.iter().find(|c| c.id == id.as_str()) else {
                eprintln!("unknown check {id}");
                std::process::exit(2);
            };
            std::process::exit(harness::run_check(check, &tier, true));
        }
        "replay" => {
            let file = args.get(2).unwrap_or_else(|| usage());
            let verbose = args.iter().any(|a| a == "-v");
            std::process::exit(harness::replay(&checks, Path::new(file), verbose));
        }
        "determinism" => {
            let id = args.get(2).cloned();
            let n: u64 = args.get(3).and_then(|s| s.parse().ok()).unwrap_or(200);
            std::process::exit(harness::determinism(&checks, id.as_deref(), n));
        }
        _ => usage(),
    }
}
