//! Scripted chmux endpoint built only on the reference codec (`proto`): speaks protocol v2 or v3,
//! can behave correctly or misbehave on purpose. Counterpart of a real endpoint in C08 and C09.

use std::{collections::VecDeque, time::Duration};

use bytes::Bytes;
use futures::{SinkExt, StreamExt};

use crate::{
    net::{SimSink, SimStream},
    proto::{self, Frame, HelloCfg},
};

#[derive(Debug, Clone, PartialEq)]
pub enum PeerMsg {
    Frame(Frame),
    /// Payload frame following a `Data` message.
    Payload { port: u32, first: bool, last: bool, data: Bytes },
    Undecodable(Bytes, String),
}

pub struct Peer {
    pub sink: SimSink,
    pub stream: SimStream,
    expect_payload: Option<(u32, bool, bool)>,
    /// Messages received while waiting for something else.
    pub backlog: VecDeque<PeerMsg>,
    pub remote_hello: Option<HelloCfg>,
    pub closed: bool,
}

impl Peer {
    pub fn new(sink: SimSink, stream: SimStream) -> Self {
        Self { sink, stream, expect_payload: None, backlog: VecDeque::new(), remote_hello: None, closed: false }
    }

    pub async fn send_raw(&mut self, data: Vec<u8>) -> bool {
        if self.sink.feed(Bytes::from(data)).await.is_err() {
            self.closed = true;
            return false;
        }
        if self.sink.flush().await.is_err() {
            self.closed = true;
            return false;
        }
        true
    }

    pub async fn send(&mut self, f: &Frame) -> bool {
        self.send_raw(proto::encode(f)).await
    }

    pub async fn send_data(&mut self, port: u32, first: bool, last: bool, payload: &[u8]) -> bool {
        self.send(&Frame::Data { port, first, last }).await && self.send_raw(payload.to_vec()).await
    }

    /// Receives the next message from the wire (not from the backlog).
    pub async fn recv_wire(&mut self, timeout: Duration) -> Option<PeerMsg> {
        if self.closed {
            return None;
        }
        match tokio::time::timeout(timeout, self.stream.next()).await {
            Err(_) => None,
            Ok(None) | Ok(Some(Err(_))) => {
                self.closed = true;
                None
            }
            Ok(Some(Ok(data))) => {
                if let Some((port, first, last)) = self.expect_payload.take() {
                    return Some(PeerMsg::Payload { port, first, last, data });
                }
                match proto::decode(&data) {
                    Ok(f) => {
                        if let Frame::Data { port, first, last } = &f {
                            self.expect_payload = Some((*port, *first, *last));
                        }
                        if let Frame::Hello { version, timeout_ms, chunk_size, recv_buf, connect_queue } = &f {
                            self.remote_hello = Some(HelloCfg {
                                version: *version,
                                timeout_ms: *timeout_ms,
                                chunk_size: *chunk_size,
                                recv_buf: *recv_buf,
                                connect_queue: *connect_queue,
                            });
                        }
                        Some(PeerMsg::Frame(f))
                    }
                    Err(e) => Some(PeerMsg::Undecodable(data, e)),
                }
            }
        }
    }

    /// Waits (up to `timeout` of virtual time per message) for a message matching `pred`;
    /// everything else goes to the backlog. Pings are dropped.
    pub async fn wait_for(&mut self, timeout: Duration, mut pred: impl FnMut(&PeerMsg) -> bool) -> Option<PeerMsg> {
        if let Some(i) = self.backlog.iter().position(&mut pred) {
            return self.backlog.remove(i);
        }
        for _ in 0..10_000 {
            let msg = self.recv_wire(timeout).await?;
            if matches!(msg, PeerMsg::Frame(Frame::Ping)) {
                continue;
            }
            if pred(&msg) {
                return Some(msg);
            }
            self.backlog.push_back(msg);
        }
        None
    }

    /// Drains whatever arrives within `window` into the backlog.
    pub async fn drain(&mut self, window: Duration) {
        for _ in 0..10_000 {
            match self.recv_wire(window).await {
                Some(PeerMsg::Frame(Frame::Ping)) => {}
                Some(m) => self.backlog.push_back(m),
                None => break,
            }
        }
    }

    /// Performs the handshake: sends Reset and Hello, waits for the remote Hello.
    pub async fn handshake(&mut self, hello: Frame, junk_before: Vec<Vec<u8>>) -> Option<HelloCfg> {
        self.handshake_ext(hello, junk_before, Vec::new()).await
    }

    /// Like `handshake`, with foreign frames also between Reset and Hello (a peer that started
    /// over while it was writing its Hello; leftovers of an earlier connection).
    pub async fn handshake_ext(&mut self, hello: Frame, junk_before: Vec<Vec<u8>>, junk_between: Vec<Vec<u8>>) -> Option<HelloCfg> {
        for j in junk_before {
            if !self.send_raw(j).await {
                return None;
            }
        }
        if !self.send(&Frame::Reset).await {
            return None;
        }
        for j in junk_between {
            if !self.send_raw(j).await {
                return None;
            }
        }
        if !self.send(&hello).await {
            return None;
        }
        self.wait_for(Duration::from_secs(30), |m| matches!(m, PeerMsg::Frame(Frame::Hello { .. }))).await?;
        // Reset frames precede the Hello; forget them.
        self.backlog.retain(|m| !matches!(m, PeerMsg::Frame(Frame::Reset)));
        self.remote_hello
    }
}
