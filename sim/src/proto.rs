//! `refproto`: independent reference codec for chmux protocol v3 and a connection model
//! (port table, credit ledgers, outstanding open requests) that is updated from the wire trace.
//!
//! The layout table is frozen here as data; it is *not* derived from remoc's `msg.rs`.

use std::collections::HashMap;

use crate::kit;

#[derive(Clone, Debug, PartialEq, Eq)]
pub enum Frame {
    Reset,
    Hello { version: u8, timeout_ms: u64, chunk_size: u32, recv_buf: u32, connect_queue: u16 },
    Ping,
    OpenPort { client_port: u32, wait: bool, id: Option<u32> },
    PortOpened { client_port: u32, server_port: u32 },
    Rejected { client_port: u32, no_ports: bool },
    Data { port: u32, first: bool, last: bool },
    PortData { port: u32, first: bool, last: bool, wait: bool, ports: Vec<u32>, ids: Option<Vec<u32>> },
    PortCredits { port: u32, credits: u32 },
    SendFinish { port: u32 },
    ReceiveClose { port: u32 },
    ReceiveFinish { port: u32 },
    ClientFinish,
    ListenerFinish,
    Goodbye,
}

impl Frame {
    pub fn code(&self) -> u8 {
        match self {
            Frame::Reset => 1,
            Frame::Hello { .. } => 2,
            Frame::Ping => 3,
            Frame::OpenPort { .. } => 4,
            Frame::PortOpened { .. } => 5,
            Frame::Rejected { .. } => 6,
            Frame::Data { .. } => 7,
            Frame::PortData { .. } => 8,
            Frame::PortCredits { .. } => 9,
            Frame::SendFinish { .. } => 10,
            Frame::ReceiveClose { .. } => 11,
            Frame::ReceiveFinish { .. } => 12,
            Frame::ClientFinish => 13,
            Frame::ListenerFinish => 14,
            Frame::Goodbye => 15,
        }
    }

    /// Key describing message kind and flag combination (for the completeness self-test of C09).
    pub fn variant_key(&self) -> String {
        match self {
            Frame::OpenPort { wait, id, .. } => format!("OpenPort/wait={}/id={}", *wait as u8, id.is_some() as u8),
            Frame::Rejected { no_ports, .. } => format!("Rejected/no_ports={}", *no_ports as u8),
            Frame::Data { first, last, .. } => format!("Data/first={}/last={}", *first as u8, *last as u8),
            Frame::PortData { first, last, wait, ids, .. } => format!(
                "PortData/first={}/last={}/wait={}/ids={}",
                *first as u8,
                *last as u8,
                *wait as u8,
                ids.is_some() as u8
            ),
            other => format!("{:?}", other).split([' ', '{']).next().unwrap_or("").to_string(),
        }
    }
}

pub const MAGIC: &[u8; 6] = b"CHMUX\0";

struct Rd<'a>(&'a [u8]);

impl<'a> Rd<'a> {
    fn u8(&mut self) -> Result<u8, String> {
        let (&b, rest) = self.0.split_first().ok_or("truncated")?;
        self.0 = rest;
        Ok(b)
    }
    fn take(&mut self, n: usize) -> Result<&'a [u8], String> {
        if self.0.len() < n {
            return Err("truncated".into());
        }
        let (a, b) = self.0.split_at(n);
        self.0 = b;
        Ok(a)
    }
    fn u16(&mut self) -> Result<u16, String> {
        Ok(u16::from_le_bytes(self.take(2)?.try_into().unwrap()))
    }
    fn u32(&mut self) -> Result<u32, String> {
        Ok(u32::from_le_bytes(self.take(4)?.try_into().unwrap()))
    }
    fn u64(&mut self) -> Result<u64, String> {
        Ok(u64::from_le_bytes(self.take(8)?.try_into().unwrap()))
    }
    fn end(&self) -> Result<(), String> {
        if self.0.is_empty() { Ok(()) } else { Err(format!("{} trailing bytes", self.0.len())) }
    }
}

/// Strict decoder: no trailing bytes, no undefined flag bits.
pub fn decode(data: &[u8]) -> Result<Frame, String> {
    let mut r = Rd(data);
    let code = r.u8()?;
    let f = match code {
        1 => Frame::Reset,
        2 => {
            if r.take(6)? != MAGIC {
                return Err("bad magic".into());
            }
            Frame::Hello {
                version: r.u8()?,
                timeout_ms: r.u64()?,
                chunk_size: r.u32()?,
                recv_buf: r.u32()?,
                connect_queue: r.u16()?,
            }
        }
        3 => Frame::Ping,
        4 => {
            let client_port = r.u32()?;
            let flags = r.u8()?;
            if flags & !0b11 != 0 {
                return Err(format!("undefined OpenPort flags {flags:#x}"));
            }
            let id = if flags & 0b10 != 0 { Some(r.u32()?) } else { None };
            Frame::OpenPort { client_port, wait: flags & 1 != 0, id }
        }
        5 => Frame::PortOpened { client_port: r.u32()?, server_port: r.u32()? },
        6 => {
            let client_port = r.u32()?;
            let flags = r.u8()?;
            if flags & !0b1 != 0 {
                return Err(format!("undefined Rejected flags {flags:#x}"));
            }
            Frame::Rejected { client_port, no_ports: flags & 1 != 0 }
        }
        7 => {
            let port = r.u32()?;
            let flags = r.u8()?;
            if flags & !0b11 != 0 {
                return Err(format!("undefined Data flags {flags:#x}"));
            }
            Frame::Data { port, first: flags & 1 != 0, last: flags & 2 != 0 }
        }
        8 => {
            let port = r.u32()?;
            let flags = r.u8()?;
            if flags & !0b1111 != 0 {
                return Err(format!("undefined PortData flags {flags:#x}"));
            }
            let with_ids = flags & 8 != 0;
            let mut ports = Vec::new();
            let mut ids = Vec::new();
            let stride = if with_ids { 8 } else { 4 };
            if r.0.len() % stride != 0 {
                return Err("PortData body not a multiple of entry size".into());
            }
            while !r.0.is_empty() {
                ports.push(r.u32()?);
                if with_ids {
                    ids.push(r.u32()?);
                }
            }
            Frame::PortData {
                port,
                first: flags & 1 != 0,
                last: flags & 2 != 0,
                wait: flags & 4 != 0,
                ports,
                ids: with_ids.then_some(ids),
            }
        }
        9 => Frame::PortCredits { port: r.u32()?, credits: r.u32()? },
        10 => Frame::SendFinish { port: r.u32()? },
        11 => Frame::ReceiveClose { port: r.u32()? },
        12 => Frame::ReceiveFinish { port: r.u32()? },
        13 => Frame::ClientFinish,
        14 => Frame::ListenerFinish,
        15 => Frame::Goodbye,
        other => return Err(format!("unknown message code {other}")),
    };
    r.end()?;
    Ok(f)
}

pub fn encode(f: &Frame) -> Vec<u8> {
    let mut v = vec![f.code()];
    match f {
        Frame::Reset | Frame::Ping | Frame::ClientFinish | Frame::ListenerFinish | Frame::Goodbye => {}
        Frame::Hello { version, timeout_ms, chunk_size, recv_buf, connect_queue } => {
            v.extend_from_slice(MAGIC);
            v.push(*version);
            v.extend_from_slice(&timeout_ms.to_le_bytes());
            v.extend_from_slice(&chunk_size.to_le_bytes());
            v.extend_from_slice(&recv_buf.to_le_bytes());
            v.extend_from_slice(&connect_queue.to_le_bytes());
        }
        Frame::OpenPort { client_port, wait, id } => {
            v.extend_from_slice(&client_port.to_le_bytes());
            v.push((*wait as u8) | ((id.is_some() as u8) << 1));
            if let Some(id) = id {
                v.extend_from_slice(&id.to_le_bytes());
            }
        }
        Frame::PortOpened { client_port, server_port } => {
            v.extend_from_slice(&client_port.to_le_bytes());
            v.extend_from_slice(&server_port.to_le_bytes());
        }
        Frame::Rejected { client_port, no_ports } => {
            v.extend_from_slice(&client_port.to_le_bytes());
            v.push(*no_ports as u8);
        }
        Frame::Data { port, first, last } => {
            v.extend_from_slice(&port.to_le_bytes());
            v.push((*first as u8) | ((*last as u8) << 1));
        }
        Frame::PortData { port, first, last, wait, ports, ids } => {
            v.extend_from_slice(&port.to_le_bytes());
            v.push((*first as u8) | ((*last as u8) << 1) | ((*wait as u8) << 2) | ((ids.is_some() as u8) << 3));
            for (i, p) in ports.iter().enumerate() {
                v.extend_from_slice(&p.to_le_bytes());
                if let Some(ids) = ids {
                    v.extend_from_slice(&ids[i].to_le_bytes());
                }
            }
        }
        Frame::PortCredits { port, credits } => {
            v.extend_from_slice(&port.to_le_bytes());
            v.extend_from_slice(&credits.to_le_bytes());
        }
        Frame::SendFinish { port } | Frame::ReceiveClose { port } | Frame::ReceiveFinish { port } => {
            v.extend_from_slice(&port.to_le_bytes());
        }
    }
    v
}

// ------------------------------------------------------------------------------------------
// Connection model
// ------------------------------------------------------------------------------------------

#[derive(Clone, Copy, Debug, Default)]
pub struct HelloCfg {
    pub version: u8,
    pub timeout_ms: u64,
    pub chunk_size: u32,
    pub recv_buf: u32,
    pub connect_queue: u16,
}

/// One direction of a connected port pair (data flows from `sender` endpoint to the other).
#[derive(Clone, Debug, Default)]
pub struct Ledger {
    /// Cost of frames the sender has handed to its sink.
    pub sent_cost: u64,
    /// Cost of frames delivered to the receiver.
    pub cost_delivered: u64,
    /// Credits the receiver has put on the wire.
    pub credits_granted: u64,
    /// Credits delivered back to the sender.
    pub credits_delivered: u64,
    /// Sender has sent SendFinish.
    pub send_finish_sent: bool,
    pub send_finish_delivered: bool,
    /// Receiver has sent ReceiveFinish.
    pub recv_finish_sent: bool,
    pub recv_finish_delivered: bool,
    pub recv_close_sent: bool,
    pub frames: u64,
    pub zero_cost_frames_run: u64,
}

#[derive(Clone, Debug)]
pub struct Pair {
    /// Endpoint that requested the port.
    pub client_ep: usize,
    pub client_port: u32,
    pub server_port: u32,
    /// ledger[e]: data sent by endpoint e on this pair.
    pub ledger: [Ledger; 2],
}

impl Pair {
    pub fn local_port(&self, ep: usize) -> u32 {
        if ep == self.client_ep { self.client_port } else { self.server_port }
    }

    /// True once endpoint `ep` may legitimately have released its port number:
    /// it has sent both of its finish messages and both of the peer's have been delivered to it.
    pub fn finished_at(&self, ep: usize) -> bool {
        let mine = &self.ledger[ep];
        let theirs = &self.ledger[1 - ep];
        mine.send_finish_sent
            && theirs.recv_finish_sent_by_peer_of_sender()
            && theirs.send_finish_delivered
            && mine.recv_finish_delivered
    }
}

impl Ledger {
    // In ledger[x], `recv_finish_sent` is the flag of the *receiver* of x's data, i.e. the other endpoint.
    fn recv_finish_sent_by_peer_of_sender(&self) -> bool {
        self.recv_finish_sent
    }
}

#[derive(Clone, Copy, Debug, PartialEq, Eq)]
pub enum ReqKind {
    Client,
    PortData,
}

#[derive(Clone, Copy, PartialEq, Eq, Debug)]
pub enum MonitorMode {
    /// Both endpoints are real: full model.
    Full,
    /// Only decode and canonical re-encoding of frames sent by endpoints marked real.
    CodecOnly,
    Off,
}

pub struct Monitor {
    pub name: &'static str,
    pub mode: MonitorMode,
    /// Endpoint runs real remoc code (its emissions are checked).
    pub real: [bool; 2],
    pub hello: [Option<HelloCfg>; 2],
    pub max_ports: [Option<u32>; 2],
    send_payload: [Option<(u32, bool, bool)>; 2],
    deliver_payload: [Option<(u32, bool, bool)>; 2],
    pub pairs: Vec<Pair>,
    by_port: [HashMap<u32, usize>; 2],
    /// Outstanding open requests by requesting endpoint: client_port -> kind.
    pub outstanding: [HashMap<u32, ReqKind>; 2],
    /// Answers (PortOpened/Rejected) delivered to the requester, for client requests.
    pub client_reqs_sent: [u64; 2],
    pub client_answers_delivered: [u64; 2],
    pub frames_sent: [u64; 2],
    pub frames_delivered: [u64; 2],
    pub variants: std::collections::BTreeSet<String>,
    pub max_open_ports: [usize; 2],
    pub goodbye_sent: [bool; 2],
    /// Kinds of answered requests in answer order, per requester (popped at delivery).
    answered_kind: [std::collections::VecDeque<ReqKind>; 2],
}

/// Static probe name for a message variant key (for the completeness self-test of C09).
pub fn variant_static(key: &str) -> &'static str {
    const KEYS: &[&str] = &[
        "Reset", "Hello", "Ping", "PortOpened", "PortCredits", "SendFinish", "ReceiveClose", "ReceiveFinish",
        "ClientFinish", "ListenerFinish", "Goodbye",
        "OpenPort/wait=0/id=0", "OpenPort/wait=0/id=1", "OpenPort/wait=1/id=0", "OpenPort/wait=1/id=1",
        "Rejected/no_ports=0", "Rejected/no_ports=1",
        "Data/first=0/last=0", "Data/first=0/last=1", "Data/first=1/last=0", "Data/first=1/last=1",
        "PortData/first=1/last=1/wait=0/ids=0", "PortData/first=1/last=1/wait=0/ids=1",
        "PortData/first=1/last=1/wait=1/ids=0", "PortData/first=1/last=1/wait=1/ids=1",
        "PortData/first=1/last=0/wait=0/ids=0", "PortData/first=1/last=0/wait=0/ids=1",
        "PortData/first=1/last=0/wait=1/ids=0", "PortData/first=1/last=0/wait=1/ids=1",
        "PortData/first=0/last=1/wait=0/ids=0", "PortData/first=0/last=1/wait=0/ids=1",
        "PortData/first=0/last=1/wait=1/ids=0", "PortData/first=0/last=1/wait=1/ids=1",
        "PortData/first=0/last=0/wait=0/ids=0", "PortData/first=0/last=0/wait=0/ids=1",
        "PortData/first=0/last=0/wait=1/ids=0", "PortData/first=0/last=0/wait=1/ids=1",
    ];
    KEYS.iter().find(|k| **k == key).copied().unwrap_or("variant_other")
}

fn sig(what: &str) -> String {
    format!("wire:{what}")
}

fn cost_of_data(len: usize) -> u64 {
    (len as u64).max(1)
}

impl Monitor {
    pub fn new(name: &'static str, mode: MonitorMode) -> Self {
        Self {
            name,
            mode,
            real: [true, true],
            hello: [None, None],
            max_ports: [None, None],
            send_payload: [None, None],
            deliver_payload: [None, None],
            pairs: Vec::new(),
            by_port: [HashMap::new(), HashMap::new()],
            outstanding: [HashMap::new(), HashMap::new()],
            client_reqs_sent: [0, 0],
            client_answers_delivered: [0, 0],
            frames_sent: [0, 0],
            frames_delivered: [0, 0],
            variants: Default::default(),
            max_open_ports: [0, 0],
            goodbye_sent: [false, false],
            answered_kind: Default::default(),
        }
    }

    fn sig(&self, what: &str) -> String {
        sig(what)
    }

    pub fn pair_of(&self, ep: usize, local_port: u32) -> Option<&Pair> {
        self.by_port[ep].get(&local_port).map(|i| &self.pairs[*i])
    }

    /// Port numbers endpoint `ep` must still hold according to the wire: ports that are not finished
    /// at `ep` plus its unanswered open requests.
    pub fn held_numbers(&self, ep: usize) -> usize {
        self.live_ports(ep) + self.outstanding[ep].len()
    }

    pub fn live_ports(&self, ep: usize) -> usize {
        self.by_port[ep].values().filter(|i| !self.pairs[**i].finished_at(ep)).count()
    }

    fn check_number_free(&mut self, ep: usize, port: u32, ctx: &str) {
        if let Some(i) = self.by_port[ep].get(&port) {
            let pair = &self.pairs[*i];
            if !pair.finished_at(ep) {
                kit::class_violation(
                    "ports",
                    "port-number-reused-early",
                    self.sig("port-number-reused-early"),
                    format!(
                        "{}: endpoint {ep} uses port number {port} for a new {ctx} while its previous port is not finished: {:?}",
                        self.name, pair
                    ),
                );
            } else {
                kit::probe("port_number_reused");
            }
        }
        // Also must not be an outstanding request of this endpoint.
        if self.outstanding[ep].contains_key(&port) {
            kit::class_violation(
                "ports",
                "port-number-reused-early",
                self.sig("port-number-reused-while-connecting"),
                format!("{}: endpoint {ep} uses port number {port} for a new {ctx} while an open request with it is outstanding", self.name),
            );
        }
    }

    /// Called when endpoint `e` hands a frame to its sink.
    pub fn on_send(&mut self, e: usize, data: &[u8]) {
        if self.mode == MonitorMode::Off {
            return;
        }
        let p = 1 - e;
        self.frames_sent[e] += 1;
        kit::mix_trace(kit::hash_bytes(e as u64 + 1, data));

        if let Some((port, _first, _last)) = self.send_payload[e].take() {
            if self.mode != MonitorMode::Full {
                return;
            }
            // Payload frame of a Data message.
            if let Some(h) = self.hello[p]
                && data.len() as u64 > h.chunk_size as u64
            {
                kit::class_violation(
                    "flow",
                    "chunk-size-exceeded",
                    self.sig("chunk-size-exceeded"),
                    format!("{}: endpoint {e} sent payload of {} bytes > advertised chunk size {}", self.name, data.len(), h.chunk_size),
                );
            }
            self.account_sent(e, port, cost_of_data(data.len()), "Data");
            return;
        }

        if !self.real[e] {
            // Frames of a scripted peer are not checked; track Data/payload pairing and its Hello only.
            match decode(data) {
                Ok(Frame::Data { port, first, last }) => self.send_payload[e] = Some((port, first, last)),
                // Only the Hello of the handshake counts (a hostile peer may send more of them later).
                Ok(Frame::Hello { version, timeout_ms, chunk_size, recv_buf, connect_queue }) if self.hello[e].is_none() => {
                    self.hello[e] = Some(HelloCfg { version, timeout_ms, chunk_size, recv_buf, connect_queue });
                }
                _ => {}
            }
            return;
        }

        let frame = match decode(data) {
            Ok(f) => f,
            Err(err) => {
                kit::class_violation(
                    "codec",
                    "undecodable-frame",
                    self.sig("undecodable-frame"),
                    format!("{}: endpoint {e} emitted a frame the reference decoder rejects ({err}): {:02x?}", self.name, data),
                );
                return;
            }
        };
        let canon = encode(&frame);
        if canon != data {
            kit::class_violation(
                "codec",
                "non-canonical-frame",
                self.sig("non-canonical-frame"),
                format!("{}: endpoint {e} emitted {:02x?}, reference encoding of {:?} is {:02x?}", self.name, data, frame, canon),
            );
        }
        let key = frame.variant_key();
        kit::probe(variant_static(&key));
        self.variants.insert(key);
        // No port ids may be sent to a peer that announced a protocol version without them.
        if let Some(h) = self.hello[p]
            && h.version < 3
            && matches!(&frame, Frame::OpenPort { id: Some(_), .. } | Frame::PortData { ids: Some(_), .. })
        {
            kit::class_violation(
                "codec",
                "id-sent-to-v2-peer",
                sig("id-sent-to-v2-peer"),
                format!("{}: endpoint {e} sent {:?} with port ids to a version {} peer", self.name, frame, h.version),
            );
        }

        if self.mode != MonitorMode::Full {
            if let Frame::Data { port, first, last } = frame {
                self.send_payload[e] = Some((port, first, last));
            }
            return;
        }

        match frame {
            Frame::Hello { version, timeout_ms, chunk_size, recv_buf, connect_queue } => {
                self.hello[e] = Some(HelloCfg { version, timeout_ms, chunk_size, recv_buf, connect_queue });
            }
            Frame::OpenPort { client_port, id, .. } => {
                self.check_number_free(e, client_port, "OpenPort");
                self.outstanding[e].insert(client_port, ReqKind::Client);
                self.client_reqs_sent[e] += 1;
                let unanswered = self.client_reqs_sent[e] - self.client_answers_delivered[e];
                if let Some(h) = self.hello[p] {
                    if unanswered > h.connect_queue as u64 {
                        kit::class_violation(
                            "openq",
                            "connect-queue-exceeded",
                            self.sig("connect-queue-exceeded"),
                            format!("{}: endpoint {e} has {unanswered} unanswered OpenPort requests > advertised connect queue {}", self.name, h.connect_queue),
                        );
                    }
                    if unanswered == h.connect_queue as u64 {
                        kit::probe("connect_queue_full");
                    }
                    if h.version < 3 && id.is_some() {
                        kit::class_violation(
                            "codec",
                            "id-sent-to-v2-peer",
                            self.sig("id-sent-to-v2-peer"),
                            format!("{}: endpoint {e} sent OpenPort with id to a version {} peer", self.name, h.version),
                        );
                    }
                }
            }
            Frame::PortOpened { client_port, server_port } => {
                match self.outstanding[p].remove(&client_port) {
                    Some(kind) => self.answered_kind[p].push_back(kind),
                    None => kit::class_violation(
                        "ports",
                        "answer-without-request",
                        self.sig("answer-without-request"),
                        format!("{}: endpoint {e} sent PortOpened for client port {client_port} that has no outstanding request", self.name),
                    ),
                }
                self.check_number_free(e, server_port, "PortOpened");
                let idx = self.pairs.len();
                self.pairs.push(Pair { client_ep: p, client_port, server_port, ledger: Default::default() });
                self.by_port[e].insert(server_port, idx);
                self.by_port[p].insert(client_port, idx);
                for ep in 0..2 {
                    let live = self.live_ports(ep);
                    self.max_open_ports[ep] = self.max_open_ports[ep].max(live);
                }
                if let Some(maxp) = self.max_ports[e] {
                    let live = self.live_ports(e) + self.outstanding[e].len();
                    if live as u64 > maxp as u64 {
                        kit::class_violation(
                            "ports",
                            "max-ports-exceeded",
                            self.sig("max-ports-exceeded"),
                            format!("{}: endpoint {e} has {live} open or requested ports > max_ports {maxp}", self.name),
                        );
                    }
                    if live as u64 == maxp as u64 {
                        kit::probe("max_ports_reached");
                    }
                }
            }
            Frame::Rejected { client_port, .. } => {
                if let Some(kind) = self.outstanding[p].remove(&client_port) {
                    self.answered_kind[p].push_back(kind);
                } else {
                    kit::class_violation(
                        "ports",
                        "answer-without-request",
                        self.sig("answer-without-request"),
                        format!("{}: endpoint {e} sent Rejected for client port {client_port} that has no outstanding request", self.name),
                    );
                }
            }
            Frame::Data { port, first, last } => {
                self.send_payload[e] = Some((port, first, last));
            }
            Frame::PortData { port, ports, ids, .. } => {
                if let Some(h) = self.hello[p] {
                    if (ports.len() * 4) as u64 > h.chunk_size as u64 {
                        kit::class_violation(
                            "flow",
                            "chunk-size-exceeded",
                            self.sig("chunk-size-exceeded-ports"),
                            format!("{}: endpoint {e} sent {} ports in one PortData > advertised chunk size {}", self.name, ports.len(), h.chunk_size),
                        );
                    }
                    if h.version < 3 && ids.is_some() {
                        kit::class_violation(
                            "codec",
                            "id-sent-to-v2-peer",
                            self.sig("id-sent-to-v2-peer"),
                            format!("{}: endpoint {e} sent PortData with ids to a version {} peer", self.name, h.version),
                        );
                    }
                }
                for cp in &ports {
                    self.check_number_free(e, *cp, "PortData request");
                    self.outstanding[e].insert(*cp, ReqKind::PortData);
                }
                if let Some(maxp) = self.max_ports[e] {
                    let live = self.live_ports(e) + self.outstanding[e].len();
                    if live as u64 > maxp as u64 {
                        kit::class_violation(
                            "ports",
                            "max-ports-exceeded",
                            self.sig("max-ports-exceeded"),
                            format!("{}: endpoint {e} has {live} open or requested ports > max_ports {maxp}", self.name),
                        );
                    }
                }
                self.account_sent(e, port, (ports.len() * 4) as u64, "PortData");
            }
            Frame::PortCredits { port, credits } => {
                // Credits for data flowing p -> e. `port` is p's local port.
                if let Some(&i) = self.by_port[p].get(&port) {
                    let l = &mut self.pairs[i].ledger[p];
                    l.credits_granted += credits as u64;
                    if l.credits_granted > l.cost_delivered {
                        let (g, d) = (l.credits_granted, l.cost_delivered);
                        kit::class_violation(
                            "flow",
                            "credits-over-granted",
                            sig("credits-over-granted"),
                            format!("{}: endpoint {e} granted {g} credits in total for port {port} but only {d} were consumed from the wire", self.name),
                        );
                    }
                    if l.recv_finish_sent {
                        kit::class_violation(
                            "ports",
                            "frame-after-finish",
                            sig("credits-after-receive-finish"),
                            format!("{}: endpoint {e} sent PortCredits for port {port} after ReceiveFinish", self.name),
                        );
                    }
                }
            }
            Frame::SendFinish { port } => {
                if let Some(&i) = self.by_port[p].get(&port) {
                    let l = &mut self.pairs[i].ledger[e];
                    if l.send_finish_sent {
                        kit::class_violation(
                            "ports",
                            "duplicate-finish",
                            sig("duplicate-send-finish"),
                            format!("{}: endpoint {e} sent SendFinish twice for remote port {port}", self.name),
                        );
                    }
                    l.send_finish_sent = true;
                }
            }
            Frame::ReceiveClose { port } => {
                if let Some(&i) = self.by_port[p].get(&port) {
                    self.pairs[i].ledger[p].recv_close_sent = true;
                }
            }
            Frame::ReceiveFinish { port } => {
                if let Some(&i) = self.by_port[p].get(&port) {
                    let l = &mut self.pairs[i].ledger[p];
                    if l.recv_finish_sent {
                        kit::class_violation(
                            "ports",
                            "duplicate-finish",
                            sig("duplicate-receive-finish"),
                            format!("{}: endpoint {e} sent ReceiveFinish twice for remote port {port}", self.name),
                        );
                    }
                    l.recv_finish_sent = true;
                }
            }
            Frame::Goodbye => self.goodbye_sent[e] = true,
            Frame::Reset | Frame::Ping | Frame::ClientFinish | Frame::ListenerFinish => {}
        }
    }

    fn account_sent(&mut self, e: usize, remote_port: u32, cost: u64, what: &str) {
        let p = 1 - e;
        let Some(&i) = self.by_port[p].get(&remote_port) else {
            kit::class_violation(
                "ports",
                "frame-for-unknown-port",
                self.sig("frame-for-unknown-port"),
                format!("{}: endpoint {e} sent {what} for remote port {remote_port} which is not connected", self.name),
            );
            return;
        };
        let recv_buf = self.hello[p].map(|h| h.recv_buf as u64);
        let name = self.name;
        let l = &mut self.pairs[i].ledger[e];
        l.sent_cost += cost;
        l.frames += 1;
        if cost == 0 {
            l.zero_cost_frames_run += 1;
            if l.zero_cost_frames_run == 65 {
                kit::class_violation(
                    "c03",
                    "livelock",
                    "c03:zero-cost-frame-flood",
                    format!("{name}: endpoint {e} sent more than 64 consecutive zero-cost {what} frames for remote port {remote_port}"),
                );
                kit::abort_run("zero-cost frame flood");
            }
        } else {
            l.zero_cost_frames_run = 0;
        }
        if l.send_finish_sent {
            kit::class_violation(
                "ports",
                "frame-after-finish",
                "wire:data-after-send-finish",
                format!("{name}: endpoint {e} sent {what} for remote port {remote_port} after SendFinish"),
            );
        }
        if let Some(rb) = recv_buf {
            let outstanding = l.sent_cost - l.credits_delivered.min(l.sent_cost);
            if outstanding > rb {
                kit::class_violation(
                    "flow",
                    "receive-buffer-exceeded",
                    "wire:receive-buffer-exceeded",
                    format!(
                        "{name}: endpoint {e} has {outstanding} bytes of un-credited {what} in flight to remote port {remote_port} > advertised receive buffer {rb} (sent {} credits delivered {})",
                        l.sent_cost, l.credits_delivered
                    ),
                );
            }
            if outstanding == rb {
                kit::probe("credit_pool_hit_zero");
            }
        }
    }

    /// Called when a frame sent by endpoint `e` is delivered to the other endpoint.
    pub fn on_deliver(&mut self, e: usize, data: &[u8]) {
        if self.mode != MonitorMode::Full {
            return;
        }
        let p = 1 - e;
        self.frames_delivered[e] += 1;

        if let Some((port, _, _)) = self.deliver_payload[e].take() {
            if let Some(&i) = self.by_port[p].get(&port) {
                self.pairs[i].ledger[e].cost_delivered += cost_of_data(data.len());
            }
            return;
        }
        let Ok(frame) = decode(data) else { return };
        match frame {
            Frame::Data { port, first, last } => self.deliver_payload[e] = Some((port, first, last)),
            Frame::PortData { port, ports, .. } => {
                if let Some(&i) = self.by_port[p].get(&port) {
                    self.pairs[i].ledger[e].cost_delivered += (ports.len() * 4) as u64;
                }
            }
            Frame::PortCredits { port, credits } => {
                // Delivered to p; credits for data p -> e; `port` is p's local port.
                if let Some(&i) = self.by_port[p].get(&port) {
                    self.pairs[i].ledger[p].credits_delivered += credits as u64;
                }
            }
            Frame::PortOpened { client_port, .. } | Frame::Rejected { client_port, .. } => {
                // Answer delivered to requester p.
                let _ = client_port;
                self.client_answer_delivered(p, client_port);
            }
            Frame::SendFinish { port } => {
                if let Some(&i) = self.by_port[p].get(&port) {
                    self.pairs[i].ledger[e].send_finish_delivered = true;
                }
            }
            Frame::ReceiveFinish { port } => {
                if let Some(&i) = self.by_port[p].get(&port) {
                    self.pairs[i].ledger[p].recv_finish_delivered = true;
                }
            }
            _ => {}
        }
    }

    fn client_answer_delivered(&mut self, requester: usize, _client_port: u32) {
        // Only answers to client (OpenPort) requests count against the connect queue; answers to
        // PortData requests are distinguished at send time through `answered_kind`.
        if let Some(kind) = self.answered_kind[requester].pop_front() {
            if kind == ReqKind::Client {
                self.client_answers_delivered[requester] += 1;
            }
        }
    }
}
