//! Simulation kernel: choices, run context, runtime, task adapters, helper threads,
//! quiescence detection, budgets.
//!
//! One run = one OS thread (plus lock-step helper threads) + one tokio current-thread
//! runtime with a paused clock. Every decision of a run is a `draw`.

use std::{
    cell::RefCell,
    collections::BTreeMap,
    future::Future,
    panic,
    pin::Pin,
    sync::{
        Arc, Condvar, Mutex, Once,
        atomic::{AtomicBool, AtomicU64, Ordering},
    },
    task::{Context, Poll, Wake, Waker},
    time::Duration,
};

use serde::{Deserialize, Serialize};

// ------------------------------------------------------------------------------------------
// PRNG and hashing
// ------------------------------------------------------------------------------------------

pub fn splitmix(x: &mut u64) -> u64 {
    *x = x.wrapping_add(0x9E37_79B9_7F4A_7C15);
    let mut z = *x;
    z = (z ^ (z >> 30)).wrapping_mul(0xBF58_476D_1CE4_E5B9);
    z = (z ^ (z >> 27)).wrapping_mul(0x94D0_49BB_1331_11EB);
    z ^ (z >> 31)
}

pub fn mix(a: u64, b: u64) -> u64 {
    let mut s = a ^ b.rotate_left(32) ^ 0xD6E8_FEB8_6659_FD93;
    splitmix(&mut s);
    splitmix(&mut s)
}

pub fn hash_str(s: &str) -> u64 {
    let mut h = 0xcbf2_9ce4_8422_2325u64;
    for b in s.bytes() {
        h ^= b as u64;
        h = h.wrapping_mul(0x1000_0000_01b3);
    }
    h
}

pub fn hash_bytes(h: u64, data: &[u8]) -> u64 {
    let mut h = h ^ 0x51_7c_c1_b7_27_22_0a_95;
    for b in data {
        h ^= *b as u64;
        h = h.wrapping_mul(0x1000_0000_01b3);
    }
    mix(h, data.len() as u64)
}

// ------------------------------------------------------------------------------------------
// Run context
// ------------------------------------------------------------------------------------------

#[derive(Clone, Debug, Serialize, Deserialize, PartialEq)]
pub struct Violation {
    /// Violation class, stable under shrinking (e.g. "lost-message").
    pub kind: String,
    /// Specific signature used for matching known findings.
    pub signature: String,
    /// Human readable detail.
    pub detail: String,
}

enum Source {
    Prng(u64),
    Replay(Vec<u32>, usize),
}

#[derive(Default)]
struct TaskInfo {
    consecutive_defers: u32,
    slow: bool,
    polls: u64,
}

struct HelperSlot {
    state: Mutex<HelperState>,
    cv: Condvar,
    woken: AtomicBool,
}

#[derive(PartialEq, Eq, Clone, Copy, Debug)]
enum HelperState {
    /// Created, not yet started.
    New,
    /// The helper thread runs; the simulator thread waits.
    Running,
    /// The helper thread waits for the baton.
    Parked,
    /// Finished.
    Done,
}

pub struct Ctx {
    source: Source,
    pub log: Vec<u32>,
    pub seq: u64,
    pub polls: u64,
    pub max_polls: u64,
    pub sched_hash: u64,
    pub trace_hash: u64,
    pub plan_hash: u64,
    pub defer_permille: u32,
    pub slow_permille: u32,
    pub defer_budget: u64,
    pub defers: u64,
    tasks: BTreeMap<u64, TaskInfo>,
    next_task: u64,
    pub live_tasks: i64,
    pub violation: Option<Violation>,
    pub aborted: Option<String>,
    pub probes: BTreeMap<&'static str, u64>,
    pub faults: BTreeMap<&'static str, u64>,
    /// Virtual time (µs) at which each fault kind fired first.
    pub fault_first_us: BTreeMap<&'static str, u64>,
    pub panics: Vec<String>,
    pub nontrivial: bool,
    pub sample: Option<serde_json::Value>,
    pub classes: Vec<&'static str>,
    pub activity: u64,
    root_waker: Option<Waker>,
    helpers: Vec<Arc<HelperSlot>>,
    pub helper_handovers: u64,
    /// Probability (permille) that woken helper threads are passed over at a hand-over point (slow helper).
    pub helper_skip_permille: u32,
    helper_skips_in_row: u32,
    /// Bound on consecutive pass-overs of woken helper threads.
    pub helper_skip_cap: u32,
    /// A helper runs at most once per this many hand-over points (0 = no such limit): a steadily slow thread.
    pub helper_gap: u32,
    points_since_helper: u32,
    pub port_space: u32,
    h3_calls: u32,
    pub run_index: u64,
    pub notes: Vec<String>,
    /// Calls of `spinning()` since the last task poll.
    spin: u32,
}

pub type Shared = Arc<Mutex<Ctx>>;

thread_local! {
    static CURRENT: RefCell<Option<Shared>> = const { RefCell::new(None) };
    static HELPER: RefCell<Option<Arc<HelperSlot>>> = const { RefCell::new(None) };
}

fn current() -> Option<Shared> {
    CURRENT.with(|c| c.borrow().clone())
}

pub fn with<R>(f: impl FnOnce(&mut Ctx) -> R) -> R {
    let sh = current().expect("no simulation context on this thread");
    let mut g = sh.lock().unwrap_or_else(|e| e.into_inner());
    f(&mut g)
}

fn try_with<R>(f: impl FnOnce(&mut Ctx) -> R) -> Option<R> {
    let sh = current()?;
    let mut g = sh.lock().unwrap_or_else(|e| e.into_inner());
    Some(f(&mut g))
}

impl Ctx {
    fn draw(&mut self, n: u32) -> u32 {
        let n = n.max(1);
        let v = match &mut self.source {
            Source::Prng(s) => (splitmix(s) % n as u64) as u32,
            Source::Replay(list, pos) => {
                let v = list.get(*pos).copied().unwrap_or(0);
                *pos += 1;
                v % n
            }
        };
        self.log.push(v);
        v
    }
}

/// Uniform draw in `0..n`. Value 0 is by convention the least perturbing choice.
pub fn draw(n: u32) -> u32 {
    with(|c| c.draw(n))
}

/// Draw in `lo..=hi`.
pub fn draw_range(lo: u32, hi: u32) -> u32 {
    debug_assert!(hi >= lo);
    lo + draw(hi - lo + 1)
}

/// True with probability `num/den`; a replayed 0 yields false.
pub fn coin(num: u32, den: u32) -> bool {
    if num == 0 {
        return false;
    }
    draw(den) >= den - num.min(den)
}

pub fn pick<T: Clone>(items: &[T]) -> T {
    items[draw(items.len() as u32) as usize].clone()
}

/// Next global event sequence number.
pub fn seq() -> u64 {
    with(|c| {
        c.seq += 1;
        c.seq
    })
}

pub fn probe(name: &'static str) {
    with(|c| *c.probes.entry(name).or_insert(0) += 1);
}

pub fn probe_n(name: &'static str, n: u64) {
    with(|c| *c.probes.entry(name).or_insert(0) += n);
}

pub fn fault_fired(name: &'static str) {
    let now = now_us();
    with(|c| {
        *c.faults.entry(name).or_insert(0) += 1;
        c.fault_first_us.entry(name).or_insert(now);
    });
}

/// Virtual time (µs since the start of the run) at which the fault kind fired first.
pub fn fault_time_us(name: &str) -> Option<u64> {
    with(|c| c.fault_first_us.get(name).copied())
}

pub fn activity() {
    let _ = try_with(|c| c.activity += 1);
}

pub fn note(s: impl Into<String>) {
    let s = s.into();
    let _ = try_with(|c| {
        if c.notes.len() < 400 {
            c.notes.push(s)
        }
    });
}

pub fn set_nontrivial() {
    with(|c| c.nontrivial = true);
}

pub fn mix_plan(v: u64) {
    with(|c| c.plan_hash = mix(c.plan_hash, v));
}

pub fn mix_trace(v: u64) {
    let _ = try_with(|c| c.trace_hash = mix(c.trace_hash, v));
}

pub fn set_sample(v: serde_json::Value) {
    with(|c| {
        if c.sample.is_none() {
            c.sample = Some(v)
        }
    });
}

/// Records a violation (the first one of a run is kept).
pub fn violation(kind: impl Into<String>, signature: impl Into<String>, detail: impl Into<String>) {
    let v = Violation { kind: kind.into(), signature: signature.into(), detail: detail.into() };
    let _ = try_with(|c| {
        if c.violation.is_none() {
            c.violation = Some(v);
        }
    });
}

/// Records a violation of an oracle class, if the running check enabled that class.
pub fn class_violation(
    class: &'static str, kind: impl Into<String>, signature: impl Into<String>, detail: impl Into<String>,
) {
    let enabled = try_with(|c| c.classes.contains(&class)).unwrap_or(false);
    if enabled {
        violation(kind, signature, detail);
    } else {
        let _ = try_with(|c| *c.probes.entry("foreign_class_alarm").or_insert(0) += 1);
    }
}

/// To be called by harness loops that may go round without ever suspending (e.g. a receive call that
/// keeps returning a non-final error): true once the loop has gone round 20 000 times within one task
/// poll — the run is then aborted ("livelock") and the caller must leave its loop.
pub fn spinning() -> bool {
    let over = try_with(|c| {
        c.spin += 1;
        c.spin > 20_000
    })
    .unwrap_or(false);
    if over {
        abort_run("a harness loop went round 20000 times without suspending (endless stream of immediate results)");
    }
    over
}

pub fn has_violation() -> bool {
    with(|c| c.violation.is_some())
}

pub fn is_aborted() -> bool {
    try_with(|c| c.aborted.is_some()).unwrap_or(false)
}

pub fn abort_run(reason: impl Into<String>) {
    let reason = reason.into();
    let _ = try_with(|c| {
        if c.aborted.is_none() {
            c.aborted = Some(reason);
        }
        if let Some(w) = &c.root_waker {
            w.wake_by_ref();
        }
    });
}

/// Index of this run within its batch; enumerating checks derive their case from it.
pub fn run_index() -> u64 {
    with(|c| c.run_index)
}

/// Panics recorded so far in this run (remoc's or the harness's).
pub fn panics() -> Vec<String> {
    with(|c| c.panics.clone())
}

pub fn live_tasks() -> i64 {
    with(|c| c.live_tasks)
}

pub fn now_ms() -> u64 {
    START.with(|s| s.borrow().map(|s| s.elapsed().as_millis() as u64).unwrap_or(0))
}

pub fn now_us() -> u64 {
    START.with(|s| s.borrow().map(|s| s.elapsed().as_micros() as u64).unwrap_or(0))
}

thread_local! {
    static START: RefCell<Option<tokio::time::Instant>> = const { RefCell::new(None) };
}

// ------------------------------------------------------------------------------------------
// Hooks installed into remoc (H1, H2, H3)
// ------------------------------------------------------------------------------------------

fn hook_task_new() -> Option<u64> {
    try_with(|c| {
        let id = c.next_task;
        c.next_task += 1;
        let slow = c.slow_permille > 0 && {
            let d = c.draw(1000);
            d >= 1000 - c.slow_permille
        };
        c.tasks.insert(id, TaskInfo { slow, ..Default::default() });
        c.live_tasks += 1;
        id
    })
}

fn hook_task_drop(id: u64) {
    let _ = try_with(|c| {
        c.tasks.remove(&id);
        c.live_tasks -= 1;
    });
}

fn hook_before_poll(id: u64) -> bool {
    try_with(|c| {
        if c.aborted.is_some() {
            // Frozen: never poll again, the run is being torn down.
            return Some(false);
        }
        c.polls += 1;
        c.spin = 0;
        if c.polls > c.max_polls {
            c.aborted = Some(format!("poll budget of {} exhausted", c.max_polls));
            if let Some(w) = &c.root_waker {
                w.wake_by_ref();
            }
            return Some(false);
        }
        let (slow, consecutive) = match c.tasks.get(&id) {
            Some(t) => (t.slow, t.consecutive_defers),
            None => (false, 0),
        };
        let permille = if slow { 700 } else { c.defer_permille };
        let limit = if slow { 6 } else { 3 };
        if permille > 0 && consecutive < limit && c.defers < c.defer_budget {
            let d = c.draw(1000);
            if d >= 1000 - permille {
                c.defers += 1;
                if let Some(t) = c.tasks.get_mut(&id) {
                    t.consecutive_defers += 1;
                }
                c.sched_hash = mix(c.sched_hash, id ^ 0xDEFE_0000_0000);
                return Some(false);
            }
        }
        if let Some(t) = c.tasks.get_mut(&id) {
            t.consecutive_defers = 0;
            t.polls += 1;
        }
        c.sched_hash = mix(c.sched_hash, id);
        Some(true)
    })
    .flatten()
    .unwrap_or(true)
}

fn hook_after_poll(_id: u64, _ready: bool) {
    run_helpers();
}

fn hook_random_u32() -> Option<u32> {
    try_with(|c| {
        let space = c.port_space;
        // The caller loops until it finds an unused number: consecutive calls must cycle through
        // the whole space even when a replayed choice list is exhausted (all draws 0).
        c.h3_calls = c.h3_calls.wrapping_add(1);
        let off = c.h3_calls;
        let v = if space == 0 {
            // Full u32 space with boundary values favoured.
            match c.draw(8) {
                0 => c.draw(64),
                1 => u32::MAX - c.draw(64),
                _ => {
                    let hi = c.draw(1 << 16);
                    let lo = c.draw(1 << 16);
                    (hi << 16) | lo
                }
            }
        } else {
            c.draw(space)
        };
        if space == 0 { v.wrapping_add(off - 1) } else { (v.wrapping_add(off - 1)) % space }
    })
}

fn hook_random_u128() -> Option<u128> {
    try_with(|c| {
        let a = c.draw(u32::MAX) as u128;
        let b = c.draw(u32::MAX) as u128;
        let n = c.next_task as u128;
        (a << 96) | (b << 64) | (n << 32) | c.log.len() as u128
    })
}

type Job = Box<dyn FnOnce() + Send + 'static>;

fn hook_spawn_blocking(job: Job) -> Result<(), Job> {
    let Some(shared) = current() else { return Err(job) };
    let slot = Arc::new(HelperSlot {
        state: Mutex::new(HelperState::New),
        cv: Condvar::new(),
        woken: AtomicBool::new(true),
    });
    {
        let mut c = shared.lock().unwrap();
        c.helpers.push(slot.clone());
        *c.probes.entry("helper_thread_spawned").or_insert(0) += 1;
    }
    let handle = tokio::runtime::Handle::current();
    let slot_t = slot.clone();
    let shared_t = shared.clone();
    std::thread::Builder::new()
        .name("sim-helper".into())
        .spawn(move || {
            CURRENT.with(|c| *c.borrow_mut() = Some(shared_t));
            HELPER.with(|h| *h.borrow_mut() = Some(slot_t.clone()));
            let _guard = handle.enter();
            // Wait for the baton.
            {
                let mut st = slot_t.state.lock().unwrap();
                while *st != HelperState::Running {
                    st = slot_t.cv.wait(st).unwrap();
                }
            }
            job();
            let mut st = slot_t.state.lock().unwrap();
            *st = HelperState::Done;
            slot_t.cv.notify_all();
        })
        .expect("cannot spawn helper thread");
    Ok(())
}

struct HelperWaker(Arc<HelperSlot>);

impl Wake for HelperWaker {
    fn wake(self: Arc<Self>) {
        self.0.woken.store(true, Ordering::SeqCst);
    }
}

fn hook_block_on(mut fut: remoc::exec::verif::BlockOnFuture<'_>) -> bool {
    let Some(slot) = HELPER.with(|h| h.borrow().clone()) else { return false };
    let waker = Waker::from(Arc::new(HelperWaker(slot.clone())));
    let mut cx = Context::from_waker(&waker);
    loop {
        slot.woken.store(false, Ordering::SeqCst);
        if fut.as_mut().poll(&mut cx).is_ready() {
            return true;
        }
        // Park and hand the baton back.
        let mut st = slot.state.lock().unwrap();
        *st = HelperState::Parked;
        slot.cv.notify_all();
        while *st != HelperState::Running {
            st = slot.cv.wait(st).unwrap();
        }
    }
}

/// Runs all helper threads that have been woken, one at a time, until each parks or finishes.
fn run_helpers() {
    // Only the simulator thread hands out batons.
    if HELPER.with(|h| h.borrow().is_some()) {
        return;
    }
    let Some(shared) = current() else { return };
    loop {
        let runnable: Vec<Arc<HelperSlot>> = {
            let mut c = shared.lock().unwrap();
            if c.helpers.is_empty() {
                return;
            }
            c.helpers.retain(|h| *h.state.lock().unwrap() != HelperState::Done);
            c.helpers
                .iter()
                .filter(|h| {
                    let st = *h.state.lock().unwrap();
                    (st == HelperState::New || st == HelperState::Parked) && h.woken.load(Ordering::SeqCst)
                })
                .cloned()
                .collect()
        };
        if runnable.is_empty() {
            return;
        }
        // A slow helper thread: woken helpers are passed over for a bounded number of hand-over points.
        {
            let mut c = shared.lock().unwrap();
            if c.helper_gap > 0 && c.aborted.is_none() {
                c.points_since_helper += 1;
                if c.points_since_helper < c.helper_gap {
                    *c.probes.entry("helper_thread_passed_over").or_insert(0) += 1;
                    // The extra root poll this causes is not charged to the run's poll budget.
                    c.polls = c.polls.saturating_sub(1);
                    if let Some(w) = &c.root_waker {
                        w.wake_by_ref();
                    }
                    return;
                }
                c.points_since_helper = 0;
            }
            if c.helper_skip_permille > 0 && c.helper_skips_in_row < c.helper_skip_cap && c.aborted.is_none() {
                let d = c.draw(1000);
                if d >= 1000 - c.helper_skip_permille {
                    c.helper_skips_in_row += 1;
                    *c.probes.entry("helper_thread_passed_over").or_insert(0) += 1;
                    // Make sure another hand-over point follows even if every task goes idle.
                    if let Some(w) = &c.root_waker {
                        w.wake_by_ref();
                    }
                    return;
                }
            }
            c.helper_skips_in_row = 0;
        }
        // Order of helpers is a choice.
        let first = if runnable.len() > 1 { draw(runnable.len() as u32) as usize } else { 0 };
        let slot = &runnable[first];
        {
            let mut c = shared.lock().unwrap();
            c.helper_handovers += 1;
            *c.probes.entry("helper_thread_ran").or_insert(0) += 1;
            if c.helper_handovers > 200_000 {
                c.aborted = Some("helper hand-over budget exhausted".into());
                return;
            }
        }
        let mut st = slot.state.lock().unwrap();
        *st = HelperState::Running;
        slot.cv.notify_all();
        while *st == HelperState::Running {
            st = slot.cv.wait(st).unwrap();
        }
    }
}

/// Lets remaining helper threads run to completion at the end of a run
/// (their channels are closed by then, so they terminate).
fn finish_helpers(shared: &Shared) {
    for _ in 0..10_000 {
        let pending: Vec<Arc<HelperSlot>> = {
            let c = shared.lock().unwrap_or_else(|e| e.into_inner());
            c.helpers.iter().filter(|h| *h.state.lock().unwrap() != HelperState::Done).cloned().collect()
        };
        if pending.is_empty() {
            return;
        }
        for slot in pending {
            let mut st = slot.state.lock().unwrap();
            if *st == HelperState::Done {
                continue;
            }
            *st = HelperState::Running;
            slot.cv.notify_all();
            while *st == HelperState::Running {
                st = slot.cv.wait(st).unwrap();
            }
        }
    }
}

static INSTALL: Once = Once::new();
static PANIC_COUNT: AtomicU64 = AtomicU64::new(0);

/// Installs hooks and the panic hook; pre-warms process-wide state. Idempotent.
pub fn install() {
    INSTALL.call_once(|| {
        let ok = remoc::exec::verif::install(remoc::exec::verif::Hooks {
            task_new: hook_task_new,
            task_drop: hook_task_drop,
            before_poll: hook_before_poll,
            after_poll: hook_after_poll,
            spawn_blocking: hook_spawn_blocking,
            block_on: hook_block_on,
            random_u32: hook_random_u32,
            random_u128: hook_random_u128,
        });
        assert!(ok, "hooks already installed");

        let prev = panic::take_hook();
        panic::set_hook(Box::new(move |info| {
            PANIC_COUNT.fetch_add(1, Ordering::Relaxed);
            let loc = info.location().map(|l| format!("{}:{}", l.file(), l.line())).unwrap_or_default();
            let msg = if let Some(s) = info.payload().downcast_ref::<&str>() {
                s.to_string()
            } else if let Some(s) = info.payload().downcast_ref::<String>() {
                s.clone()
            } else {
                "<non-string panic>".to_string()
            };
            // try_lock: the panicking thread may hold the context lock.
            let recorded = match current() {
                Some(sh) => match sh.try_lock() {
                    Ok(mut c) => {
                        if c.panics.len() < 16 {
                            c.panics.push(format!("{loc}: {msg}"));
                        }
                        true
                    }
                    Err(_) => false,
                },
                None => false,
            };
            if !recorded || std::env::var_os("SIM_SHOW_PANICS").is_some() {
                prev(info);
            }
        }));

        // Pre-warm remoc's thread availability probe (spawns a real thread once per process).
        let rt = tokio::runtime::Builder::new_current_thread().build().unwrap();
        rt.block_on(async {
            let _ = remoc::exec::are_threads_available().await;
        });
    });
}

// ------------------------------------------------------------------------------------------
// Running one simulation
// ------------------------------------------------------------------------------------------

#[derive(Clone, Debug)]
pub struct RunCfg {
    pub seed: u64,
    pub replay: Option<Vec<u32>>,
    pub max_polls: u64,
    pub classes: Vec<&'static str>,
    pub max_virtual_secs: u64,
    /// Index of the run within its batch (for enumerating checks).
    pub index: u64,
}

#[derive(Clone, Debug)]
pub struct RunReport {
    pub choices: Vec<u32>,
    pub violation: Option<Violation>,
    pub aborted: Option<String>,
    pub polls: u64,
    pub seq: u64,
    pub sched_hash: u64,
    pub trace_hash: u64,
    pub plan_hash: u64,
    pub sim_ms: u64,
    pub probes: BTreeMap<&'static str, u64>,
    pub faults: BTreeMap<&'static str, u64>,
    pub panics: Vec<String>,
    pub nontrivial: bool,
    pub sample: Option<serde_json::Value>,
    pub notes: Vec<String>,
    pub defers: u64,
}

struct RootWaker {
    inner: Waker,
}

impl Wake for RootWaker {
    fn wake(self: Arc<Self>) {
        self.inner.wake_by_ref();
    }
}

struct Root<F> {
    fut: Pin<Box<F>>,
}

impl<F: Future<Output = ()>> Future for Root<F> {
    type Output = ();
    fn poll(mut self: Pin<&mut Self>, cx: &mut Context<'_>) -> Poll<()> {
        with(|c| c.root_waker = Some(cx.waker().clone()));
        if is_aborted() {
            return Poll::Ready(());
        }
        with(|c| {
            c.polls += 1;
            c.spin = 0;
            c.sched_hash = mix(c.sched_hash, u64::MAX);
        });
        let res = self.fut.as_mut().poll(cx);
        run_helpers();
        if is_aborted() {
            return Poll::Ready(());
        }
        res
    }
}

/// Executes one run. `scenario` builds the root future inside the runtime.
pub fn run_one<F, Fut>(rc: &RunCfg, scenario: F) -> RunReport
where
    F: FnOnce() -> Fut,
    Fut: Future<Output = ()>,
{
    install();
    let max_virtual_secs = rc.max_virtual_secs;

    let source = match &rc.replay {
        Some(list) => Source::Replay(list.clone(), 0),
        None => Source::Prng(rc.seed),
    };
    let ctx = Ctx {
        source,
        log: Vec::new(),
        seq: 0,
        polls: 0,
        max_polls: rc.max_polls,
        sched_hash: 0,
        trace_hash: 0,
        plan_hash: 0,
        defer_permille: 0,
        slow_permille: 0,
        defer_budget: 20_000,
        defers: 0,
        tasks: BTreeMap::new(),
        next_task: 1,
        live_tasks: 0,
        violation: None,
        aborted: None,
        probes: BTreeMap::new(),
        faults: BTreeMap::new(),
        fault_first_us: BTreeMap::new(),
        panics: Vec::new(),
        nontrivial: false,
        sample: None,
        classes: rc.classes.clone(),
        activity: 0,
        root_waker: None,
        helpers: Vec::new(),
        helper_handovers: 0,
        helper_skip_permille: 0,
        helper_skips_in_row: 0,
        helper_skip_cap: 64,
        helper_gap: 0,
        points_since_helper: 0,
        port_space: 0,
        h3_calls: 0,
        run_index: rc.index,
        notes: Vec::new(),
        spin: 0,
    };
    let shared: Shared = Arc::new(Mutex::new(ctx));
    CURRENT.with(|c| *c.borrow_mut() = Some(shared.clone()));

    let mut seed_bytes = [0u8; 32];
    let mut s = rc.seed;
    for chunk in seed_bytes.chunks_mut(8) {
        chunk.copy_from_slice(&splitmix(&mut s).to_le_bytes());
    }
    // In replay mode the runtime seed is part of the file (seed field), identical to exploration.
    let rt = tokio::runtime::Builder::new_current_thread()
        .enable_time()
        .start_paused(true)
        .rng_seed(tokio::runtime::RngSeed::from_bytes(&seed_bytes))
        .build()
        .expect("runtime");

    let sim_ms = {
        let res = panic::catch_unwind(panic::AssertUnwindSafe(|| {
            rt.block_on(async {
                let start = tokio::time::Instant::now();
                START.with(|s| *s.borrow_mut() = Some(start));
                let fut = scenario();
                tokio::select! {
                    biased;
                    () = Root { fut: Box::pin(fut) } => (),
                    () = tokio::time::sleep(Duration::from_secs(max_virtual_secs)) => {
                        // Under the paused clock this fires only when nothing else can make progress.
                        abort_run("virtual time budget exhausted (simulation deadlocked or never quiesced)");
                    }
                }
                start.elapsed().as_millis() as u64
            })
        }));
        match res {
            Ok(ms) => ms,
            Err(_) => {
                let mut c = shared.lock().unwrap_or_else(|e| e.into_inner());
                if c.aborted.is_none() {
                    c.aborted = Some("panic in scenario root".into());
                }
                0
            }
        }
    };

    // Tear down: freeze scheduling decisions (no more draws), drop all tasks, finish helpers.
    {
        let mut c = shared.lock().unwrap_or_else(|e| e.into_inner());
        c.defer_permille = 0;
        c.slow_permille = 0;
        c.helper_skip_permille = 0;
        c.helper_gap = 0;
        c.defer_budget = 0;
        for t in c.tasks.values_mut() {
            t.slow = false;
        }
        c.max_polls = u64::MAX;
    }
    let final_log_len = shared.lock().unwrap_or_else(|e| e.into_inner()).log.len();
    let _ = panic::catch_unwind(panic::AssertUnwindSafe(|| drop(rt)));
    finish_helpers(&shared);
    START.with(|s| *s.borrow_mut() = None);
    CURRENT.with(|c| *c.borrow_mut() = None);

    let mut c = shared.lock().unwrap_or_else(|e| e.into_inner());
    let mut choices = std::mem::take(&mut c.log);
    choices.truncate(final_log_len);
    RunReport {
        choices,
        violation: c.violation.take(),
        aborted: c.aborted.take(),
        polls: c.polls,
        seq: c.seq,
        sched_hash: c.sched_hash,
        trace_hash: c.trace_hash,
        plan_hash: c.plan_hash,
        sim_ms,
        probes: std::mem::take(&mut c.probes),
        faults: std::mem::take(&mut c.faults),
        panics: std::mem::take(&mut c.panics),
        nontrivial: c.nontrivial,
        sample: c.sample.take(),
        notes: std::mem::take(&mut c.notes),
        defers: c.defers,
    }
}

// ------------------------------------------------------------------------------------------
// Helpers for scenarios
// ------------------------------------------------------------------------------------------

/// Sets the scheduler policy of this run from the choices.
pub fn draw_sched_policy() {
    let permille = pick(&[0u32, 0, 20, 100, 300, 600]);
    let slow = pick(&[0u32, 0, 0, 50, 200]);
    let helper_skip = pick(&[0u32, 0, 0, 0, 500, 950]);
    // A very slow helper (thousands of task polls pass before it runs) lets its input queue fill up.
    let helper_cap = if helper_skip > 0 { pick(&[64u32, 64, 3000]) } else { 64 };
    // A steadily slow helper: one step per 40 / 120 hand-over points, far slower than chunks arrive.
    let helper_gap = pick(&[0u32, 0, 0, 0, 0, 40, 120]);
    with(|c| {
        c.defer_permille = permille;
        c.slow_permille = slow;
        c.helper_skip_permille = helper_skip;
        c.helper_skip_cap = helper_cap;
        c.helper_gap = helper_gap;
    });
    mix_plan(permille as u64 * 1000 + slow as u64 + helper_skip as u64 * 1_000_000 + helper_gap as u64 * 1_000_000_000);
}

pub fn set_sched_policy(defer_permille: u32, slow_permille: u32) {
    with(|c| {
        c.defer_permille = defer_permille;
        c.slow_permille = slow_permille;
    });
}

/// Forces a steadily slow helper-thread profile (one helper step per `gap` hand-over points).
pub fn set_helper_gap(gap: u32) {
    with(|c| c.helper_gap = gap);
}

/// Sets the port number space: 0 = full u32, otherwise numbers are drawn from `0..space`.
pub fn set_port_space(space: u32) {
    with(|c| c.port_space = space);
}

/// Spawns a harness task through remoc's spawn, i.e. under the same poll-deferral adapter.
pub fn spawn<F>(fut: F) -> tokio::task::JoinHandle<F::Output>
where
    F: Future + Send + 'static,
    F::Output: Send + 'static,
{
    remoc::exec::spawn(fut)
}

/// Waits until the system is quiescent: no task runnable, no frame in flight, no harness
/// activity during a window of virtual time. Pings do not count as activity.
pub async fn settle() {
    settle_with(Duration::from_millis(900), 20_000).await
}

pub async fn settle_with(window: Duration, max_rounds: u32) {
    let mut rounds = 0;
    loop {
        let before = with(|c| c.activity);
        tokio::time::sleep(window).await;
        let after = with(|c| c.activity);
        rounds += 1;
        if after == before || is_aborted() {
            break;
        }
        if rounds >= max_rounds {
            abort_run("settle: activity never ceased");
            break;
        }
    }
}

/// Polls the future at most `max_polls` times, then drops it (cancellation fault).
///
/// If the future stops being woken before that many polls happened, it is dropped after 0.3 s of
/// virtual time without completing (under the paused clock: when nothing else can make progress),
/// i.e. it is cancelled at the point where it got stuck.
pub struct CancelAfter<F> {
    fut: Option<Pin<Box<F>>>,
    left: u32,
    deadline: Option<Pin<Box<tokio::time::Sleep>>>,
}

pub fn cancel_after<F: Future>(fut: F, max_polls: u32) -> CancelAfter<F> {
    CancelAfter { fut: Some(Box::pin(fut)), left: max_polls, deadline: None }
}

impl<F: Future> Future for CancelAfter<F> {
    type Output = Option<F::Output>;
    fn poll(mut self: Pin<&mut Self>, cx: &mut Context<'_>) -> Poll<Self::Output> {
        if self.left == 0 {
            self.fut = None;
            return Poll::Ready(None);
        }
        if self.deadline.is_none() {
            self.deadline = Some(Box::pin(tokio::time::sleep(Duration::from_millis(300))));
        }
        if self.deadline.as_mut().unwrap().as_mut().poll(cx).is_ready() {
            self.fut = None;
            return Poll::Ready(None);
        }
        self.left -= 1;
        let res = self.fut.as_mut().expect("polled after completion").as_mut().poll(cx);
        match res {
            Poll::Ready(v) => {
                self.fut = None;
                Poll::Ready(Some(v))
            }
            Poll::Pending => {
                if self.left == 0 {
                    self.fut = None;
                    Poll::Ready(None)
                } else {
                    Poll::Pending
                }
            }
        }
    }
}

/// Awaits the future, but gives up (returning None, dropping the future) at the given virtual deadline.
pub async fn within<F: Future>(dur: Duration, fut: F) -> Option<F::Output> {
    tokio::time::timeout(dur, fut).await.ok()
}

/// Yield to the scheduler once (goes to the back of the run queue).
pub async fn yield_now() {
    struct Y(bool);
    impl Future for Y {
        type Output = ();
        fn poll(mut self: Pin<&mut Self>, cx: &mut Context<'_>) -> Poll<()> {
            if self.0 {
                Poll::Ready(())
            } else {
                self.0 = true;
                cx.waker().wake_by_ref();
                Poll::Pending
            }
        }
    }
    Y(false).await
}

pub fn panic_count() -> u64 {
    PANIC_COUNT.load(Ordering::Relaxed)
}

#[allow(dead_code)]
fn _assert_root_waker_used(w: RootWaker) -> Waker {
    w.inner
}
