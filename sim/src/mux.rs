//! Helpers to set up real chmux endpoints over simnet links.

use std::{io, time::Duration};

use remoc::chmux::{self, Cfg, ChMux, ChMuxError, Client, Listener, PortsExhausted};
use tokio::task::JoinHandle;

use crate::{
    kit,
    net::{self, LinkCfg, LinkCtl},
    proto::MonitorMode,
};

pub type MuxResult = Result<(), ChMuxError<io::Error, io::Error>>;

pub struct Endpoint {
    pub client: Client,
    pub listener: Listener,
    pub run: JoinHandle<MuxResult>,
    pub cfg: Cfg,
}

#[derive(Clone, Copy, Debug, PartialEq, Eq)]
pub enum CfgProfile {
    /// Tiny, odd values: chunking, credit exhaustion and queue back-pressure everywhere.
    Tiny,
    /// Small but roomy enough that flow control rarely blocks.
    Roomy,
    /// Library defaults.
    Default,
}

pub fn draw_cfg(profile: CfgProfile) -> Cfg {
    let mut cfg = Cfg::default();
    match profile {
        CfgProfile::Tiny => {
            cfg.chunk_size = kit::pick(&[4u32, 5, 7, 8, 13, 16, 32, 64]);
            cfg.receive_buffer = kit::pick(&[4u32, 5, 6, 7, 8, 9, 11, 12, 16, 23, 32, 64, 256]);
            cfg.shared_send_queue = kit::pick(&[1usize, 1, 2, 4]);
            cfg.transport_send_queue = kit::pick(&[1usize, 2, 4]);
            cfg.transport_receive_queue = kit::pick(&[1usize, 2, 4]);
            cfg.max_data_size = kit::pick(&[8usize, 16, 33, 64, 256]);
            cfg.max_ports = kit::pick(&[2u32, 3, 4, 8, 64]);
            cfg.connect_queue = kit::pick(&[1u16, 2, 4]);
            cfg.max_received_ports = kit::pick(&[2usize, 4, 128]);
        }
        CfgProfile::Roomy => {
            cfg.chunk_size = kit::pick(&[16u32, 64, 256]);
            cfg.receive_buffer = kit::pick(&[256u32, 1024, 4096]);
            cfg.shared_send_queue = kit::pick(&[2usize, 16]);
            cfg.transport_send_queue = kit::pick(&[2usize, 16]);
            cfg.transport_receive_queue = kit::pick(&[2usize, 16]);
            cfg.max_data_size = kit::pick(&[64usize, 1024, 65536]);
            cfg.max_ports = kit::pick(&[16u32, 64, 16384]);
            cfg.connect_queue = kit::pick(&[4u16, 128]);
        }
        CfgProfile::Default => {}
    }
    cfg.connection_timeout = kit::pick(&[None, Some(Duration::from_secs(60)), Some(Duration::from_secs(7))]);
    cfg.ports_exhausted = PortsExhausted::Wait(None);
    kit::mix_plan(kit::hash_str(&format!("{cfg:?}")));
    cfg
}

/// Establishes a connection between two real endpoints over a new link and spawns both dispatchers.
pub async fn connect_pair(
    name: &'static str, cfg_a: Cfg, cfg_b: Cfg, link_cfg: LinkCfg, mode: MonitorMode,
) -> Result<(Endpoint, Endpoint, LinkCtl), String> {
    let ((sink_a, stream_a), (sink_b, stream_b), ctl) = net::link(name, link_cfg, mode);
    ctl.monitor(|m| {
        m.max_ports = [Some(cfg_a.max_ports), Some(cfg_b.max_ports)];
    });
    let (ra, rb) = tokio::join!(ChMux::new(cfg_a.clone(), sink_a, stream_a), ChMux::new(cfg_b.clone(), sink_b, stream_b));
    let (mux_a, client_a, listener_a) = ra.map_err(|e| format!("handshake A failed: {e}"))?;
    let (mux_b, client_b, listener_b) = rb.map_err(|e| format!("handshake B failed: {e}"))?;
    let run_a = kit::spawn(mux_a.run());
    let run_b = kit::spawn(mux_b.run());
    Ok((
        Endpoint { client: client_a, listener: listener_a, run: run_a, cfg: cfg_a },
        Endpoint { client: client_b, listener: listener_b, run: run_b, cfg: cfg_b },
        ctl,
    ))
}

/// Opens one port from `a` (client) to `b` (listener).
pub async fn open_port(
    a: &Client, b: &mut Listener,
) -> Result<((chmux::Sender, chmux::Receiver), (chmux::Sender, chmux::Receiver)), String> {
    let (ca, cb) = tokio::join!(a.connect(), b.accept());
    let pa = ca.map_err(|e| format!("connect failed: {e}"))?;
    let pb = cb.map_err(|e| format!("accept failed: {e}"))?.ok_or("listener closed")?;
    Ok((pa, pb))
}

/// Deterministic payload for message `idx` of flow `flow` with the given length.
pub fn payload(flow: u32, idx: u32, len: usize) -> Vec<u8> {
    let mut s = kit::mix(flow as u64 + 1, idx as u64 + 0x1000);
    let mut v = Vec::with_capacity(len);
    while v.len() < len {
        let x = kit::splitmix(&mut s).to_le_bytes();
        let take = (len - v.len()).min(8);
        v.extend_from_slice(&x[..take]);
    }
    v
}

// ------------------------------------------------------------------------------------------
// Typed channels (rch) over simnet
// ------------------------------------------------------------------------------------------

use remoc::{RemoteSend, rch::base};

pub type ConnResult = Result<(), ChMuxError<io::Error, io::Error>>;

/// Two endpoints connected through `remoc::Connect::framed`, each with a base sender and receiver.
pub struct RchPair<AB, BA> {
    pub a_tx: base::Sender<AB>,
    pub a_rx: base::Receiver<BA>,
    pub b_tx: base::Sender<BA>,
    pub b_rx: base::Receiver<AB>,
    pub conn_a: JoinHandle<ConnResult>,
    pub conn_b: JoinHandle<ConnResult>,
    pub ctl: LinkCtl,
}

/// Establishes a full remoc connection (chmux + initial base channel) between two endpoints.
pub async fn connect_rch<AB, BA>(
    name: &'static str, cfg_a: Cfg, cfg_b: Cfg, link_cfg: LinkCfg, mode: MonitorMode,
) -> Result<RchPair<AB, BA>, String>
where
    AB: RemoteSend,
    BA: RemoteSend,
{
    let ((sink_a, stream_a), (sink_b, stream_b), ctl) = net::link(name, link_cfg, mode);
    ctl.monitor(|m| {
        m.max_ports = [Some(cfg_a.max_ports), Some(cfg_b.max_ports)];
    });
    let fa = remoc::Connect::framed::<_, _, AB, BA, remoc::codec::Default>(cfg_a, sink_a, stream_a);
    let fb = remoc::Connect::framed::<_, _, BA, AB, remoc::codec::Default>(cfg_b, sink_b, stream_b);
    let (ra, rb) = tokio::join!(fa, fb);
    let (conn_a, a_tx, a_rx) = ra.map_err(|e| format!("connect A failed: {e}"))?;
    let (conn_b, b_tx, b_rx) = rb.map_err(|e| format!("connect B failed: {e}"))?;
    let conn_a = kit::spawn(conn_a);
    let conn_b = kit::spawn(conn_b);
    Ok(RchPair { a_tx, a_rx, b_tx, b_rx, conn_a, conn_b, ctl })
}
