#!/usr/bin/env python3
"""Generates MANIFEST.json from the table below (kept next to the checks so both stay in step)."""
import json, subprocess

HOOK_COMMITS = ["e053b92", "db39081", "909497b", "a3ef4cc"]
FIX_COMMITS = ["d1834d6", "696a10e", "54f6b98", "8cadbec", "1d570ec", "ada398b", "3cdf850", "86f4ed9", "cac2ae1", "749f9e1", "6852bbb", "79a1448", "10810c0", "76552f0", "f89c303", "e2f472c", "6328c42", "4d43097", "8176551", "dcae5d6", "ab8aba2", "72a413a"]

NOTE_COMMON = ("trusted base: tokio current-thread scheduler + paused clock, the simnet link, the refproto reference codec/model; "
               "interleavings explored at task-poll granularity on one thread; a clean batch is evidence, not proof")

CHECKS = {
    "C01": ("exploration", "§4 C01", "seeded simulation runs of two real chmux endpoints over a simulated link (latency, back-pressure, poll deferral, cancellation at drawn poll counts); oracle = prefix/equality against the vector of completed sends, liveness at quiescence",
            "deterministic simulation + fault injection; reference-model oracle (vector of completed sends)"),
    "C02": ("exploration", "§4 C02", "same runs as C01/C03 plus late-credit links; oracle = independent wire monitor keeping a credit ledger per port direction, checked at every frame handed to the sink",
            "deterministic simulation; wire-trace invariant monitor (credit ledger, chunk size)"),
    "C04": ("exploration", "§4 C04", "base channels between two real endpoints; items straddling max_data_size (streamed through lock-step helper threads), chunk_size and max_item_size, items failing to (de)serialize, cancelled sends, link cut sub-batch; oracle = receive events must be explainable by the per-sender attempt log (deliver / receiver-must-fail / sender-failed), complete at quiescence",
            "deterministic simulation + fault injection; sequence-matching oracle against the sender's attempt log"),
    "C05": ("exploration", "§4 C05", "2-4 endpoints, 0-8 channels whose halves (mpsc, oneshot, watch, broadcast, bin, lr) are tagged with their channel label, embedded in nested values (Vec/Option/Pair/Map/Enum, padded past max_data_size) and sent 1-3 hops over base, mpsc and forwarded-bin carriers, also while items are queued; scarce max_ports and link-cut sub-batches; oracle = every sink sees only its own channel's values in order (bijection), with ample ports nothing is refused or lost, both ends observe an error for a half that could not be connected, nobody pending at quiescence, second lr half refused; extra scenario: a half that came back from a failed send (max item size, serialisation error in a later field, ports exhausted) is sent again, or its opposite half instead, and must still be wired one-to-one",
            "deterministic simulation + fault injection; label-bijection oracle over all delivered halves"),
    "C06": ("fault_enumeration", "§4 C06", "two fixed mixed chmux workloads (handshake, port opens, chunked transfers both ways, port batch, pending connect/accept/closed()/recv, idle tail with pings); every frame index x direction x fault kind (sink error, stream error, EOF, silent stall both ways, one-directional stall) is executed under N seeded schedules; oracle = both dispatchers end with Err by timeout+eps, every outstanding and fresh operation errors in bounded virtual time, no orderly end-of-stream is reported, received is a prefix of sent; points beyond the traffic exercise the idle-survival clause (hours of virtual idle time, then a transfer)",
            "deterministic simulation; exhaustive enumeration of transport cut points x fault kinds, seeded schedules per point"),
    "C07": ("exploration", "§4 C07", "two real chmux endpoints run 1-20 open/transfer/close cycles: ports opened through default connect vs accept (either cancelled part-way), connect_ext wait/no-wait vs inspect + accept/accept_from/reject/drop/hold, pending Connects dropped before/after sent/answer, port batches over open ports, client clones, spare port numbers; all handles are dropped in a drawn permutation with drawn pauses, in the last cycle together with clients and listeners of both sides; tiny port-number space so numbers are reused at once; oracle = both dispatchers return Ok at quiescence with the transport still open, wire port-lifetime model (no number reused before all four finish messages, open+requested ports <= max_ports, nothing sent for a finished port), allocator capacity at every quiescent point == max_ports - ports the wire model says are open or requested (released once finished and not before), live-task count back to its pre-cycle / pre-connection value",
            "deterministic simulation + fault injection (cancellation, drop orders); wire-trace port-lifetime model + allocator-capacity and live-task conservation oracles at quiescence"),
    "C08": ("exploration", "§4 C08", "one real endpoint (listener actor drawing accept/reject/drop/hold, client actor, one actor per port: consuming / stalled / receiver dropped / both dropped, cancellable sends) against a scripted peer built on the reference codec: drawn Hello (version 2/3/4/255, chunk size and receive buffer 4..u32::MAX, connect queue 1..65535), 4-40 steps mixing valid traffic (opens, complete messages within credit and chunk size, answers, credit returns, finish/close) with 17 kinds of hostile frames (garbage, mutated and replayed frames, Data without payload, Data for unknown/freed/connecting/finished ports, chunk and credit overruns, huge / overflowing / bogus credits, unsolicited and duplicate answers, duplicate requests and request floods, port-batch bombs with duplicates, port batches that are never finished, duplicate finishes, second Hello, Reset, ClientFinish/ListenerFinish, Goodbye followed by traffic, odd-but-legal frames), plus a hostile byte stream against Connect::io at three stages (oversize length prefix, frame or length prefix cut short by EOF, zero-length and garbage frames, clean EOF); oracle = no panic (process panic hook, overflow checks on); while the endpoint stays up: cost delivered minus cost consumed per port <= advertised receive buffer (+ one partly assembled message for a consuming receiver), no chunk above the advertised size accepted, unanswered requests within the connect queues, no frame tolerated after which a correct endpoint must terminate; disjunction at quiescence: dispatcher ended => every local user (port actors, listener, pending and fresh connects) observed an error, nobody hangs, no orderly end-of-stream the peer never announced; else messages sent validly before a port was touched arrive intact in order and a fresh connect+echo exchange succeeds unless legitimately refused",
            "deterministic simulation with a scripted hostile peer (grammar-generated valid prefix + mutation/injection/duplication/overrun faults); no-panic, bounded-memory and fail-or-still-works oracles against the peer's own reference model"),
    "C09": ("exploration", "§4 C09", "(i) every frame a real endpoint emits in real-real workloads is strictly decoded and canonically re-encoded by an independent reference codec frozen from the v3 layout; (ii) coverage driver + completeness self-test: every message kind and flag combination must be observed; (iii) real endpoint against the scripted reference peer speaking v3 and v2 with boundary Hello values, junk before Hello, id-less OpenPort/PortData, credit and chunk discipline, label echo over ports opened in both directions; (iv) Connect::io through an independent length-prefix parser that re-chunks the byte stream",
            "deterministic simulation; reference-codec differential oracle + scripted reference peer (refinement of the frozen layout)"),
    "C10": ("exploration", "§4 C10", "1-3 client actors issue default connect(), connect_ext(wait/no-wait, PortReq ids), cancelled connects and Connect::sent()+marker message; a listener actor draws accept / inspect+accept / accept_from / reject / reject(no_ports) / drop per request, with cancelled accepts; max_ports 2-8, connect_queue 1-4, every Cfg::ports_exhausted policy; oracle = no request pending at quiescence, client outcome equals the listener's recorded decision per request id, accepted pairs echo their own label on both legs, a request reported as sent is obtainable from the listener before later data arrives, unanswered OpenPort frames never exceed the advertised connect queue (wire monitor), exhaustion policy clause",
            "deterministic simulation + fault injection (cancellation); decision-log oracle + wire monitor"),
    "C11": ("fault_enumeration", "§4 C11", "position enumeration: channel type (raw port, base, remote mpsc with 1-3 senders) x event (all senders dropped, receiver close, receiver drop) x position 0..6 in a stream of 6 messages x inside/outside a message, each under N seeded schedules; oracle = received == completed sends (close / sender drop) or prefix (receiver drop), end-of-stream only after everything, error classification (Closed gracefully / not gracefully, mpsc closed_reason Closed/Dropped), Sending handles acknowledged exactly the received values, and of the values still queued when the sender learned of the close (closed() resolved) at most one is transmitted afterwards",
            "deterministic simulation; exhaustive enumeration of event positions, seeded schedules, reference = completed sends"),
    "C12": ("exploration", "§4 C12", "served counter/register object under every server flavour (Server, ServerRefMut, ServerShared(Mut) spawn on/off, ReqReceiver, by-value) and RFn/RFnMut/RFnOnce; 1-4 clients (clones, remote, two links), <= 14 calls with unique ids, including a default-bodied trait method that the served object overrides (must arrive as one request); oracle = exactly-one outcome per call checked against the callee's execution log (no foreign/duplicate/wrong-argument execution, Ok(r) => one completed execution with result r, error => at most one), &mut executions never overlap, Wing-Gong linearizability search of the client history against a sequential counter; link-cut sub-batch; self-test with a deliberately non-atomic served object",
            "deterministic simulation + fault injection; execution-log oracle and linearizability checker over invoke/return histories"),
    "C13": ("exploration", "§4 C13", "each observable collection (vec, deque, hash map, hash set, list): random initial content, 3-40 steps over the full mutating API incl. no-ops, entry/iterator/reference mutation, retain, resize, swap-remove, done; subscriptions (snapshot and incremental) at any step; mirrors local, 1-2 hops remote, re-subscribed from a mirror, and hand-consumed event streams; oracle = at every quiescence mirror == hand-replayed stream == observable == std reference model, is_done iff done(), is_complete eventually, exact event counts",
            "deterministic simulation; reference-model oracle (std collection) compared at quiescence, seeded op sequences and schedules"),
    "C14": ("exploration", "§4 C14", "fast mutator with event buffers 1-3, slow/remote/cut-off mirrors and raw subscriptions, collection dropped before done, small mirror max_size, several subscribers, subscribers joining a mirror at any time (also while another reader holds a view of it and events are pending), lists with back-pressure; oracle = every Ok view equals some historic state S_j (monotone per mirror), errors are sticky and explained (Lagged only after overflow, Closed only after drop-before-done, MaxSizeExceeded only above the limit, Remote* only after a link fault), list subscribers receive every element exactly once in order",
            "deterministic simulation + fault injection; history oracle (views must be historic states, errors must be explained)"),
    "C15": ("exploration", "§4 C15", "watch channels over chains of 2-4 endpoints; <= 20 strictly increasing values; receivers cloned/subscribed/sent onward 1-3 hops while updates are in flight, sender half moved and used remotely, sender dropped right after a send; oracle = observed values were sent and never decrease per receiver lineage, at quiescence every live receiver on a healthy path shows the last value sent, closure reported only after that value was visible",
            "deterministic simulation + fault injection; monotonicity and convergence-at-quiescence oracle"),
    "C16": ("exploration", "§4 C16", "one broadcast sender, 1-4 subscribers local / 1-2 hops away with send_buffer 1-3 and RECEIVE_BUFFER 1-2, lock-step/eager/slow/stalled readers, joins and leaves, one subscriber behind a cut link; oracle = Ok values increasing, Lagged between Ok(a), Ok(b) iff b != a+1, lock-step and roomy subscribers see everything, send synchronous and unaffected by failed subscribers",
            "deterministic simulation + fault injection; per-subscriber sequence oracle (lag marker iff gap)"),
    "C17": ("exploration", "§4 C17", "Owner on A, RwLock/ReadLock clones on A, B, C (directly, via B, after a round trip), cold and warm shared caches, 1-5 tasks with <= 12 read/write/commit/drop operations, guards held across other requests; holder-cut sub-batch; oracle = write-guard intervals never overlap read or write guard intervals, register linearizability search (committed write = read-modify-write, dropped write guard = read), nothing pending at quiescence once all guards are released",
            "deterministic simulation + fault injection; interval-exclusion and register-linearizability oracle"),
    "C18": ("exploration", "§4 C18", "sized and unsized rch::io channels on 2-3 endpoints, halves local/remote/both remote over 1-2 hops and handed over mid-stream, streams of 0..8 x chunk_size bytes in up to 20 write/flush ops, endings shutdown / drop without shutdown / over-long write / early reader drop / link cut, calls after an error, halves carried inside streamed values; oracle = bytes read are a prefix of bytes accepted at every read, Ok(0) only when the total equals the fixed or announced size, over-long writes refused, short streams end in an error, counters consistent, nobody pending at quiescence",
            "deterministic simulation + fault injection; byte-stream reference oracle"),
    "C20": ("exploration", "§4 C20", "drop-counted values behind Handle<T> cloned, cast, sent A-B-A / A-B-C-A over 1-3 links, into_inner/as_ref/as_mut on every endpoint, providers kept or dropped, clones dropped in drawn order; Lazy<T> and LazyBlob with sizes around chunk/buffer sizes fetched on any endpoint after 0-2 forwards, link cut during the fetch; oracle = access succeeds only at the origin at the original type and never yields another value, drop counter reaches 1 exactly when the last handle/provider is gone and not before, fetched == provided or an error",
            "deterministic simulation + fault injection; ownership/drop-count reference oracle"),
    "C19": ("exploration", "§4 C19", "rtc servers with cancellable and #[no_cancel] gated methods; call futures dropped after 0-12 polls or a virtual delay, callers losing or stalling their link, undecodable arguments, methods unknown to the server, oversize replies, concurrent well-behaved clients; oracle = abandoned cancellable executions never pass their gate, no_cancel executions complete, the lock is released (fresh &mut call served), every unrelated call succeeds, serve() keeps running and ends Ok (or with the deferred reply error) when clients are gone",
            "deterministic simulation + fault injection (cancellation at drawn polls, link cut/stall); execution-log oracle"),
    "C03": ("exploration", "§4 C03", "same runs as C01 plus stalled-receiver runs; oracle = no send/connect pending at quiescence while the receiver consumed everything, credit-conservation probe, zero-cost frame flood detector",
            "deterministic simulation; quiescence-based bounded liveness oracle + credit conservation probe"),
}

def main():
    checks = []
    for pid, (level, ref, text, technique) in CHECKS.items():
        checks.append({
            "property_id": pid,
            "quick_cmd": f"./check {pid} quick",
            "thorough_cmd": f"./check {pid} thorough",
            "evidence_file": f"/verif/evidence/{pid}.json",
            "replay_cmd_template": "./check --replay {path}",
            "engine": "sim",
            "level_claimed": {"category": level, "text": text, "design_ref": ref},
            "level_note": NOTE_COMMON,
            "technique": technique,
        })
    claimed = set(CHECKS)
    props = [json.loads(l) for l in open("/verif/properties.jsonl")]
    na = []
    for p in props:
        if p["id"] not in claimed:
            na.append({"property_id": p["id"], "reason": NOT_YET.get(p["id"], "check not built yet in this round; simulation applies (see DESIGN.md §4), no claim is made until the check exists")})
    manifest = {
        "version": 1,
        "setup_cmd": "cd /verif/sim && CARGO_NET_OFFLINE=true cargo build --release --offline",
        "hooks": {
            "guard": "--cfg remoc_verif",
            "enable": "RUSTFLAGS='--cfg remoc_verif --cfg tokio_unstable' via /verif/sim/.cargo/config.toml; hooks are inert until remoc::exec::verif::install is called by the harness",
            "baseline_off_cmd": "cd /repo && cargo nextest run --workspace --no-fail-fast --test-threads 8 --offline || cargo test --workspace --no-fail-fast --offline",
            "source_commits": HOOK_COMMITS,
            "add_only": False,
        },
        "engines": [{
            "name": "sim",
            "path": "/verif/sim",
            "serves_properties": sorted(claimed),
            "kind_free_text": "deterministic simulator: real remoc code on a tokio current-thread runtime with paused clock and seeded select!, harness-owned in-memory transport with fault injection, poll-deferral task adapter (H1), lock-step helper threads (H2) with drawn slow-thread profiles, seeded port numbers (H3), fixed-key hashers for order-sensitive tables (H4); seeded search over runs, choice-list replay and shrinking",
        }],
        "checks": checks,
        "not_applicable": na,
        "notes": "See DESIGN.md. ./check <ID> quick|thorough rebuilds the harness against /repo's working tree. Known findings: known_findings.json.",
    }
    json.dump(manifest, open("/verif/MANIFEST.json", "w"), indent=1)
    print("wrote MANIFEST.json with", len(checks), "checks;", len(na), "unclaimed")

NOT_YET = {}

if __name__ == "__main__":
    main()
