#!/bin/bash
# usage: multiseed.sh "<ids>" "<seeds>"   runs the quick tier of each check under several VERIF_SEEDs
# (no rebuild; evidence files are rewritten by the last run of each id)
ids=${1:-"C01 C02 C03 C04 C06 C10 C11 C12 C13 C14 C15 C16 C19"}
seeds=${2:-"1 2 3 4"}
cd /verif/sim || exit 2
for id in $ids; do
  for s in $seeds; do
    out=$(VERIF_SEED=$s VERIF_DIR=/verif ./target/release/sim check $id 2>&1); rc=$?
    echo "$id seed=$s exit=$rc $(echo "$out" | grep -E '^runs=' | cut -d' ' -f1-2,5) $(echo "$out" | grep -E '^VIOLATION|^violation kind|harness error|KNOWN-FINDING' | cut -c1-160 | tr '\n' ' ')"
  done
done
