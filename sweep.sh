#!/bin/bash
# usage: sweep.sh [quick|thorough] [ids...]   runs the checks one after the other and prints one line per check
tier=${1:-quick}; shift
ids=${@:-C01 C02 C03 C04 C05 C06 C07 C08 C09 C10 C11 C12 C13 C14 C15 C16 C17 C18 C19 C20}
cd "$(dirname "$0")"
for id in $ids; do
  s=$(date +%s); out=$(./check $id $tier 2>&1); rc=$?; e=$(date +%s)
  echo "$id exit=$rc secs=$((e-s)) $(echo "$out" | grep -E '^runs=' | cut -d' ' -f1-6) $(echo "$out" | grep -E '^VIOLATION|KNOWN-FINDING|harness error|^violation kind' | cut -c1-160 | tr '\n' ' ')"
done
